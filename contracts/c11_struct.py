"""C11, StructuredTransforms: LOOKUP harness on the real bodies of __getitem__, __len__, index_with_tail, Axis.map, Axis.unmap and
numeric.normdim.   BOUNDED: the number of axes (<= 3), the number of structured refinements (<= 2) and the number of boundary
(non-dimension) axes are concrete per configuration; every axis value (i, j, mod -- periodic or not), the element index and the
root are symbolic.

    x = self[i];  (k, t) = self.index_with_tail(x + tail)   ==>   k == i  and  t ~ tail

Small models local to this file (all listed in TRUSTED of contracts/C11.py):
  IVec     numpy integer vector of CONCRETE length with symbolic entries (asarray/array of a list of ints, elementwise + * // %,
           divmod by a tuple, iteration, tuple()).
  CTable   self._ctransforms: the (2,)*n object array of the child transforms of a line**n reference; entry [b0,..] is the abstract item
           CItem(b0,..); two entries are equal iff their index tuples are equal (interned singletons, pairwise distinct children).
  CIndices self._cindices: the dict {child transform: its index vector}, the inverse of CTable; KeyError for anything else.
  EItem    the k-th edge transform of self._etransforms (opaque, pairwise distinct).
  uppermost / promote on the remainder (children.., edges.., user tail..): exact (identity) when there is no user tail -- by A-SWAP no
           square item swaps as a receiver and adjacent updims do not swap; with a user tail the rewritten remainder is returned in
           normal form (A-NF-S, assumed; cross-checked natively on real structured sequences in native/c11.py:structured_roundtrip).
"""
import z3
from pyvc.contract import Contract, State
from pyvc.values import SInt, SBool, SObj, Sym, Unsupported, PyRaise, zint, is_intlike
from pyvc.nparr import Numpy
from pyvc.ops import ClassRef
from pyvc import ops
from pyvc.pybuiltins import divmod_builtin
from contracts.C13 import InlineFn

PROP = 'C11'


class IVec(Sym):
    """one-dimensional numpy int array of concrete length, symbolic entries"""

    def __init__(self, items):
        self.items = [x if isinstance(x, SInt) else SInt(zint(x)) for x in items]

    def _other(self, other):
        if isinstance(other, IVec):
            o = other.items
        elif isinstance(other, (tuple, list)) and all(is_intlike(x) for x in other):
            o = list(other)
        elif is_intlike(other):
            return [other] * len(self.items)
        else:
            return None
        if len(o) != len(self.items):
            if len(o) == 1:
                return o * len(self.items)
            raise PyRaise('ValueError', note='operands could not be broadcast together')
        return o

    def binop(self, ctx, op, other, reflected):
        o = self._other(other)
        if o is None or op not in ('+', '-', '*', '//', '%'):
            return NotImplemented
        out = []
        for a, b in zip(self.items, o):
            if op in ('//', '%'):
                # numpy integer division by zero gives 0 with a warning; not needed here: divisors are the literal shape entries
                d = z3.simplify(zint(a if reflected else b))
                if not (z3.is_int_value(d) and d.as_long() != 0):
                    raise Unsupported('vector division by a symbolic divisor')
            out.append(ops.binop(ctx, op, b, a) if reflected else ops.binop(ctx, op, a, b))
        return IVec(out)

    def iterate(self, ctx):
        return list(self.items)

    def length(self, ctx):
        return len(self.items)

    def getitem(self, ctx, idx):
        if isinstance(idx, int):
            return self.items[idx]
        raise Unsupported('IVec subscript %r' % (idx,))

    def truth(self, ctx):
        raise PyRaise('ValueError', note='truth value of an array')


def np_asarray(ctx, x, dtype=None):
    if isinstance(x, IVec):
        return x
    if isinstance(x, (list, tuple)) and all(is_intlike(v) for v in x):
        return IVec(x)
    raise Unsupported('numpy.asarray of %r' % (x,))


def np_array(ctx, x, dtype=None):
    r = np_asarray(ctx, x, dtype)
    return IVec(r.items)


def divmod_model(ctx, a, b):
    if isinstance(a, IVec):
        return ops.binop(ctx, '//', a, b), ops.binop(ctx, '%', a, b)
    if is_intlike(a) and is_intlike(b):
        # L-DIVMOD as a GROUND instance: divmod(q*n + r, n) == (q, r) whenever 0 <= r < n -- tried for the mixed-radix digits of the element index
        # (the premise is checked, not assumed); any other operands fall through to the characteristic form of the engine
        za, zb = zint(a), zint(b)
        for q, r in ctx.ghost.get('radix', ()):
            if ctx.entails(z3.And(za == q * zb + r, 0 <= r, r < zb)):
                ctx.used_axioms.add('L-DIVMOD (ground instance, premise checked): divmod(q*n + r, n) == (q, r) for 0 <= r < n')
                return SInt(q), SInt(r)
    return divmod_builtin(ctx, a, b)


class CItem(Sym):
    """the child transform of line**n with index tuple `bits`"""

    def __init__(self, bits):
        self.bits = tuple(bits)

    def compare(self, ctx, op, other, reflected):
        if op in ('==', '!='):
            if isinstance(other, CItem) and len(other.bits) == len(self.bits):
                e = z3.And(*[a == b for a, b in zip(self.bits, other.bits)]) if self.bits else z3.BoolVal(True)
                return SBool(e if op == '==' else z3.Not(e))
            return op == '!='
        return NotImplemented

    def truth(self, ctx):
        return True

    def isinstance_(self, ctx, types):
        return any(getattr(t, '__name__', None) in ('TransformItem', 'TensorChild', 'SimplexChild', 'Square') for t in types)


class CTable(Sym):
    def __init__(self, n):
        self.n = n

    def getattr(self, ctx, name):
        if name == 'shape':
            return (2,) * self.n
        if name == 'ndim':
            return self.n
        raise Unsupported('_ctransforms.' + name)

    def getitem(self, ctx, idx):
        if not (isinstance(idx, tuple) and len(idx) == self.n and all(is_intlike(v) for v in idx)):
            raise Unsupported('_ctransforms[%r]' % (idx,))
        bits = [zint(v) for v in idx]
        for b in bits:
            if not ctx.branch(z3.And(-2 <= b, b < 2)):
                raise PyRaise('IndexError', note='child index out of bounds')
        return CItem([z3.If(b < 0, b + 2, b) for b in bits])


class CIndices(Sym):
    def __init__(self, n):
        self.n = n

    def getitem(self, ctx, key):
        if isinstance(key, CItem) and len(key.bits) == self.n:
            return IVec([SInt(b) for b in key.bits])
        raise PyRaise('KeyError', note='not a child transform of the structured reference')


class EItem(Sym):
    def __init__(self, k):
        self.k = k

    def compare(self, ctx, op, other, reflected):
        if op in ('==', '!='):
            same = isinstance(other, EItem) and other.k == self.k
            return same if op == '==' else not same
        return NotImplemented

    def truth(self, ctx):
        return True


class UItem(Sym):
    """an item of the remainder as rewritten by transform.uppermost (only promote may look at it)"""

    def __init__(self, x, group):
        self.x, self.group = x, group


class NFTail(Sym):
    """an item of the user tail in normal form (equivalent remainder)"""

    def __init__(self, x):
        self.x = x

    def compare(self, ctx, op, other, reflected):
        if op in ('==', '!=') and isinstance(other, NFTail):
            r = ops.compare(ctx, '==', self.x, other.x)
            return r if op == '==' else ops.unop(ctx, 'not', r)
        if op in ('==', '!='):
            raise Unsupported('comparison of a normalised tail item with %r' % (other,))
        return NotImplemented


A_NF_S = ('A-NF-S: for a remainder (children.., structured edge transforms.., user tail..) transform.uppermost keeps the leading children, and '
          'transform.promote(uppermost(edges + tail), fromdims) == edges + NF(tail) (assumed; exact identity when there is no user tail, by A-SWAP)')


class TransformModel:
    def __init__(self, naxes):
        self.naxes = naxes

    def sym_getattr(self, ctx, name):
        if name == 'Index':
            def construct(ctx, ndims, index):
                return SObj('Index', attrs=dict(todims=ndims, fromdims=ndims, index=index), classes=('Index', 'Identity', 'Square', 'TransformItem'))
            return ClassRef('Index', construct=construct)
        if name == 'uppermost':
            def uppermost(ctx, chain):
                chain = tuple(chain)
                k = 0
                while k < len(chain) and isinstance(chain[k], CItem):
                    k += 1
                rest = chain[k:]
                if all(isinstance(x, EItem) for x in rest):
                    ctx.used_axioms.add('A-SWAP => uppermost is the identity on (children.., edges..): a square receiver never swaps, adjacent updims do not swap')
                    return chain
                ctx.used_axioms.add(A_NF_S)
                group = object()
                return chain[:k] + tuple(UItem(x, group) for x in rest)
            return uppermost
        if name == 'promote':
            def promote(ctx, chain, ndims):
                chain = tuple(chain)
                if all(isinstance(x, EItem) for x in chain):
                    ctx.used_axioms.add('A-SWAP => promote is the identity on a chain of structured edge transforms (adjacent updims do not swap)')
                    return chain
                if all(isinstance(x, UItem) for x in chain) and len(set(id(x.group) for x in chain)) == 1:
                    ctx.used_axioms.add(A_NF_S)
                    k = 0
                    while k < len(chain) and isinstance(chain[k].x, EItem):
                        k += 1
                    return tuple(x.x for x in chain[:k]) + tuple(NFTail(x.x) for x in chain[k:])
                raise Unsupported('promote of %r' % (chain,))
            return promote
        raise Unsupported('transform.' + name)


class UtilModel:
    def sym_getattr(self, ctx, name):
        if name == 'product':
            def product(ctx, it):
                xs = ops.iterate(ctx, it)
                if not xs:
                    raise PyRaise('TypeError', note='reduce() of empty iterable with no initial value')
                r = xs[0]
                for x in xs[1:]:
                    r = ops.binop(ctx, '*', r, x)
                return r
            return product
        raise Unsupported('util.' + name)


class NumericModel:
    def sym_getattr(self, ctx, name):
        if name == 'isint':
            return lambda ctx, x: isinstance(x, (int, SInt)) and not isinstance(x, bool)
        if name == 'normdim':
            return InlineFn('numeric:normdim', {'isint': lambda ctx, x: isinstance(x, (int, SInt)) and not isinstance(x, bool)})
        if name in ('isintarray', 'isboolarray'):
            return lambda ctx, x: False
        raise Unsupported('numeric.' + name)


def make_axis(cx, k, isdim, inline):
    i, j, mod = cx.int('axis%d.i' % k), cx.int('axis%d.j' % k), cx.int('axis%d.mod' % k)
    # class invariants of Axis (asserted by its constructor) and of periodic axes (the axis fits in one period)
    cx.assume(z3.And(i <= j, mod >= 0, z3.Implies(mod != 0, j - i <= mod)))
    ax = SObj('DimAxis' if isdim else 'IntAxis', attrs=dict(i=SInt(i), j=SInt(j), mod=SInt(mod), isdim=isdim), classes=('Axis',))
    ax.length = lambda ctx: InlineFn('transformseq:Axis.__len__')(ctx, ax)
    ax.ijm = (i, j, mod)
    if inline:
        ax.methods['map'] = InlineFn('transformseq:Axis.map')
        ax.methods['unmap'] = InlineFn('transformseq:Axis.unmap')
        return ax
    # callee contract (proved in this property: contracts/C11.py AxisInverse 'unmap-after-map'): for 0 <= x < len(axis), map(x) returns a value y
    # for which unmap(y) returns x without raising.  Used as ground instances at the arguments map() is called with; nothing is said about other values.
    mapf = z3.Function('axis%d.map' % k, z3.IntSort(), z3.IntSort())
    unmapf = z3.Function('axis%d.unmap' % k, z3.IntSort(), z3.IntSort())
    valid = z3.Function('axis%d.unmap-returns' % k, z3.IntSort(), z3.BoolSort())

    def map_(ctx, self_, x):
        x = zint(x)
        if not ctx.branch(z3.And(0 <= x, x < j - i)):
            raise PyRaise('AssertionError', note='Axis.map: 0 <= ielem < len(self)')
        ctx.assume(z3.And(valid(mapf(x)), unmapf(mapf(x)) == x), axiom='callee contract Axis.unmap(Axis.map(x)) == x for 0 <= x < len(axis) (proved: AxisInverse unmap-after-map)')
        return SInt(mapf(x))

    def unmap_(ctx, self_, y):
        y = zint(y)
        if not ctx.branch(valid(y)):
            raise PyRaise('ValueError', note='Axis.unmap: index outside the axis')
        return SInt(unmapf(y))
    ax.methods['map'] = map_
    ax.methods['unmap'] = unmap_
    return ax


def make_structured(cx, S, dims, nrefine, inline=False):
    from contracts.C11 import titem
    naxes = len(dims)
    axes = tuple(make_axis(cx, k, d, inline) for k, d in enumerate(dims))
    root = titem(cx, 'root')
    et = tuple(EItem(k) for k in range(sum(1 for d in dims if not d)))
    o = SObj('StructuredTransforms', attrs=dict(_root=root, _axes=axes, _nrefine=nrefine, _ctransforms=CTable(naxes), _cindices=CIndices(naxes), _etransforms=et,
                                                fromdims=sum(1 for d in dims if d), todims=SInt(cx.int('todims'))))
    o.length = lambda ctx: InlineFn('transformseq:StructuredTransforms.__len__')(ctx, o)
    S.axes, S.root, S.et = axes, root, et
    n = z3.IntVal(1)
    for ax in axes:
        n = n * (ax.ijm[1] - ax.ijm[0])
    return o, n


def struct_globals(naxes):
    return {'numeric': NumericModel(), 'numpy': Numpy(extra={'asarray': np_asarray, 'array': np_array}), 'transform': TransformModel(naxes), 'util': UtilModel(),
            'divmod': divmod_model}


class StructuredLookup(Contract):
    prop = PROP
    fn = 'transformseq:StructuredTransforms.index_with_tail'

    def __init__(self, dims, nrefine, taillen, inline=False):
        self.dims, self.nrefine, self.taillen, self.inline = tuple(dims), nrefine, taillen, inline
        self.label = 'roundtrip,axes=%s,nrefine=%d,tail=%d%s' % (''.join('D' if d else 'I' for d in dims), nrefine, taillen, ',axis-bodies-inline' if inline else '')
        self.bounded = '%d axes (%d boundary axes), %d structured refinements, user tail of %d items; axis values, element index and root symbolic' % (
            len(dims), sum(1 for d in dims if not d), nrefine, taillen)

    def setup(self, cx):
        from contracts.C11 import titem
        S = State()
        S.self_, S.n = make_structured(cx, S, self.dims, self.nrefine, self.inline)
        # the element index by its mixed-radix digits (row-major, last axis fastest): L-RADIX -- (d0, .., dk) -> ((d0*n1 + d1)*n2 + ..) + dk is a bijection
        # from the box 0 <= d_j < n_j onto range(n0*..*nk); so "for all digits" is "for all 0 <= i < len(self)"
        digits = [cx.int('digit%d' % k) for k in range(len(self.dims))]
        i = z3.IntVal(0)
        radix = []
        for d, ax in zip(digits, S.axes):
            cx.assume(z3.And(0 <= d, d < ax.ijm[1] - ax.ijm[0]))
            radix.append((i, d))
            i = i * (ax.ijm[1] - ax.ijm[0]) + d
        cx.assume(z3.And(0 <= i, i < S.n), axiom='L-RADIX: the row-major index of digits 0 <= d_j < n_j lies in range(n_0*..*n_k), and every index in that range has such digits')
        cx.ghost['radix'] = radix
        S.i, S.digits = i, digits
        S.tail = tuple(titem(cx, 'tail%d' % k) for k in range(self.taillen))
        S.globals = struct_globals(len(self.dims))
        return S

    def body(self, cx, S, call):
        x = call('transformseq:StructuredTransforms.__getitem__', S.self_, SInt(S.i))
        S.elem = x
        return call('transformseq:StructuredTransforms.index_with_tail', S.self_, x + S.tail)

    def ensures(self, cx, S, result):
        from contracts.C11 import same_tuple
        j, t = result
        want = tuple(NFTail(x) for x in S.tail)
        x = S.elem
        shape = (isinstance(x, tuple) and len(x) == 1 + len(self.dims) + self.nrefine + len(S.et)
                 and all(isinstance(v, SObj) and v.clsname == 'Index' for v in x[1:1 + len(self.dims)])
                 and all(isinstance(v, CItem) for v in x[1 + len(self.dims):1 + len(self.dims) + self.nrefine]) and x[len(x) - len(S.et):] == S.et)
        return [('index-recovered', zint(j) == S.i), ('tail-recovered', same_tuple(cx, t, want)),
                ('element-is-root-indices-children-edges', z3.And(z3.BoolVal(bool(shape)), same_tuple(cx, x[:1], (S.root,))))]

    def replay(self, ob):
        m = ob.model or {}
        return ("import sys; sys.path.insert(0, %r)\nfrom native import c11\nc11.structured_roundtrip(%r, %r, %r, %r)\n"
                % (_here(), list(self.dims), self.nrefine, self.taillen, {k: str(v) for k, v in m.items() if k.startswith('axis') or k.startswith('digit')}))


def _here():
    import os
    return os.path.dirname(os.path.dirname(os.path.abspath(__file__)))


class StructuredForeign(Contract):
    """index_with_tail rejects a chain that is too short, has a foreign root, or a non-Index item where an Index is expected."""
    prop = PROP
    fn = 'transformseq:StructuredTransforms.index_with_tail'
    expect_return = False

    def __init__(self, what):
        self.what = what
        self.label = 'foreign,' + what
        self.bounded = '2 axes, 1 structured refinement'

    def setup(self, cx):
        from contracts.C11 import titem
        S = State()
        o, n = make_structured(cx, S, (True, True), 1)
        tm = TransformModel(2)
        mkindex = tm.sym_getattr(cx, 'Index').construct
        idx = [mkindex(cx, 2, SInt(cx.int('index%d' % k))) for k in range(2)]
        child = CItem([cx.int('bit0'), cx.int('bit1')])
        for b in child.bits:
            cx.assume(z3.And(0 <= b, b <= 1))
        if self.what == 'short':
            trans = (S.root, *idx)
        elif self.what == 'root':
            other = titem(cx, 'otherroot')
            cx.assume(other.term != S.root.term)
            trans = (other, *idx, child)
        elif self.what == 'non-index':
            trans = (S.root, idx[0], titem(cx, 'item'), child)
        elif self.what == 'non-child':
            trans = (S.root, *idx, titem(cx, 'item'))
        else:
            raise ValueError(self.what)
        S.args = (o, trans)
        S.globals = struct_globals(2)
        return S

    def raises(self, cx, S, e):
        return e.exc == 'ValueError'

    def ensures(self, cx, S, result):
        return [('foreign-chain-is-rejected', z3.BoolVal(False))]

    def replay(self, ob):
        return "import sys; sys.path.insert(0, %r)\nfrom native import c11\nc11.structured_foreign(%r)\n" % (_here(), self.what)


CONFIGS = [((True,), 0, 0, True), ((True,), 2, 0), ((True, True), 1, 0), ((True, False), 1, 2), ((True, True, True), 2, 0), ((False, True, True), 0, 2), ((True, True), 2, 2), ((False, False, True), 1, 0), ((True, True, True), 1, 2)]


def contracts():
    return [StructuredLookup(*c) for c in CONFIGS] + [StructuredForeign(w) for w in ('short', 'root', 'non-index', 'non-child')]
