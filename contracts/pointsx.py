"""C09: TransformPoints.weights -- an affinely transformed point set keeps its points and scales every weight by |det|
(so that the weights keep summing to the volume of the transformed element, and stay non-negative for reflections)."""
import z3
from pyvc.contract import Contract, State
from pyvc.values import SObj, SReal, Unsupported, zreal
from contracts.C09 import NdArr, PROP
import os

HERE = os.path.dirname(os.path.dirname(os.path.abspath(__file__)))


class RArr(NdArr):
    """NdArr that can also be scaled by a real scalar (array * float)."""

    def binop(self, ctx, op, other, reflected):
        if op in ('*', '/') and not isinstance(other, NdArr):
            try:
                c = zreal(other)
            except TypeError:
                return NotImplemented
            s = self.sel
            if op == '*':
                return RArr(self.shape, lambda *ix: s(*ix) * c, 'scaled')
            if not reflected:
                if not ctx.branch(c != 0):
                    from pyvc.values import PyRaise
                    raise PyRaise('ZeroDivisionError')
                return RArr(self.shape, lambda *ix: s(*ix) / c, 'scaled')
            return NotImplemented
        return super().binop(ctx, op, other, reflected)


class TransformWeights(Contract):
    prop = PROP
    fn = 'points:TransformPoints.weights'

    def setup(self, cx):
        n, d = cx.int('npoints'), cx.real('det')
        cx.assume(n >= 0)
        W = z3.Function('w', z3.IntSort(), z3.RealSort())
        pts = SObj('Points', attrs=dict(npoints=n, weights=RArr([n], lambda i: W(i), 'w')))
        me = SObj('TransformPoints', attrs=dict(points=pts, trans=SObj('TransformItem', attrs=dict(det=SReal(d)))))

        class Ty:
            def sym_getattr(self, ctx, name):
                return lambda ctx, x, copy=True: x
        S = State(args=(me,), n=n, d=d, W=W, i=cx.int('i'))
        S.globals = {'types': Ty()}
        return S

    def ensures(self, cx, S, r):
        if not isinstance(r, NdArr) or len(r.shape) != 1:
            raise Unsupported('returned %r' % (r,))
        i, d = S.i, S.d
        inr = z3.And(0 <= i, i < S.n)
        absd = z3.If(d < 0, -d, d)
        return [('one-weight-per-point', z3.simplify(r.shape[0]) == S.n),
                ('weight-is-scaled-by-abs-det', z3.Implies(inr, r.sel(i) == S.W(i) * absd)),
                ('non-negative-weights-stay-non-negative', z3.Implies(z3.And(inr, S.W(i) >= 0), r.sel(i) >= 0))]

    def replay(self, ob):
        return "import sys; sys.path.insert(0, %r)\nfrom native import c09\nc09.transform_weights()\n" % HERE


def contracts():
    return [TransformWeights()]
