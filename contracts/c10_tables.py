"""C10 -- bounded stand-ins by exhaustive native enumeration (never counted as proved): the child/edge tables of the reference
elements and the connectivity of refined / subset topologies, checked against the GEOMETRY (a face is the set of its vertex
coordinates; two elements are neighbours iff they own the same face).

Reference.connectivity / edgechildren   line, square, cube, triangle, tetrahedron, triangle x line, line x triangle: every (child, edge)
    of the refined element is either listed in exactly one edgechildren list (then it is that child of that parent edge, and its
    connectivity entry is -1) or is an interior face shared with exactly one other child (its connectivity entry, symmetric).
RefinedTopology.connectivity   the generic class over small structured (also periodic) and unstructured bases, refined once and twice.
SubsetTopology.connectivity / boundary / interfaces   every non-empty subset of the bases with <= 6 elements: connectivity is the face
    adjacency among the kept elements, the boundary lists exactly the exposed faces, the interfaces every interior face once.
"""
from pyvc.native import NativeBounded

PROP = 'C10'
FAMILY = 'rectilinear [1] [3] [3]p [4]p [2,2] [3p,2] [3p,1] [2,3p] [2,1,2] [2,3p,1], unitsquare(1|2, triangle), unitsquare(2, mixed)'


class ReferenceConnectivity(NativeBounded):
    prop = PROP
    fn = 'element:Reference.connectivity'
    bounded = 'exhaustive native enumeration over every (child, edge) of line, square, cube, triangle, tetrahedron, triangle x line, line x triangle'
    module = 'c10'
    call = 'reference_tables()'
    clauses = ('connectivity-is-the-face-adjacency', 'connectivity-symmetric', 'every-child-face-exactly-once')


class ReferenceEdgechildren(NativeBounded):
    prop = PROP
    fn = 'element:Reference.edgechildren'
    bounded = ReferenceConnectivity.bounded
    module = 'c10'
    call = 'reference_tables()'
    clauses = ('edgechildren-are-the-children-of-the-edge',)


class RefinedConnectivity(NativeBounded):
    prop = PROP
    fn = 'topology:RefinedTopology.connectivity'
    bounded = 'exhaustive native enumeration: RefinedTopology (1x, 2x, <= 300 elements) over ' + FAMILY + '; no two elements share more than one face'
    module = 'c10'
    call = 'refined_connectivity()'
    clauses = ('connectivity-is-the-face-adjacency', 'connectivity-symmetric', 'every-face-between-at-most-two-elements')


class SubsetTables(NativeBounded):
    prop = PROP
    bounded = 'exhaustive native enumeration: every non-empty subset of the bases with <= 6 elements among ' + FAMILY + '; no two elements share more than one face'
    module = 'c10'
    call = 'subset_boundary_interfaces()'

    def __init__(self, fn, clauses):
        self.fn, self.clauses = fn, clauses


class RefinedConnectivityTwoPerPeriod(RefinedConnectivity):
    label = 'two-elements-per-period'
    bounded = 'exhaustive native enumeration: RefinedTopology over periodic structured bases with exactly two elements along a periodic direction'
    call = 'refined_connectivity(True)'


class SubsetTablesTwoPerPeriod(SubsetTables):
    label = 'two-elements-per-period'
    bounded = 'exhaustive native enumeration: every non-empty subset of periodic structured bases with exactly two elements along a periodic direction'
    call = 'subset_boundary_interfaces(True)'


def contracts():
    return [ReferenceConnectivity(), ReferenceEdgechildren(), RefinedConnectivity(),
            SubsetTables('topology:SubsetTopology.connectivity', ('connectivity-is-the-face-adjacency', 'connectivity-symmetric')),
            SubsetTables('topology:SubsetTopology.boundary', ('boundary-is-the-exposed-faces',)),
            SubsetTables('topology:SubsetTopology.interfaces', ('interfaces-list-every-interior-face-once',))]


def parked():
    """fail on the unchanged tree (notes/C10-c10.md, candidate defects 2 and 3)"""
    return [RefinedConnectivityTwoPerPeriod(), SubsetTablesTwoPerPeriod('topology:SubsetTopology.interfaces', ('interfaces-list-every-interior-face-once', 'connectivity-is-the-face-adjacency'))]
