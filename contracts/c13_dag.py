"""C13 extension, part 2 -- evaluable.replace_arguments / zero_all_arguments through util.shallow_replace.

The real bodies of `_util.shallow_replace` (the explicit-stack traversal), `evaluable.replace_arguments` and
`evaluable.zero_all_arguments` (the per-object callables it is given) are executed on a BOUNDED family of expression
DAGs (fixed structure, at most depth 3 and 5 nodes) whose argument NAMES, shapes and dtypes are symbolic:

  T1  u                                   T4  Add(Sin(u), u)           (a shared LEAF)
  T2  Add(u, w)                           T5  Einsum((u, w))           (children inside a tuple)
  T3  Mul(X, X) with X = Neg(u)           (a shared interior node: a diamond)

with the replacement map {k1: V1, k2: V2}, k1 != k2, V1 = Wrap(b) an expression that itself contains an argument b (whose
name may be k1 or k2 -- the chain/swap case), V2 a constant.

ensures (for every resolution of the name equalities; one obligation per path and clause)
  replaced-everywhere-and-only-there   the result is the DAG in which every Argument leaf whose name is a key is the
                                       given replacement OBJECT (identity: it is not entered again, hence the replacement
                                       is simultaneous), every other node is rebuilt from the results of its children in
                                       order, every irreducible object is itself
  sharing-preserved                    two occurrences of one object in the input are one object in the result
  once-per-object                      the callable is applied at most once per distinct object, every node is rebuilt at
                                       most once (memo)
  accepted-only-if-consistent          normal return only if no replaced argument has a replacement of another dtype or of
                                       a certainly different shape (else AssertionError -- and nothing but that escapes)

`_reduce` (how an object decomposes into constructor + arguments), `IDDict` (identity-keyed dict), `asarray` on Arrays and
`_any_certainly_different` are AXIOMS (TRUSTED).  Everything is labelled bounded.
"""
import z3
from pyvc.contract import Contract, State
from pyvc.values import SObj, SOpaque, STerm, SBool, Sym, Unsupported, PyRaise
from pyvc.ops import ClassRef
from pyvc import ops
from contracts.C13 import PROP, NAME, SHAPE, DT, name, shape, dtype, InlineFn, _script

BOUND_DAG = 'expression DAGs T1..T5 (<= 5 nodes, depth <= 3), two replacement keys; names/shapes/dtypes symbolic'


# ---------------------------------------------------------------- the object universe

def arg_leaf(cx, tag):
    return SObj('Argument', attrs=dict(name=name(cx, tag + '.name'), shape=shape(cx, tag + '.shape'), dtype=dtype(cx, tag + '.dtype'), tag=tag), classes=('Argument', 'Array'))


def node(op, *children):
    return SObj('Node', attrs=dict(op=op, children=tuple(children)), classes=('Array',))


def build_target(cx, which):
    u, w = arg_leaf(cx, 'u'), arg_leaf(cx, 'w')
    if which == 'T1':
        return u
    if which == 'T2':
        return node('Add', u, w)
    if which == 'T3':
        x = node('Neg', u)
        return node('Mul', x, x)
    if which == 'T4':
        return node('Add', node('Sin', u), u)
    if which == 'T5':
        return node('Einsum', (u, w))
    raise ValueError(which)


class Recreate(tuple):
    sym_classes = ('recreate',)


class World:
    """externals of shallow_replace with their bookkeeping (per path)"""

    def __init__(self, cx):
        self.cx = cx
        self.func_calls = []   # objects the callable was applied to
        self.rebuilt = {}      # id(original) -> list of rebuilt objects
        self.keep = []

    # _reduce: AXIOM -- a Node decomposes into (its constructor, its constructor arguments), an Argument into
    # (Argument, (name, shape, dtype)) with an irreducible shape, a non-empty tuple into (_tuple, items); str/type/None and
    # empty containers are not entered
    def reduce(self, ctx, obj):
        ctx.used_axioms.add('_util._reduce: Node -> (constructor, children); Argument -> (Argument, (name, shape, dtype)); non-empty tuple -> (_tuple, items); terminals and empty containers -> None')
        if isinstance(obj, tuple) and not isinstance(obj, Recreate):
            if not obj:
                return None
            return (self.recon(obj), tuple(obj))
        if isinstance(obj, SObj) and obj.clsname == 'Node':
            return (self.recon(obj), tuple(obj.attrs['children']))
        if isinstance(obj, SObj) and obj.clsname == 'Argument':
            return (self.recon(obj), (obj.attrs['name'], obj.attrs['shape'], obj.attrs['dtype']))
        if isinstance(obj, (STerm, SOpaque)) or obj is None or isinstance(obj, (str, int, float)):
            return None
        if isinstance(obj, SObj):
            return None  # Zeros / constants of the model: irreducible
        raise Unsupported('_reduce(%r)' % (obj,))

    def recon(self, orig):
        def f(ctx, *args):
            if isinstance(orig, tuple):
                r = tuple(args)
            elif orig.clsname == 'Node':
                r = SObj('Node', attrs=dict(op=orig.attrs['op'], children=tuple(args)), classes=('Array',))
            else:
                if len(args) != 3:
                    raise PyRaise('TypeError', note='Argument() takes name, shape, dtype')
                r = SObj('Argument', attrs=dict(name=args[0], shape=args[1], dtype=args[2], tag='rebuilt'), classes=('Argument', 'Array'))
            self.rebuilt.setdefault(id(orig), []).append(r)
            self.keep.append(orig)
            return r
        return f

    def namedtuple(self, ctx, nm, fields):
        if list(fields) != ['f', 'nargs', 'orig']:
            raise Unsupported('namedtuple%r' % (fields,))
        return ClassRef(nm, construct=lambda ctx, f, nargs, orig: Recreate((f, nargs, orig)))


class IDDictModel(Sym):
    """util.IDDict: a mapping keyed by object identity (AXIOM)"""

    def __init__(self):
        self.d = {}

    def getattr(self, ctx, attr):
        if attr == 'get':
            def get(ctx, key, default=None):
                kv = self.d.get(id(key))
                return default if kv is None else kv[1]
            return get
        raise Unsupported('IDDict.%s' % attr)

    def setitem(self, ctx, key, value):
        self.d[id(key)] = (key, value)

    def getitem(self, ctx, key):
        if id(key) not in self.d:
            raise PyRaise('KeyError')
        return self.d[id(key)][1]

    def truth(self, ctx):
        return bool(self.d)


class Stub:
    def __init__(self, **attrs):
        self.attrs = attrs

    def sym_getattr(self, ctx, attr):
        if attr in self.attrs:
            return self.attrs[attr]
        raise Unsupported('%s is not modelled in C13' % attr)


def walk(obj, seen=None):
    """all objects of the input DAG, each once (by identity)"""
    seen = seen if seen is not None else {}
    if id(obj) in seen:
        return seen
    seen[id(obj)] = obj
    if isinstance(obj, tuple):
        for x in obj:
            walk(x, seen)
    elif isinstance(obj, SObj) and obj.clsname == 'Node':
        for x in obj.attrs['children']:
            walk(x, seen)
    elif isinstance(obj, SObj) and obj.clsname == 'Argument':
        for k in ('name', 'shape', 'dtype'):  # its constructor arguments (terminals)
            seen[id(obj.attrs[k])] = obj.attrs[k]
    return seen


class DagContract(Contract):
    prop = PROP
    bounded = BOUND_DAG

    def __init__(self, target):
        self.target = target
        self.label = target

    # -- to override: what the callable does to an Argument leaf: list of (condition, replacement object), else rebuilt
    def leaf_cases(self, S, a):
        raise NotImplementedError

    def common_setup(self, cx):
        W = World(cx)
        S = State(W=W, target=build_target(cx, self.target))
        S.globals = {'collections': Stub(namedtuple=W.namedtuple), 'IDDict': ClassRef('IDDict', construct=lambda ctx: IDDictModel()), '_reduce': W.reduce,
                     'functools': Stub(wraps=lambda ctx, f: (lambda ctx, g: g)), 'shallow_replace': InlineFn('_util:shallow_replace')}
        return S

    def hit_case(self, S, orig):
        """None, or (condition, object): under the condition the callable maps `orig` to exactly that object"""
        return None

    def spec(self, S, r, orig, memo):
        """z3 Bool: r is what the definition prescribes for orig"""
        key = (id(r), id(orig))
        if key in memo:
            return memo[key]
        if isinstance(orig, tuple):
            ok = isinstance(r, tuple) and len(r) == len(orig)
            f = z3.And(*[self.spec(S, x, y, memo) for x, y in zip(r, orig)]) if ok else z3.BoolVal(False)
        elif isinstance(orig, SObj) and orig.clsname == 'Argument':
            cases = self.leaf_cases(S, orig)
            none = z3.And(*[z3.Not(c) for c, v in cases]) if cases else z3.BoolVal(True)
            rebuilt = isinstance(r, SObj) and r.clsname == 'Argument' and r is not orig and all(r.attrs[k] is orig.attrs[k] for k in ('name', 'shape', 'dtype'))
            parts = [z3.And(c, z3.BoolVal(bool(v(r)) if callable(v) else r is v)) for c, v in cases] + [z3.And(none, z3.BoolVal(bool(rebuilt)))]
            f = z3.Or(*parts)
        elif isinstance(orig, SObj) and orig.clsname == 'Node':
            ok = isinstance(r, SObj) and r.clsname == 'Node' and r is not orig and r.attrs['op'] == orig.attrs['op'] and len(r.attrs['children']) == len(orig.attrs['children'])
            f = z3.And(*[self.spec(S, x, y, memo) for x, y in zip(r.attrs['children'], orig.attrs['children'])]) if ok else z3.BoolVal(False)
        else:
            f = z3.BoolVal(r is orig)
        hit = self.hit_case(S, orig)
        if hit is not None:
            f = z3.If(hit[0], z3.BoolVal(r is hit[1]), f)
        memo[key] = f
        return f

    def result_map(self, r, orig, out):
        """pairs (original object, result object) along the structure (only where the shapes agree)"""
        out.append((orig, r))
        if isinstance(orig, tuple) and isinstance(r, tuple) and len(r) == len(orig):
            for x, y in zip(r, orig):
                self.result_map(x, y, out)
        elif isinstance(orig, SObj) and orig.clsname == 'Node' and isinstance(r, SObj) and r.clsname == 'Node' and len(r.attrs['children']) == len(orig.attrs['children']):
            for x, y in zip(r.attrs['children'], orig.attrs['children']):
                self.result_map(x, y, out)
        return out

    def ensures(self, cx, S, result):
        W = S.W
        pairs = self.result_map(result, S.target, [])
        shared = True
        first = {}
        for o, r in pairs:
            if id(o) in first and first[id(o)] is not r:
                shared = False
            first.setdefault(id(o), r)
        calls = [id(x) for x in W.func_calls]
        once = len(calls) == len(set(calls)) and all(len(v) <= 1 for v in W.rebuilt.values())
        inside = set(walk(S.target))
        only_input = all(i in inside for i in calls)  # the callable never sees a rebuilt object or the inside of a replacement
        return [('replaced-everywhere-and-only-there', self.spec(S, result, S.target, {})),
                ('sharing-preserved', z3.BoolVal(shared)),
                ('once-per-object', z3.BoolVal(once)),
                ('replacements-are-not-entered', z3.BoolVal(only_input))] + self.more_ensures(cx, S, result)

    def more_ensures(self, cx, S, result):
        return []


class ShallowReplace(DagContract):
    """_util.shallow_replace with an ABSTRACT callable: object o is mapped to the fresh object R(o) when hit(o), else None"""
    fn = '_util:shallow_replace'

    def setup(self, cx):
        S = self.common_setup(cx)
        S.hit, S.repl = {}, {}
        for i, o in enumerate(walk(S.target).values()):
            if isinstance(o, SObj):
                S.hit[id(o)] = cx.bool('hit.%s' % (o.attrs.get('tag') or o.attrs.get('op')))
                S.repl[id(o)] = SObj('Replacement', attrs=dict(of=o), classes=('Array',))

        def func(ctx, obj, extra):
            S.W.func_calls.append(obj)
            if extra is not S.extra:
                raise Unsupported('extra argument not passed through')
            if id(obj) in S.hit and ctx.branch(S.hit[id(obj)]):
                return S.repl[id(obj)]
            return None
        S.extra = SOpaque('extra')
        S.args = (func, S.target, S.extra)
        return S

    def hit_case(self, S, orig):
        if isinstance(orig, SObj) and id(orig) in S.hit:
            return (S.hit[id(orig)], S.repl[id(orig)])
        return None

    def leaf_cases(self, S, a):
        return []

    def replay(self, ob):
        return _script('shallow_replace(%r)' % (self.target,))


class EvReplaceArguments(DagContract):
    fn = 'evaluable:replace_arguments'

    def setup(self, cx):
        S = self.common_setup(cx)
        k1, k2 = name(cx, 'k1'), name(cx, 'k2')
        cx.assume(k1.term != k2.term)
        b = arg_leaf(cx, 'b')
        v1 = SObj('Node', attrs=dict(op='Wrap', children=(b,), shape=shape(cx, 'V1.shape'), dtype=dtype(cx, 'V1.dtype')), classes=('Array',))
        v2 = SObj('Node', attrs=dict(op='Const', children=(), shape=shape(cx, 'V2.shape'), dtype=dtype(cx, 'V2.dtype')), classes=('Array',))
        S.keys, S.values, S.b = (k1, k2), (v1, v2), b
        S.arguments = {k1: v1, k2: v2}
        S.cd = {}

        def certainly_different(ctx, s1, s2):
            # AXIOM: _any_certainly_different(s1, s2) implies s1 != s2 (it may also be False for different shapes: "not certainly")
            c = ctx.bool('certainly_different(%s,%s)' % (s1.label, s2.label))
            ctx.assume(z3.Implies(c, s1.term != s2.term), axiom='_any_certainly_different(s1, s2) implies s1 != s2')
            S.cd[(id(s1), id(s2))] = c
            return SBool(c)
        S.globals.update({'Argument': ClassRef('Argument'), 'asarray': lambda ctx, x: x, '_any_certainly_different': certainly_different})
        return S

    def body(self, cx, S, call):
        inside = walk(S.target)

        def func(ctx, value, arguments):
            S.W.func_calls.append(value)
            if id(value) not in inside and any(value is x for v in S.values for x in walk(v).values()):
                # the traversal is inside a replacement: the replacement is being replaced again (not simultaneous)
                raise PyRaise('ModelError:replacement-entered', note='the callable is applied to an object inside a replacement value')
            return call('evaluable:replace_arguments', value, arguments)
        # the decorator form `@util.shallow_replace` first (returns the wrapper), then the wrapper on (target, arguments)
        wrapper = call('_util:shallow_replace', func)
        cx.interp.globals['replace_arguments'] = lambda ctx, *a, **k: ctx.interp.call(wrapper, list(a), k)  # the module-level name is the wrapper
        return cx.interp.call(wrapper, [S.target, S.arguments], {})

    def leaf_cases(self, S, a):
        (k1, k2), (v1, v2) = S.keys, S.values
        return [(a.attrs['name'].term == k1.term, v1), (a.attrs['name'].term == k2.term, v2)]

    def mismatch(self, S):
        """some replaced argument of the input has a replacement of another dtype or shape"""
        out = []
        for o in walk(S.target).values():
            if isinstance(o, SObj) and o.clsname == 'Argument':
                for k, v in zip(S.keys, S.values):
                    out.append(z3.And(o.attrs['name'].term == k.term, z3.Or(o.attrs['shape'].term != v.attrs['shape'].term, o.attrs['dtype'].term != v.attrs['dtype'].term)))
        return z3.Or(*out)

    def raises(self, cx, S, e):
        if e.exc == 'AssertionError':
            return self.mismatch(S)
        return False

    def more_ensures(self, cx, S, result):
        bad = []
        for o in walk(S.target).values():
            if isinstance(o, SObj) and o.clsname == 'Argument':
                for k, v in zip(S.keys, S.values):
                    cd = S.cd.get((id(o.attrs['shape']), id(v.attrs['shape'])))
                    wrong = o.attrs['dtype'].term != v.attrs['dtype'].term
                    if cd is not None:
                        wrong = z3.Or(wrong, cd)
                    bad.append(z3.And(o.attrs['name'].term == k.term, wrong))
        return [('accepted-only-if-dtypes-agree-and-shapes-are-not-certainly-different', z3.Not(z3.Or(*bad)))]

    def replay(self, ob):
        return _script('ev_replace_arguments(%r)' % (self.target,))


class ZeroAllArguments(DagContract):
    fn = 'evaluable:zero_all_arguments'

    def setup(self, cx):
        S = self.common_setup(cx)
        S.zeros = {}

        def zeros_like(ctx, a):
            z = SObj('Zeros', attrs=dict(like=a), classes=('Array',))
            S.zeros.setdefault(id(a), []).append(z)
            return z
        S.globals.update({'Argument': ClassRef('Argument'), 'zeros_like': zeros_like,
                          'zeros': lambda ctx, sh, dt=None: SObj('Zeros', attrs=dict(like=None, shape=sh, dtype=dt), classes=('Array',))})
        return S

    def body(self, cx, S, call):
        def func(ctx, value):
            S.W.func_calls.append(value)
            return call('evaluable:zero_all_arguments', value)
        wrapper = call('_util:shallow_replace', func)
        return cx.interp.call(wrapper, [S.target], {})

    def leaf_cases(self, S, a):
        return [(z3.BoolVal(True), lambda r: isinstance(r, SObj) and r.clsname == 'Zeros' and r.attrs['like'] is a)]

    def replay(self, ob):
        return _script('zero_all_arguments(%r)' % (self.target,))


TARGETS = ('T1', 'T2', 'T3', 'T4', 'T5')


def contracts():
    cs = []
    for t in TARGETS:
        cs.append(ShallowReplace(t))
    for t in TARGETS:
        cs.append(EvReplaceArguments(t))
    for t in ('T2', 'T3', 'T5'):
        cs.append(ZeroAllArguments(t))
    return cs
