"""C11: the element access `get` of the compressed containers of elementseq / pointsseq -- UNBOUNDED (symbolic lengths, counts, indices), real bodies
of `_Uniform.get`, `_Take.get`, `_Repeat.get`, `_Product.get` and of the `__len__` they call, numeric.normdim in line.

  _Uniform.get(i)   is the item for -n <= i < n, IndexError otherwise
  _Take.get(i)      is parent.get(indices[i])                                  (0 <= i < len(indices); indices within the parent: checked by the constructor)
  _Repeat.get(i)    is parent.get(r)        for i = k*len(parent) + r, 0 <= r < len(parent), 0 <= k < count   (also for i - len(self))
  _Product.get(i)   is sequence1.get(i1).product(sequence2.get(i2))   for i = i1*len(sequence2) + i2, digits in range     (also for i - len(self))

Parents are abstract sequences: get(k) is an uninterpreted item for 0 <= k < len and raises IndexError otherwise (so an out-of-range access by the
body under contract is a failing no-raise obligation); item.product is an uninterpreted binary function.
"""
import z3
from pyvc.contract import Contract, State
from pyvc.values import SInt, SObj, Sym, SBool, Unsupported, PyRaise, zint
from pyvc.nparr import Vec, qforall
from contracts.C13 import InlineFn
from contracts.c11_struct import NumericModel, divmod_model

PROP = 'C11'
ITEMS = z3.DeclareSort('SeqItem')
PROD = z3.Function('item.product', ITEMS, ITEMS, ITEMS)


class Item(Sym):
    def __init__(self, term):
        self.term = term

    def getattr(self, ctx, name):
        if name == 'product':
            def product(ctx, other):
                if not isinstance(other, Item):
                    raise Unsupported('product with %r' % (other,))
                return Item(PROD(self.term, other.term))
            return product
        if name == '__mul__':
            return self.getattr(ctx, 'product')
        raise Unsupported('item.' + name)

    def binop(self, ctx, op, other, reflected):
        if op == '*' and isinstance(other, Item):
            return Item(PROD(other.term, self.term) if reflected else PROD(self.term, other.term))
        return NotImplemented

    def compare(self, ctx, op, other, reflected):
        if op in ('==', '!=') and isinstance(other, Item):
            e = self.term == other.term
            return SBool(e if op == '==' else z3.Not(e))
        return NotImplemented

    def truth(self, ctx):
        return True


class AbstractSeq(SObj):
    def __init__(self, cx, name, minlen=0):
        super().__init__('Sequence', attrs=dict(ndims=SInt(cx.int(name + '.ndims'))))
        self.n = cx.int('len(%s)' % name)
        cx.assume(self.n >= minlen)
        self.item = z3.Function(name + '.item', z3.IntSort(), ITEMS)
        self.methods['get'] = self._get

    def length(self, ctx):
        return SInt(self.n)

    def _get(self, ctx, s, idx):
        k = zint(idx)
        if not ctx.branch(z3.And(0 <= k, k < self.n)):
            raise PyRaise('IndexError', note='parent.get out of range (or negative: not normalised)')
        return Item(self.item(k))


class GetContract(Contract):
    prop = PROP

    def __init__(self, mod, negative=False):
        self.mod = mod
        self.fn = '%s:%s.get' % (mod, self.cls)
        self.negative = negative
        self.label = 'item-formula' + (',negative-index' if negative else '')

    def globals_(self):
        return {'numeric': NumericModel(), 'divmod': divmod_model}

    def lenfn(self, o):
        return lambda ctx: InlineFn('%s:%s.__len__' % (self.mod, self.cls))(ctx, o)

    def replay(self, ob):
        import os
        here = os.path.dirname(os.path.dirname(os.path.abspath(__file__)))
        return "import sys; sys.path.insert(0, %r)\nfrom native import c11b\nc11b.containers(%r, %r)\n" % (here, self.mod, self.cls)


class UniformGet(GetContract):
    cls = '_Uniform'

    def __init__(self, mod):
        super().__init__(mod)
        self.label = 'item-or-IndexError'

    def setup(self, cx):
        n, i = cx.int('length'), cx.int('index')
        cx.assume(n >= 1)
        item = Item(cx.const('item', ITEMS))
        o = SObj('_Uniform', attrs=dict(item=item, length=SInt(n)))
        o.length = self.lenfn(o)
        S = State(args=(o, SInt(i)), n=n, i=i, item=item)
        S.globals = self.globals_()
        return S

    def raises(self, cx, S, e):
        return z3.Not(z3.And(-S.n <= S.i, S.i < S.n)) if e.exc == 'IndexError' else False

    def ensures(self, cx, S, result):
        return [('in-range', z3.And(-S.n <= S.i, S.i < S.n)), ('is-the-item', z3.BoolVal(result is S.item))]


class TakeGet(GetContract):
    cls = '_Take'

    def setup(self, cx):
        p = AbstractSeq(cx, 'parent')
        idx = Vec.fresh(cx, 'indices', 'int')
        cx.assume(qforall(1, lambda j: z3.Implies(z3.And(0 <= j, j < idx.n), z3.And(0 <= idx.sel(j), idx.sel(j) < p.n))))  # _check_take in the constructor
        i = cx.int('index')
        cx.assume(z3.And(0 <= i, i < idx.n))
        o = SObj('_Take', attrs=dict(parent=p, indices=idx))
        S = State(args=(o, SInt(i)), p=p, idx=idx, i=i)
        S.globals = self.globals_()
        return S

    def ensures(self, cx, S, result):
        return [('is-parent-item-indices[i]', result.term == S.p.item(S.idx.sel(S.i)))]


class RepeatGet(GetContract):
    cls = '_Repeat'

    def setup(self, cx):
        p = AbstractSeq(cx, 'parent')
        c, k, r = cx.int('count'), cx.int('k'), cx.int('r')
        cx.assume(z3.And(c >= 1, 0 <= k, k < c, 0 <= r, r < p.n))
        i = k * p.n + r
        cx.assume(z3.And(0 <= i, i < p.n * c), axiom='L-RADIX: k*n + r with 0 <= r < n, 0 <= k < c lies in range(n*c), and every index in that range has such digits')
        cx.ghost['radix'] = [(k, r)]
        o = SObj('_Repeat', attrs=dict(parent=p, count=SInt(c)))
        o.length = self.lenfn(o)
        S = State(args=(o, SInt(i - p.n * c if self.negative else i)), p=p, r=r)
        S.globals = self.globals_()
        return S

    def ensures(self, cx, S, result):
        return [('is-parent-item-r', result.term == S.p.item(S.r))]


class ProductGet(GetContract):
    cls = '_Product'

    def setup(self, cx):
        a, b = AbstractSeq(cx, 'sequence1'), AbstractSeq(cx, 'sequence2')
        i1, i2 = cx.int('index1'), cx.int('index2')
        cx.assume(z3.And(0 <= i1, i1 < a.n, 0 <= i2, i2 < b.n))
        i = i1 * b.n + i2
        cx.assume(z3.And(0 <= i, i < a.n * b.n), axiom='L-RADIX: i1*n2 + i2 with digits in range lies in range(n1*n2), and every index in that range has such digits')
        cx.ghost['radix'] = [(i1, i2)]
        o = SObj('_Product', attrs=dict(sequence1=a, sequence2=b))
        o.length = self.lenfn(o)
        S = State(args=(o, SInt(i - a.n * b.n if self.negative else i)), a=a, b=b, i1=i1, i2=i2)
        S.globals = self.globals_()
        return S

    def ensures(self, cx, S, result):
        return [('is-product-of-the-row-major-digits', result.term == PROD(S.a.item(S.i1), S.b.item(S.i2)))]


def contracts():
    cs = []
    for mod in ('elementseq', 'pointsseq'):
        cs += [UniformGet(mod), TakeGet(mod), RepeatGet(mod), RepeatGet(mod, True), ProductGet(mod), ProductGet(mod, True)]
    return cs
