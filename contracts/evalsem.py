"""Denotations of the evaluable constructors the basis classes use in `f_dofs_coeffs` (external axioms, DESIGN 2.5).

`f_dofs_coeffs(index)` builds an evaluable expression; `Basis.get_dofs(e)` / `get_coefficients(e)` are that expression compiled
and evaluated at `_index = e`.  Here every constructor returns the VALUE its node evaluates to (for one symbolic index), so
running the real body of `f_dofs_coeffs` yields the dofs / coefficient rows of one symbolic element:

  constant(x)                  x
  Elemwise(table, i, dtype)    table[i]                                   (needs 0 <= i < len(table))
  Range(n)                     arange(n)
  get(a, 0, i), Take(a, i)     a[i]  for a scalar i                         (needs 0 <= i < len(a))
  Take(a, v), take(a, v, 0)    a[v]  (rows of a for a coefficient table)   (needs 0 <= v[k] < len(a))
  take(a, mask, 0)             a[Find(mask)]
  Less(a, b)                   a < b elementwise
  InsertAxis(s, n)             the scalar s repeated n times
  Find(mask)                   mask.nonzero()[0]
  divmod(a, n)                 (a // n, a % n)   floor semantics (numpy == Python for ints)
  a + b, a * b, a % n          elementwise, scalars broadcast
  RavelIndex(ia, ib, na, nb)   ia[:, None] * nb + ib[None, :]
  Ravel(x)                     row-major flattening of the last two axes
  insertaxis / PolyMul / ravel on coefficient tables: only WHICH factor rows are combined is tracked (row identities).

Integer vectors carry a MULTI-INDEX representation (dims, sel(p0, .., pr)); a flat position is the row-major rank of its
multi-index (definition of Ravel), so no div/mod by symbolic lengths is needed.  Coefficient tables are (dims, row identity).
The native cross-check of these meanings against real evaluable nodes is native/axioms.py:evaluable_nodes().
"""
import z3
from pyvc.values import Sym, SInt, SBool, Unsupported, PyRaise, zint, is_intlike, pyfloordiv, pymod
from pyvc.nparr import Vec, qforall, I
from pyvc import npsets


def _z(x):
    if isinstance(x, ES):
        return x.v
    if is_intlike(x):
        return zint(x)
    raise Unsupported('integer scalar expected, got %r' % (x,))


def _isscalar(x):
    return isinstance(x, ES) or is_intlike(x)


class ES(Sym):
    """integer scalar node"""
    ndim = 0

    def __init__(self, v, group=None):
        self.v = v if z3.is_expr(v) else z3.IntVal(v)
        self.group = group  # for lengths: the primitive dims whose product this is

    def getattr(self, ctx, name):
        if name == 'shape':
            return ()
        if name == 'ndim':
            return 0
        raise Unsupported('scalar node .%s' % name)

    def binop(self, ctx, op, other, reflected):
        if isinstance(other, EV):
            return other.binop(ctx, op, self, not reflected)
        if not _isscalar(other):
            return NotImplemented
        a, b = (_z(other), self.v) if reflected else (self.v, _z(other))
        if op == '+':
            return ES(a + b)
        if op == '-':
            return ES(a - b)
        if op == '*':
            return ES(a * b)
        if op in ('//', '%'):
            ctx.oblige('evaluable:nonzero-divisor', b != 0, kind='safety')
            return ES(pyfloordiv(a, b) if op == '//' else pymod(a, b))
        return NotImplemented


class EV(Sym):
    """integer / bool array node with multi-index representation: dims = [n0, .., nr], sel(p0, .., pr)"""

    def __init__(self, kind, dims, sel, name='ev'):
        self.kind, self.dims, self._sel, self.name = kind, [d if z3.is_expr(d) else z3.IntVal(d) for d in dims], sel, name

    @staticmethod
    def of_vec(v):
        return EV(v.kind, [v.n], lambda k: v.sel(k), v.name)

    @property
    def n(self):
        assert len(self.dims) == 1
        return self.dims[0]

    def sel(self, *p):
        return self._sel(*p)

    def length_node(self):
        r = z3.IntVal(1)
        for d in self.dims:
            r = r * d
        return ES(z3.simplify(r), group=list(self.dims))

    def as_vec(self):
        if len(self.dims) != 1:
            raise Unsupported('flat view of a ravelled product')
        return Vec(self.kind, self.dims[0], self._sel, self.name)

    def getattr(self, ctx, name):
        if name == 'shape':
            return (self.length_node(),)
        if name == 'ndim':
            return 1
        raise Unsupported('array node .%s' % name)

    def inrange(self, *p):
        return z3.And(*[z3.And(0 <= x, x < d) for x, d in zip(p, self.dims)])

    def forall(self, pred):
        r = len(self.dims)
        return qforall(r, lambda *p: z3.Implies(self.inrange(*p), pred(p, self.sel(*p))))

    def binop(self, ctx, op, other, reflected):
        if self.kind != 'int':
            return NotImplemented
        if _isscalar(other):
            o = _z(other)
            f = {'+': lambda x, y: x + y, '-': lambda x, y: x - y, '*': lambda x, y: x * y, '%': pymod, '//': pyfloordiv}.get(op)
            if f is None:
                return NotImplemented
            if op in ('%', '//'):
                ctx.oblige('evaluable:nonzero-divisor', o != 0, kind='safety')
            s = self._sel
            g = (lambda *p: f(o, s(*p))) if reflected else (lambda *p: f(s(*p), o))
            return EV('int', self.dims, g, '(%s%s)' % (self.name, op))
        if isinstance(other, EV) and other.kind == 'int' and len(other.dims) == len(self.dims) == 1 and op in ('+', '-', '*'):
            ctx.oblige('evaluable:operands-have-equal-length', self.n == other.n, kind='safety')
            f = {'+': lambda x, y: x + y, '-': lambda x, y: x - y, '*': lambda x, y: x * y}[op]
            a, b = (other, self) if reflected else (self, other)
            return EV('int', self.dims, lambda k: f(a.sel(k), b.sel(k)), '(%s%s%s)' % (a.name, op, b.name))
        return NotImplemented


class EC(Sym):
    """coefficient table node: axes = list of groups of primitive dims (row-major within a group); the LAST polynomial axes are
    not modelled.  rid(*p) for a primitive multi-index p = tuple of (factor tag, element term, row term): which stored
    coefficient rows are multiplied together to give this row."""

    def __init__(self, axes, rid, name='coeffs'):
        self.axes, self.rid, self.name = [list(g) for g in axes], rid, name

    def prim(self):
        return [d for g in self.axes for d in g]

    def getattr(self, ctx, name):
        if name == 'shape':
            out = []
            for g in self.axes:
                r = z3.IntVal(1)
                for d in g:
                    r = r * d
                out.append(ES(z3.simplify(r), group=list(g)))
            return tuple(out) + (Sym(),)
        if name == 'ndim':
            return len(self.axes) + 1
        raise Unsupported('coefficient node .%s' % name)


class ArrTable(Sym):
    """a tuple of `n` 1-D int arrays (types.arraydata): LEN(e), VAL(e, k)"""

    def __init__(self, n, LEN, VAL, name):
        self.n, self.LEN, self.VAL, self.name = n, LEN, VAL, name

    def length(self, ctx):
        return SInt(self.n)


class CoefTable(Sym):
    """a tuple of `n` coefficient arrays; NROWS(e) rows each; rows are identified by (tag, e, k)"""

    def __init__(self, n, NROWS, tag):
        self.n, self.NROWS, self.tag = n, NROWS, tag

    def length(self, ctx):
        return SInt(self.n)


class Evaluable:
    """the `evaluable` module as seen by f_dofs_coeffs"""

    def sym_getattr(self, ctx, name):
        f = getattr(self, 'ev_' + name, None)
        if f is None:
            raise Unsupported('evaluable.%s has no denotation in contracts/evalsem.py' % name)
        return f

    def ev_constant(self, ctx, x):
        if isinstance(x, (ES, EV)):
            return x
        if is_intlike(x):
            return ES(zint(x))
        if isinstance(x, Vec):
            return EV.of_vec(x)
        raise Unsupported('evaluable.constant(%r)' % (x,))

    ev_asarray = ev_constant

    def ev_Elemwise(self, ctx, data, index, dtype=None):
        i = _z(index)
        if isinstance(data, ArrTable):
            ctx.oblige('evaluable:Elemwise-index-in-range', z3.And(0 <= i, i < data.n), kind='safety')
            return EV('int', [data.LEN(i)], lambda k: data.VAL(i, k), '%s[%s]' % (data.name, i))
        if isinstance(data, CoefTable):
            ctx.oblige('evaluable:Elemwise-index-in-range', z3.And(0 <= i, i < data.n), kind='safety')
            tag = data.tag
            return EC([[data.NROWS(i)]], lambda k: ((tag, i, k),), '%s[%s]' % (tag, i))
        raise Unsupported('Elemwise of %r' % (data,))

    def ev_Range(self, ctx, n):
        return EV('int', [_z(n)], lambda k: k, 'range')

    def _item(self, ctx, a, i, what):
        if not (isinstance(a, EV) and len(a.dims) == 1):
            raise Unsupported('%s of %r' % (what, a))
        i = _z(i)
        ctx.oblige('evaluable:%s-index-in-range' % what, z3.And(0 <= i, i < a.n), kind='safety')
        e = a.sel(i)
        return ES(e) if a.kind == 'int' else SBool(e)

    def ev_get(self, ctx, a, axis, i):
        if axis != 0:
            raise Unsupported('get along axis %r' % (axis,))
        return self._item(ctx, a, i, 'get')

    def ev_Take(self, ctx, a, idx):
        if _isscalar(idx):
            return self._item(ctx, a, idx, 'Take')
        return self.ev_take(ctx, a, idx, 0)

    def ev_take(self, ctx, a, idx, axis):
        if axis != 0 or not isinstance(idx, EV) or len(idx.dims) != 1:
            raise Unsupported('take(%r, %r, axis=%r)' % (a, idx, axis))
        if idx.kind == 'bool':
            n = a.n if isinstance(a, EV) else None
            if isinstance(a, EC):
                if len(a.axes) != 1 or len(a.axes[0]) != 1:
                    raise Unsupported('mask on a product table')
                n = a.axes[0][0]
            ctx.oblige('evaluable:take-mask-has-the-length-of-the-axis', idx.n == n, kind='safety')
            idx = self.ev_Find(ctx, idx)
        if isinstance(a, EV) and len(a.dims) == 1:
            ctx.oblige('evaluable:take-indices-in-range', idx.forall(lambda p, x: z3.And(0 <= x, x < a.n)), kind='safety')
            return EV(a.kind, [idx.n], lambda k: a.sel(idx.sel(k)), '%s[%s]' % (a.name, idx.name))
        if isinstance(a, EC) and len(a.axes) == 1 and len(a.axes[0]) == 1:
            ctx.oblige('evaluable:take-indices-in-range', idx.forall(lambda p, x: z3.And(0 <= x, x < a.axes[0][0])), kind='safety')
            return EC([[idx.n]], lambda k: a.rid(idx.sel(k)), '%s[%s]' % (a.name, idx.name))
        raise Unsupported('take of %r' % (a,))

    def ev_Less(self, ctx, a, b):
        if isinstance(a, EV) and isinstance(b, EV) and len(a.dims) == len(b.dims) == 1:
            ctx.oblige('evaluable:operands-have-equal-length', a.n == b.n, kind='safety')
            return EV('bool', a.dims, lambda k: a.sel(k) < b.sel(k), 'less')
        raise Unsupported('Less(%r, %r)' % (a, b))

    def ev_InsertAxis(self, ctx, s, n):
        v = _z(s)
        return EV('int', [_z(n)], lambda k: v, 'insertaxis')

    def ev_Find(self, ctx, m):
        if not (isinstance(m, EV) and m.kind == 'bool' and len(m.dims) == 1):
            raise Unsupported('Find(%r)' % (m,))
        return EV.of_vec(npsets.np_nonzero(ctx, m.as_vec()))

    def ev_divmod(self, ctx, a, n):
        a, n = _z(a), _z(n)
        ctx.oblige('evaluable:nonzero-divisor', n != 0, kind='safety')
        return ES(pyfloordiv(a, n)), ES(pymod(a, n))

    def ev_RavelIndex(self, ctx, ia, ib, na, nb):
        if not (isinstance(ia, EV) and isinstance(ib, EV) and ia.kind == ib.kind == 'int' and len(ib.dims) == 1):
            raise Unsupported('RavelIndex(%r, %r)' % (ia, ib))
        nbv = _z(nb)
        r = len(ia.dims)
        return ('RAVELINDEX', EV('int', ia.dims + ib.dims, lambda *p: ia.sel(*p[:r]) * nbv + ib.sel(p[r]), 'ravelindex'))

    def ev_Ravel(self, ctx, x):
        if isinstance(x, tuple) and x and x[0] == 'RAVELINDEX':
            return x[1]  # the multi-index representation IS the row-major flattening
        raise Unsupported('Ravel(%r)' % (x,))

    # coefficient tables: which rows are combined
    def ev_insertaxis(self, ctx, c, axis, length):
        if not (isinstance(c, EC) and isinstance(length, ES) and length.group is not None and axis in (0, 1) and len(c.axes) == 1):
            raise Unsupported('insertaxis(%r, %r, %r)' % (c, axis, length))
        g = list(length.group)
        k, m = len(c.axes[0]), len(g)
        if axis == 1:
            return EC([c.axes[0], g], lambda *p: c.rid(*p[:k]), c.name)
        return EC([g, c.axes[0]], lambda *p: c.rid(*p[m:]), c.name)

    def ev_PolyMul(self, ctx, a, b, variables):
        if not (isinstance(a, EC) and isinstance(b, EC) and len(a.axes) == len(b.axes)):
            raise Unsupported('PolyMul(%r, %r)' % (a, b))
        pa, pb = a.prim(), b.prim()
        if len(pa) != len(pb) or [len(g) for g in a.axes] != [len(g) for g in b.axes]:
            raise Unsupported('PolyMul of differently grouped tables')
        ctx.oblige('evaluable:PolyMul-operands-have-equal-shape', z3.And(*[x == y for x, y in zip(pa, pb)]), kind='safety')
        return EC(a.axes, lambda *p: a.rid(*p) + b.rid(*p), 'polymul')

    def ev_ravel(self, ctx, c, axis):
        if not (isinstance(c, EC) and axis == 0 and len(c.axes) >= 2):
            raise Unsupported('ravel(%r, %r)' % (c, axis))
        return EC([c.axes[0] + c.axes[1]] + c.axes[2:], c.rid, c.name)


class Poly:
    class _MulVar:
        def sym_getattr(self, ctx, name):
            return name

    def sym_getattr(self, ctx, name):
        if name == 'MulVar':
            return Poly._MulVar()
        raise Unsupported('poly.' + name)
