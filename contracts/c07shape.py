"""C07 shape calculus -- the announced shape of broadcast / reshape / concatenate / stack / transpose / take / insertaxis
... equals the shape NumPy's documented rule gives, and operand combinations NumPy rejects are rejected at build time.

How these contracts are built (read this before trusting them):

* Every function of the kernel is executed from its REAL body in /repo (re-extracted on every run), INCLUDING the nutils
  functions it calls: `broadcast_to` runs the real `_prepend_axes`, `_append_axes`, `_Transpose._end`,
  `_Transpose.__init__`, `Array.__init__`, `repeat`, `insertaxis`, `get`, `take`, `_Wrapper.broadcasted_arrays`,
  `broadcast_arrays`, `typecast_arrays`, `broadcast_shapes`, `numeric.normdim` ... in line (listed per contract as
  `also_executed` in the evidence).  Nothing is summarised by a hand-written contract of a nutils function.
* What IS a model (trusted, listed in TRUSTED): a function array is known by (shape, dtype) only (`FArr`);
  `_Wrapper(lower, *args, shape=, dtype=)` announces exactly the shape/dtype it is given; `Array.cast` is the identity
  on arrays and makes a 0-d constant of a Python number; NEP-18 dispatch `numpy.X(array, ...)` reaches
  `__implementations__.X`; `array + array` reaches `_Wrapper.broadcasted_arrays(evaluable.add, ...)`.
* Ranks, numbers of operands and axis arguments are CONCRETE per contract instance (they are Python-level structure:
  tuple lengths, loop trip counts); all axis LENGTHS, requested lengths and index values are symbolic integers.
  Every contract here is therefore `bounded` (label says which structure) and is never counted as proved.
* The postcondition is NumPy's rule written independently as a spec function (np_* below); on replay the witness is
  run through real numpy (numpy.broadcast_shapes, numpy.empty(shape).reshape, numpy.concatenate, ...).
"""
import itertools, json, os
import z3
from pyvc.contract import Contract, State
from pyvc.values import Sym, SInt, SBool, SObj, SOpaque, Unsupported, PyRaise, zint, zbool, is_intlike
from pyvc.ops import ClassRef, Builtin
from pyvc import ops, extract
from pyvc.nparr import Vec
from pyvc.pybuiltins import BuiltinsModule, FunctoolsModule, OperatorModule, set_builtin, iter_builtin, divmod_char, divmod_builtin

PROP = 'C07'
HERE = os.path.dirname(os.path.dirname(os.path.abspath(__file__)))

BOOL, INT, FLOAT, COMPLEX = (Builtin(n) for n in ('bool', 'int', 'float', 'complex'))
DTYPES = (BOOL, INT, FLOAT, COMPLEX)


def zl(x):
    """axis length as a z3 term"""
    if isinstance(x, SInt):
        return x.v
    if isinstance(x, bool):
        raise Unsupported('bool as axis length')
    if isinstance(x, int):
        return z3.IntVal(x)
    if z3.is_expr(x):
        return x
    raise Unsupported('axis length %r' % (x,))


def norm_len(x):
    if isinstance(x, SInt):
        s = z3.simplify(x.v)
        return s.as_long() if z3.is_int_value(s) else x.v
    if isinstance(x, bool):
        raise Unsupported('bool as axis length')
    if isinstance(x, int):
        return x
    if z3.is_expr(x):
        return x
    raise Unsupported('axis length %r (array-valued lengths are outside this kernel)' % (x,))


class LInt(SInt):
    """An axis length: a Python int whose // and % are stated in characteristic form (exact, see divmod_char)."""

    def binop(self, ctx, op, other, reflected):
        if op in ('//', '%') and is_intlike(other):
            a, b = (other, self) if reflected else (self, other)
            if not ctx.branch(zint(b) != 0):
                raise PyRaise('ZeroDivisionError')
            q, r = divmod_char(ctx, a, b)
            return LInt(q if op == '//' else r)
        return SInt.binop(self, ctx, op, other, reflected)


# ------------------------------------------------------------------------------------------------ array model --

class FArr(Sym):
    """A nutils function Array known by (shape, dtype) only."""

    def __init__(self, world, lens, dtype, op=None):
        self.w = world
        self.lens = [norm_len(x) for x in lens]
        self.dtype = dtype
        self.op = op  # how it was made (evaluable class name, args) -- for the few clauses that look at it

    def shape(self):
        return tuple(x if isinstance(x, int) else LInt(x) for x in self.lens)

    def getattr(self, ctx, name):
        if name == 'shape':
            return self.shape()
        if name == 'ndim':
            return len(self.lens)
        if name == 'dtype':
            return self.dtype
        if name == 'size':
            r = 1
            for x in self.shape():
                r = ops.binop(ctx, '*', r, x)
            return r
        if name == 'spaces':
            return frozenset()
        if name == 'arguments':
            return {}
        if name == 'astype':
            return lambda ctx, dt: self.w.call('function:Array.astype', self, dt)
        if name == 'lower':
            return SOpaque('lower')
        raise Unsupported('Array.%s is not part of the shape model' % name)

    def isinstance_(self, ctx, types):
        return any(getattr(t, '__name__', None) == 'Array' for t in types)

    def truth(self, ctx):
        raise PyRaise('ValueError', note='The truth value of a nutils Array is ambiguous')

    def binop(self, ctx, op, other, reflected):
        if op == '+':
            a, b = (other, self) if reflected else (self, other)
            return self.w.add(a, b)
        return NotImplemented

    def compare(self, ctx, op, other, reflected):
        raise Unsupported('comparison of function arrays (elementwise in nutils) is outside the shape model')

    def __repr__(self):
        return 'FArr(%s)' % (self.lens,)


class IVec(Vec):
    """A constant 1-D integer index array (numpy.ndarray) of symbolic length and entries."""

    def isinstance_(self, ctx, types):
        return any(getattr(t, '__name__', None) == 'ndarray' for t in types)

    def sym_isetitem(self, ctx, idx, op, rhs):
        # a[mask] += c : exact numpy meaning, entries under the mask are incremented, the others kept
        if op == '+' and isinstance(idx, Vec) and idx.kind == 'bool' and is_intlike(rhs):
            if not ctx.branch(idx.n == self.n):
                raise PyRaise('IndexError', note='boolean index did not match')
            old, c, m, me = self._sel, zint(rhs), idx, self
            ctx.used_axioms.add('numpy: a[mask] += c increments exactly the entries under the boolean mask')

            def newsel(j):
                # the mask was computed from the OLD contents (Vec masks read their source lazily): evaluate it there
                cur = me._sel
                me._sel = old
                try:
                    mj = m.sel(j)
                finally:
                    me._sel = cur
                return z3.If(mj, old(j) + c, old(j))
            self._write(newsel)
            return None
        return NotImplemented

    def copy(self):
        me = self
        sel = self._sel if self.base is None else self.sel
        return IVec(self.kind, self.n, sel, self.name + '.copy')


class IVec2(IVec):
    """A constant 2-D integer index array of symbolic shape (m1, m2): the flattened entries are the Vec, `.shape`/`.ndim` say 2-D.
    Elementwise comparisons and `a[mask] += c` act on the flattened entries (numpy semantics for same-shape operands)."""
    shape2 = None

    def getattr(self, ctx, name):
        if name == 'ndim':
            return 2
        if name == 'shape':
            return (SInt(self.shape2[0]), SInt(self.shape2[1]))
        return super().getattr(ctx, name)

    def copy(self):
        sel = self._sel if self.base is None else self.sel
        c = IVec2(self.kind, self.n, sel, self.name + '.copy')
        c.shape2 = self.shape2
        return c


def source_dtypes():
    """the module-level tuple `_dtypes = bool, int, float, complex` as written in the CURRENT function.py"""
    import ast
    _, tree = extract.module_ast('function')
    for n in tree.body:
        if isinstance(n, ast.Assign) and any(isinstance(t, ast.Name) and t.id == '_dtypes' for t in n.targets):
            if isinstance(n.value, ast.Tuple) and all(isinstance(e, ast.Name) and e.id in ('bool', 'int', 'float', 'complex') for e in n.value.elts):
                return tuple(Builtin(e.id) for e in n.value.elts)
            raise Unsupported('_dtypes is not a tuple of the four builtin kinds')
    raise Unsupported('function._dtypes not found')


# ------------------------------------------------------------------------------------- models of the environment --

class World:
    """Globals of function.py for one path: real bodies in line, leaf classes modelled."""

    REAL = ('_append_axes', '_prepend_axes', 'insertaxis', 'expand_dims', 'unravel', 'get', 'broadcast_arrays',
            'typecast_arrays', 'broadcast_shapes', 'kronecker', 'scatter', '_takeslice')
    IMPL = ('take', 'reshape', 'ravel', 'transpose', 'swapaxes', 'repeat', 'concatenate', 'stack', 'broadcast_to', 'compress')

    def __init__(self):
        self._call = None
        self.constants = []  # index arrays handed to _Constant

    def call(self, ref, *a, **k):
        if self._call is None:
            raise Unsupported('world used outside a harness body')
        return self._call(ref, *a, **k)

    def real(self, ref):
        return lambda ctx, *a, **k: self.call(ref, *a, **k)

    def add(self, a, b):
        # Array.__add__ -> numpy.add -> __implementations__.add: _Wrapper.broadcasted_arrays(evaluable.add, left, right)
        return self.call('function:_Wrapper.broadcasted_arrays', self.wrapper, ClassRef('add'), a, b)

    # ---- leaf models
    def cast(self, ctx, value, dtype=None, ndim=None):
        if isinstance(value, FArr):
            v = value
        elif isinstance(value, (bool, SBool)):
            v = FArr(self, [], BOOL)
        elif is_intlike(value):
            v = FArr(self, [], INT, op=('const', value))
        elif isinstance(value, float):
            v = FArr(self, [], FLOAT)
        elif isinstance(value, IVec):
            v = self.constant(ctx, value)
        else:
            raise Unsupported('Array.cast of %r' % (value,))
        if dtype is not None and DTYPES.index(v.dtype) > DTYPES.index(dtype):
            raise PyRaise('ValueError', note='cast: dtype')
        if ndim is not None and len(v.lens) != ndim:
            raise PyRaise('ValueError', note='cast: ndim')
        return v

    def constant(self, ctx, value):
        if isinstance(value, IVec2):
            self.constants.append(value)
            return FArr(self, list(value.shape2), INT if value.kind == 'int' else BOOL, op=('const', value))
        if isinstance(value, IVec):
            self.constants.append(value)
            return FArr(self, [value.n], INT if value.kind == 'int' else BOOL, op=('const', value))
        if is_intlike(value):
            return FArr(self, [], INT, op=('const', value))
        raise Unsupported('_Constant(%r)' % (value,))

    def globals(self):
        w = self

        class ArrayClass:
            __name__ = 'Array'

            def sym_getattr(s, ctx, name):
                if name == 'cast':
                    return w.cast
                raise Unsupported('Array.%s' % name)

        class WrapperClass:
            __name__ = '_Wrapper'

            def __call__(s, ctx, lower, *args, shape=None, dtype=None):
                if shape is None or dtype is None:
                    raise PyRaise('TypeError', note='_Wrapper: shape and dtype are keyword-only and required')
                return FArr(w, list(ops.iterate(ctx, shape)), dtype, op=(getattr(lower, '__name__', repr(lower)), args))

            def sym_getattr(s, ctx, name):
                if name == 'broadcasted_arrays':
                    return lambda ctx, *a, **k: w.call('function:_Wrapper.broadcasted_arrays', s, *a, **k)
                raise Unsupported('_Wrapper.%s' % name)

        def via_array_init(clsname, ref):
            """cls(...) : run the real __init__ (and the real Array.__init__ behind super().__init__) on a record."""
            def construct(ctx, *a, **k):
                def base_init(ctx, selfobj, *aa, **kk):
                    w.call('function:Array.__init__', selfobj, *aa, **kk)
                obj = SObj(clsname, methods={'super().__init__': base_init}, classes=(clsname, 'Array'))
                w.call(ref, obj, *a, **k)
                if 'shape' not in obj.attrs or 'dtype' not in obj.attrs:
                    raise Unsupported('%s.__init__ did not reach Array.__init__' % clsname)
                return FArr(w, list(obj.attrs['shape']), obj.attrs['dtype'], op=(clsname, obj))
            return construct

        class TransposeClass:
            __name__ = '_Transpose'
            construct = staticmethod(via_array_init('_Transpose', 'function:_Transpose.__init__'))

            def __call__(s, ctx, *a, **k):
                return s.construct(ctx, *a, **k)

            def sym_getattr(s, ctx, name):
                if name in ('from_end', 'to_end', '_end'):
                    return lambda ctx, *a, **k: w.call('function:_Transpose.' + name, s, *a, **k)
                raise Unsupported('_Transpose.%s' % name)

        class ConcatenateClass:
            __name__ = '_Concatenate'
            construct = staticmethod(via_array_init('_Concatenate', 'function:_Concatenate.__init__'))

            def __call__(s, ctx, *a, **k):
                return s.construct(ctx, *a, **k)

        class Ev:
            def sym_getattr(s, ctx, name):
                return ClassRef(name)

        class Numbers:
            def sym_getattr(s, ctx, name):
                if name == 'Integral':
                    return Builtin('int')
                raise Unsupported('numbers.' + name)

        class Numeric:
            def sym_getattr(s, ctx, name):
                if name == 'normdim':
                    return w.real('numeric:normdim')
                raise Unsupported('numeric.' + name)

        class Types:
            def sym_getattr(s, ctx, name):
                if name == 'frozendict':
                    return lambda ctx, d: d
                raise Unsupported('types.' + name)

        def util_fold(op):
            def f(ctx, it, *init):
                xs = ops.iterate(ctx, it)
                if init:
                    xs = [init[0]] + xs
                if not xs:
                    raise PyRaise('TypeError', note='reduce() of empty iterable with no initial value')
                acc = xs[0]
                for x in xs[1:]:
                    acc = ops.binop(ctx, op, acc, x)
                return acc
            return f

        class Util:
            def sym_getattr(s, ctx, name):
                if name == 'sum':
                    return util_fold('+')
                if name == 'product':
                    return util_fold('*')
                if name == 'deep_reduce':
                    def deep_reduce(ctx, f, a):
                        if isinstance(a, (FArr, IVec)) or is_intlike(a):
                            return a
                        raise Unsupported('deep_reduce of %r' % (a,))
                    return deep_reduce
                raise Unsupported('util.' + name)

        class NumpyModule:
            """numpy as seen from function.py: calls on function arrays dispatch (NEP 18) to __implementations__."""
            newaxis = None

            def sym_getattr(s, ctx, name):
                if name in World.IMPL:
                    return w.real('function:__implementations__.' + name)
                if name == 'newaxis':
                    return None
                if name == 'stack':
                    return SOpaque('numpy.stack')
                if name == 'prod':
                    def prod(ctx, xs, initial=1):
                        r = initial
                        for x in ops.iterate(ctx, xs):
                            r = ops.binop(ctx, '*', r, x)
                        return r
                    return prod
                if name == 'argsort':
                    def argsort(ctx, xs):
                        xs = list(ops.iterate(ctx, xs))
                        if any(not isinstance(x, int) or isinstance(x, bool) for x in xs):
                            raise Unsupported('numpy.argsort of symbolic items')
                        return sorted(range(len(xs)), key=xs.__getitem__)
                    return argsort
                if name == 'array':
                    def array(ctx, x):
                        if isinstance(x, IVec):
                            return x.copy()
                        raise Unsupported('numpy.array(%r)' % (x,))
                    return array
                if name == 'ndim':
                    def ndim(ctx, x):
                        if is_intlike(x):
                            return 0
                        if isinstance(x, FArr):
                            return len(x.lens)
                        if isinstance(x, IVec2):
                            return 2
                        if isinstance(x, IVec):
                            return 1
                        raise Unsupported('numpy.ndim(%r)' % (x,))
                    return ndim
                if name == 'nonzero':
                    raise Unsupported('numpy.nonzero')
                raise Unsupported('numpy.%s is not modelled' % name)

        self.wrapper = WrapperClass()
        g = {
            'Array': ArrayClass(), '_Wrapper': self.wrapper, '_Transpose': TransposeClass(), '_Concatenate': ConcatenateClass(),
            '_Constant': self.constant, '_WithoutPoints': lambda ctx, x: x,
            'evaluable': Ev(), 'numbers': Numbers(), 'numeric': Numeric(), 'types': Types(), 'util': Util(), 'numpy': NumpyModule(),
            'builtins': BuiltinsModule({'set': set_builtin, 'iter': iter_builtin, 'divmod': divmod_builtin}), 'functools': FunctoolsModule(), 'operator': OperatorModule(),
            'set': set_builtin, 'iter': iter_builtin,
            '_dtypes': source_dtypes(), '_join_arguments': lambda ctx, it: (ops.iterate(ctx, it), {})[1],
            'isint': lambda ctx, x: is_intlike(x),
        }
        for n in World.REAL:
            g[n] = self.real('function:' + n)
        return g


# ---------------------------------------------------------------------------------------- NumPy's rules (specs) --

def np_broadcast(shapes):
    """numpy.broadcast_shapes: (defined: z3 Bool, result: list of z3 Int) for lists of z3 lengths."""
    n = max([len(s) for s in shapes] or [0])
    al = [[z3.IntVal(1)] * (n - len(s)) + list(s) for s in shapes]
    ok, out = [], []
    for p in range(n):
        col = [a[p] for a in al]
        for i in range(len(col)):
            for j in range(i + 1, len(col)):
                ok.append(z3.Or(col[i] == col[j], col[i] == 1, col[j] == 1))
        r = z3.IntVal(1)
        for c in reversed(col):
            r = z3.If(c != 1, c, r)
        out.append(r)
    return (z3.And(*ok) if ok else z3.BoolVal(True)), out


def np_broadcast_to(lens, want):
    """numpy.broadcast_to(empty(lens), want).shape == want, defined iff ..."""
    if len(lens) > len(want):
        return z3.BoolVal(False), None
    k = len(want) - len(lens)
    ok = [z3.Or(a == d, a == 1) for a, d in zip(lens, want[k:])]
    return (z3.And(*ok) if ok else z3.BoolVal(True)), list(want)


def np_axis(ndim, axis):
    """normalize_axis_index: None when out of range"""
    return axis % ndim if -ndim <= axis < ndim else None


def eqshape(got, want):
    if len(got) != len(want):
        return z3.BoolVal(False)
    return z3.And(*[zl(g) == zl(w) for g, w in zip(got, want)]) if want else z3.BoolVal(True)


# --------------------------------------------------------------------------------------------------- base class --

class ShapeContract(Contract):
    prop = PROP
    unroll_while = 12
    decide_trivial = True
    max_paths = 3000
    native_recipe = None  # (function in native/c07shape.py, json-able static config)

    def fresh_lens(self, cx, name, n, lo=0):
        out = []
        for i in range(n):
            v = cx.int('%s%d' % (name, i))
            cx.assume(v >= lo)
            out.append(v)
        return out

    def world(self):
        w = World()
        return w, w.globals()

    def body(self, cx, S, call):
        S.world._call = call
        return self.run(cx, S, call)

    def run(self, cx, S, call):
        return call(self.fn, *S.args, **S.kwargs)

    # exceptions: by default nothing may escape
    def raises(self, cx, S, e):
        return False

    _replayed = {}

    def replay(self, ob):
        if not self.native_recipe:
            return None
        # one native replay per contract instance and at most 30 per run: an edit that breaks a shared helper refutes
        # hundreds of obligations whose replays would all run the same few native comparisons
        seen = ShapeContract._replayed
        if self.key() in seen and seen[self.key()] != ob.name:
            return None
        if self.key() not in seen and len(seen) >= 30:
            return None
        seen[self.key()] = ob.name
        fn, cfg = self.native_recipe
        m = {k: v for k, v in (ob.model or {}).items() if isinstance(v, str) and len(v) < 40}
        return "import sys; sys.path.insert(0, %r)\nfrom native import c07shape\nc07shape.%s(%r, %r)\n" % (HERE, fn, cfg, m)


def result_lens(result):
    if not isinstance(result, FArr):
        raise Unsupported('returned %r instead of a function array' % (result,))
    return result.lens


# ------------------------------------------------------------------------------------------- 1. broadcasting --

class BroadcastShapes(ShapeContract):
    """function.broadcast_shapes(*shapes) == numpy.broadcast_shapes(*shapes); ValueError exactly when NumPy's rule is undefined."""
    fn = 'function:broadcast_shapes'

    def __init__(self, ranks):
        self.ranks = tuple(ranks)
        self.label = 'ranks=' + ','.join(map(str, ranks))
        self.bounded = 'number of shapes (%d) and their ranks fixed (<= 3 shapes, rank <= 3); every length symbolic (>= 0, incl. 0 and 1)' % len(ranks)
        self.native_recipe = ('broadcast_shapes', {'ranks': list(ranks)})

    def setup(self, cx):
        w, g = self.world()
        shapes = [self.fresh_lens(cx, 's%d_' % i, r) for i, r in enumerate(self.ranks)]
        return State(args=tuple(tuple(SInt(x) for x in s) for s in shapes), shapes=shapes, world=w, globals=g)

    def raises(self, cx, S, e):
        ok, _ = np_broadcast(S.shapes)
        if e.exc == 'ValueError':
            return z3.Not(ok)
        return False

    def ensures(self, cx, S, result):
        ok, want = np_broadcast(S.shapes)
        if not isinstance(result, tuple):
            raise Unsupported('returned %r' % (result,))
        return [('numpy-accepts', ok), ('numpy-shape', eqshape(list(result), want))]


class BroadcastTo(ShapeContract):
    """numpy.broadcast_to(array, shape): announced shape == shape; ValueError exactly when NumPy rejects."""
    fn = 'function:__implementations__.broadcast_to'

    def __init__(self, rank, nshape):
        self.rank, self.nshape = rank, nshape
        self.label = 'rank=%d,len(shape)=%d' % (rank, nshape)
        self.bounded = 'array rank and len(shape) fixed (<= 3); every length symbolic (>= 0)'
        self.native_recipe = ('broadcast_to', {'rank': rank, 'nshape': nshape})
        self.expect_return = rank <= nshape

    def setup(self, cx):
        w, g = self.world()
        lens = self.fresh_lens(cx, 'n', self.rank)
        want = self.fresh_lens(cx, 'd', self.nshape)
        return State(args=(FArr(w, lens, FLOAT), tuple(SInt(x) for x in want)), lens=lens, want=want, world=w, globals=g)

    def raises(self, cx, S, e):
        ok, _ = np_broadcast_to(S.lens, S.want)
        if e.exc == 'ValueError':
            return z3.Not(ok)
        return False

    def ensures(self, cx, S, result):
        ok, want = np_broadcast_to(S.lens, S.want)
        if want is None:
            return [('numpy-accepts', z3.BoolVal(False))]
        return [('numpy-accepts', ok), ('numpy-shape', eqshape(result_lens(result), want)), ('dtype-kept', z3.BoolVal(result.dtype == FLOAT))]


class BroadcastArrays(ShapeContract):
    """function.broadcast_arrays(*arrays): every result has shape numpy.broadcast_shapes(*shapes); ValueError exactly when undefined."""
    fn = 'function:broadcast_arrays'

    def __init__(self, ranks):
        self.ranks = tuple(ranks)
        self.label = 'ranks=' + ','.join(map(str, ranks))
        self.bounded = 'number of arrays (%d) and their ranks fixed (<= 3 arrays, rank <= 2 for three, <= 3 for two); every length symbolic (>= 0)' % len(ranks)
        self.native_recipe = ('broadcast_arrays', {'ranks': list(ranks)})

    def setup(self, cx):
        w, g = self.world()
        shapes = [self.fresh_lens(cx, 's%d_' % i, r) for i, r in enumerate(self.ranks)]
        return State(args=tuple(FArr(w, s, FLOAT) for s in shapes), shapes=shapes, world=w, globals=g)

    def raises(self, cx, S, e):
        ok, _ = np_broadcast(S.shapes)
        if e.exc == 'ValueError':
            return z3.Not(ok)
        return False

    def ensures(self, cx, S, result):
        ok, want = np_broadcast(S.shapes)
        if not isinstance(result, tuple) or len(result) != len(self.ranks):
            return [('one-result-per-operand', z3.BoolVal(False))]
        out = [('numpy-accepts', ok)]
        for i, r in enumerate(result):
            out.append(('numpy-shape[%d]' % i, eqshape(result_lens(r), want)))
        return out


def broadcasting_contracts():
    cs = [BroadcastShapes(r) for r in [(0,), (2,), (0, 0), (0, 1), (1, 1), (1, 2), (2, 0), (2, 2), (1, 3), (3, 3),
                                       (0, 0, 0), (1, 1, 1), (0, 1, 2), (2, 1, 2), (2, 2, 2), (3, 1, 2), (3, 3, 3)]]
    for rank in range(4):
        for nshape in range(4):
            if rank > nshape + 1 or (rank, nshape) in ((0, 2), (1, 3)):
                continue
            cs.append(BroadcastTo(rank, nshape))
    cs += [BroadcastArrays(r) for r in [(0,), (0, 2), (1, 1), (2, 1), (2, 2), (3, 1), (1, 0, 2), (1, 1, 1)]]
    return cs


# ------------------------------------------------------------------------------- 2. transpose / swapaxes / _end --

def np_transpose(lens, axes):
    """numpy.transpose: None when numpy rejects (wrong number of axes, out of range, repeated)"""
    n = len(lens)
    if axes is None:
        return list(reversed(lens))
    if len(axes) != n:
        return None
    norm = [np_axis(n, a) for a in axes]
    if None in norm or len(set(norm)) != n:
        return None
    return [lens[a] for a in norm]


class Transpose(ShapeContract):
    """numpy.transpose(array, axes) -> _Transpose.__init__: announced shape[k] == shape[axes[k]] for a permutation `axes`
    (negative entries count from the end); NumPy rejects a wrong number of axes, an axis out of range and a repeated axis."""
    fn = 'function:__implementations__.transpose'

    def __init__(self, ndim, axes):
        self.ndim, self.axes = ndim, axes
        self.label = 'ndim=%d,axes=%s' % (ndim, 'None' if axes is None else ','.join(map(str, axes)) or '()')
        self.bounded = 'rank (<= 3) and the axes tuple are fixed; every length symbolic (>= 0)'
        self.native_recipe = ('transpose', {'ndim': ndim, 'axes': None if axes is None else list(axes)})
        self.expect_return = np_transpose([0] * ndim, axes) is not None

    def setup(self, cx):
        w, g = self.world()
        lens = self.fresh_lens(cx, 'n', self.ndim)
        return State(args=(FArr(w, lens, FLOAT), self.axes), lens=lens, world=w, globals=g)

    def raises(self, cx, S, e):
        return np_transpose(S.lens, self.axes) is None  # NumPy rejects: any exception is a rejection

    def ensures(self, cx, S, result):
        want = np_transpose(S.lens, self.axes)
        if want is None:
            return [('rejects-what-numpy-rejects', z3.BoolVal(False))]
        return [('numpy-shape', eqshape(result_lens(result), want)), ('dtype-kept', z3.BoolVal(result.dtype == FLOAT))]


class SwapAxes(ShapeContract):
    """numpy.swapaxes(array, a, b): the two axes exchanged (negative count from the end); out of range rejected."""
    fn = 'function:__implementations__.swapaxes'

    def __init__(self, ndim, a, b):
        self.ndim, self.a, self.b = ndim, a, b
        self.label = 'ndim=%d,axes=%d,%d' % (ndim, a, b)
        self.bounded = 'rank (<= 3) and the two axes are fixed; every length symbolic (>= 0)'
        self.native_recipe = ('swapaxes', {'ndim': ndim, 'a': a, 'b': b})
        self.expect_return = self.spec([0] * ndim) is not None

    def spec(self, lens):
        a, b = np_axis(self.ndim, self.a) if self.ndim else None, np_axis(self.ndim, self.b) if self.ndim else None
        if a is None or b is None:
            return None
        out = list(lens)
        out[a], out[b] = out[b], out[a]
        return out

    def setup(self, cx):
        w, g = self.world()
        lens = self.fresh_lens(cx, 'n', self.ndim)
        return State(args=(FArr(w, lens, FLOAT), self.a, self.b), lens=lens, world=w, globals=g)

    def raises(self, cx, S, e):
        return self.spec(S.lens) is None

    def ensures(self, cx, S, result):
        want = self.spec(S.lens)
        if want is None:
            return [('rejects-what-numpy-rejects', z3.BoolVal(False))]
        return [('numpy-shape', eqshape(result_lens(result), want))]


class TransposeEnd(ShapeContract):
    """_Transpose.to_end(array, *axes): the named axes (distinct, negative allowed) are moved to the end in the given
    order, the others keep their order; from_end is its inverse: the LAST len(axes) axes are moved to positions `axes`.
    Duplicate or out-of-range axes are rejected."""

    def __init__(self, which, ndim, axes):
        self.which, self.ndim, self.axes = which, ndim, tuple(axes)
        self.fn = 'function:_Transpose.' + which
        self.label = 'ndim=%d,axes=%s' % (ndim, ','.join(map(str, axes)) or '()')
        self.bounded = 'rank (<= 4) and the axes are fixed; every length symbolic (>= 0)'
        self.native_recipe = ('transpose_end', {'which': which, 'ndim': ndim, 'axes': list(axes)})
        self.expect_return = self.spec(list(range(ndim))) is not None

    def spec(self, lens):
        n = self.ndim
        norm = [np_axis(n, a) if n else None for a in self.axes]
        if None in norm or len(set(norm)) != len(norm):
            return None
        rest = [i for i in range(n) if i not in norm]
        if self.which == 'to_end':
            return [lens[i] for i in rest + norm]
        out = [None] * n
        k = n - len(norm)
        for j, a in enumerate(norm):
            out[a] = lens[k + j]
        it = iter(lens[:k])
        return [x if x is not None else next(it) for x in out]

    def setup(self, cx):
        w, g = self.world()
        lens = self.fresh_lens(cx, 'n', self.ndim)
        return State(args=(g['_Transpose'], FArr(w, lens, FLOAT)) + self.axes, lens=lens, world=w, globals=g)

    def raises(self, cx, S, e):
        return self.spec(S.lens) is None

    def ensures(self, cx, S, result):
        want = self.spec(S.lens)
        if want is None:
            return [('rejects-invalid-axes', z3.BoolVal(False))]
        return [('axes-moved', eqshape(result_lens(result), want))]


def transpose_contracts():
    live, parked = [], []
    for ndim, axes in [(0, None), (0, ()), (1, None), (1, (0,)), (1, (-1,)), (2, None), (2, (0, 1)), (2, (1, 0)), (2, (-1, 0)), (2, (1, -2)), (2, (-2, -1)),
                       (3, None), (3, (0, 1, 2)), (3, (0, 2, 1)), (3, (1, 0, 2)), (3, (1, 2, 0)), (3, (2, 0, 1)), (3, (2, 1, 0)),
                       (3, (-1, 0, 1)), (3, (1, -1, 0)), (3, (-1, -2, -3)), (3, (2, -3, -2)),
                       # out of range: rejected (IndexError)
                       (1, (1,)), (2, (0, 2)), (3, (0, 1, 3)), (3, (-4, 1, 2)), (2, (-3, 0))]:
        live.append(Transpose(ndim, axes))
    # NumPy rejects these; on the pinned commit nutils accepted most of them (repaired, see known_findings.json)
    for ndim, axes in [(2, (0, 0)), (2, (1, -1)), (3, (0, 0, 1)), (3, (2, 1, -1)),  # repeated axis
                       (1, ()), (2, (0,)), (3, (0, 1)), (3, (0, 1, 2, 0)), (0, (0,))]:  # wrong number of axes
        live.append(Transpose(ndim, axes))
    for ndim, a, b in [(0, 0, 0), (1, 0, 0), (1, -1, 0), (1, 1, 0), (1, 0, -2),
                       (2, 0, 1), (2, 1, 0), (2, -1, 0), (2, 0, -2), (2, 1, 1), (2, -1, -2), (2, 2, 0), (2, 0, -3),
                       (3, 0, 2), (3, 2, 1), (3, -1, 0), (3, 1, -3), (3, -2, -1), (3, 1, 1), (3, 3, 0), (3, 0, -4)]:
        live.append(SwapAxes(ndim, a, b))
    for which in ('to_end', 'from_end'):
        for ndim, axes in [(0, ()), (1, ()), (1, (0,)), (1, (-1,)), (2, (0,)), (2, (-1,)), (2, (1, 0)), (2, (0, 1)), (2, (-2, 1)),
                           (3, (0,)), (3, (1,)), (3, (-1,)), (3, (0, 1)), (3, (1, 0)), (3, (2, 0)), (3, (1, 2)), (3, (-1, -3)), (3, (2, 1, 0)), (3, (1, 2, 0)),
                           (4, (1,)), (4, (1, 2)), (4, (3, 0)), (4, (2, 0, 3)),
                           # rejected: out of range / duplicates
                           (0, (0,)), (1, (1,)), (2, (-3,)), (2, (0, 0)), (3, (1, -2)), (3, (0, 3))]:
            live.append(TransposeEnd(which, ndim, axes))
    return live, parked


# ---------------------------------------------------------------------------------- 3. concatenate / stack --

def np_concatenate(shapes, axis):
    """(acceptable: z3 Bool | None if NumPy rejects for structural reasons, result lens)"""
    r = len(shapes[0])
    if any(len(s) != r for s in shapes) or r == 0:
        return None, None
    a = np_axis(r, axis)
    if a is None:
        return None, None
    ok = [s[k] == shapes[0][k] for s in shapes[1:] for k in range(r) if k != a]
    out = list(shapes[0])
    out[a] = z3.Sum(*[s[a] for s in shapes]) if len(shapes) > 1 else shapes[0][a]
    return (z3.And(*ok) if ok else z3.BoolVal(True)), out


def np_join(dtypes):
    return DTYPES[max(DTYPES.index(d) for d in dtypes)]


class Concatenate(ShapeContract):
    """_Concatenate(arrays, axis) (numpy.concatenate): the axis (negative counts from the end) gets the SUM of the
    operands' lengths, every other axis must agree exactly -- else ValueError; different ranks, rank 0 and an axis out
    of range are rejected; the element kind is the join of the operands' kinds."""
    fn = 'function:_Concatenate.__init__'
    entry = False

    def __init__(self, ranks, axis, dtypes=None, entry=False):
        self.ranks, self.axis, self.entry = tuple(ranks), axis, entry
        self.dtypes = tuple(dtypes or (FLOAT,) * len(ranks))
        if entry:
            self.fn = 'function:__implementations__.concatenate'
        self.label = 'ranks=%s,axis=%d' % (','.join(map(str, ranks)), axis) + (',dtypes=' + ','.join(d.name for d in self.dtypes) if dtypes else '')
        self.bounded = 'number of operands (<= 3), their ranks (<= 3) and the axis are fixed; every length symbolic (>= 0)'
        self.native_recipe = ('concatenate', {'ranks': list(ranks), 'axis': axis, 'dtypes': [d.name for d in self.dtypes]})
        self.expect_return = np_concatenate([[0] * r for r in ranks], axis)[0] is not None

    def setup(self, cx):
        w, g = self.world()
        shapes = [self.fresh_lens(cx, 's%d_' % i, r) for i, r in enumerate(self.ranks)]
        arrays = [FArr(w, s, d) for s, d in zip(shapes, self.dtypes)]
        return State(arrays=arrays, shapes=shapes, world=w, globals=g)

    def run(self, cx, S, call):
        if self.entry:
            return call(self.fn, list(S.arrays), self.axis)
        return S.globals['_Concatenate'](cx, list(S.arrays), self.axis)

    def raises(self, cx, S, e):
        ok, _ = np_concatenate(S.shapes, self.axis)
        if ok is None:
            return True
        if e.exc == 'ValueError':
            return z3.Not(ok)
        return False

    def ensures(self, cx, S, result):
        ok, want = np_concatenate(S.shapes, self.axis)
        if ok is None:
            return [('rejects-what-numpy-rejects', z3.BoolVal(False))]
        return [('numpy-accepts', ok), ('numpy-shape', eqshape(result_lens(result), want)), ('numpy-kind', z3.BoolVal(result.dtype == np_join(self.dtypes)))]


def np_stack(shapes, axis):
    r = len(shapes[0])
    if any(len(s) != r for s in shapes):
        return None, None
    a = np_axis(r + 1, axis)
    if a is None:
        return None, None
    ok = [s[k] == shapes[0][k] for s in shapes[1:] for k in range(r)]
    out = list(shapes[0])
    out.insert(a, z3.IntVal(len(shapes)))
    return (z3.And(*ok) if ok else z3.BoolVal(True)), out


class Stack(ShapeContract):
    """numpy.stack(arrays, axis): all shapes equal (else ValueError); a new axis of length len(arrays) at position
    `axis` of the RESULT (negative counts from the end of the result); out of range rejected."""
    fn = 'function:__implementations__.stack'

    def __init__(self, ranks, axis, dtypes=None):
        self.ranks, self.axis = tuple(ranks), axis
        self.dtypes = tuple(dtypes or (FLOAT,) * len(ranks))
        self.label = 'ranks=%s,axis=%d' % (','.join(map(str, ranks)), axis) + (',dtypes=' + ','.join(d.name for d in self.dtypes) if dtypes else '')
        self.bounded = 'number of operands (<= 3), their ranks (<= 2) and the axis are fixed; every length symbolic (>= 0)'
        self.native_recipe = ('stack', {'ranks': list(ranks), 'axis': axis, 'dtypes': [d.name for d in self.dtypes]})
        self.expect_return = np_stack([[0] * r for r in ranks], axis)[0] is not None

    def setup(self, cx):
        w, g = self.world()
        shapes = [self.fresh_lens(cx, 's%d_' % i, r) for i, r in enumerate(self.ranks)]
        arrays = [FArr(w, s, d) for s, d in zip(shapes, self.dtypes)]
        return State(args=(arrays, self.axis), shapes=shapes, world=w, globals=g)

    def raises(self, cx, S, e):
        ok, _ = np_stack(S.shapes, self.axis)
        if ok is None:
            return True
        if e.exc == 'ValueError':
            return z3.Not(ok)
        return False

    def ensures(self, cx, S, result):
        ok, want = np_stack(S.shapes, self.axis)
        if ok is None:
            return [('rejects-what-numpy-rejects', z3.BoolVal(False))]
        return [('numpy-accepts', ok), ('numpy-shape', eqshape(result_lens(result), want)), ('numpy-kind', z3.BoolVal(result.dtype == np_join(self.dtypes)))]


def joining_contracts():
    cs = []
    for ranks, axis in [((1,), 0), ((1, 1), 0), ((1, 1), -1), ((2, 2), 0), ((2, 2), 1), ((2, 2), -1), ((2, 2), -2), ((2, 2, 2), 1), ((1, 1, 1), 0),
                        ((3, 3), 1), ((3, 3), -1), ((3, 3), 0), ((3, 3, 3), -2),
                        # rejected: axis out of range, rank 0, ranks differ
                        ((2, 2), 2), ((2, 2), -3), ((0, 0), 0), ((2, 1), 0), ((1, 2), 0), ((2, 1), 1), ((2, 3), 1)]:
        cs.append(Concatenate(ranks, axis))
    cs.append(Concatenate((2, 2), 1, dtypes=(INT, FLOAT)))
    cs.append(Concatenate((1, 1), 0, dtypes=(BOOL, INT)))
    cs.append(Concatenate((2, 2), -1, entry=True))
    cs.append(Concatenate((1, 1, 1), 0, dtypes=(INT, COMPLEX, BOOL), entry=True))
    for ranks, axis in [((0,), 0), ((0, 0), 0), ((0, 0), -1), ((1, 1), 0), ((1, 1), 1), ((1, 1), -1), ((1, 1), -2), ((2, 2), 1), ((2, 2), -1), ((2, 2), -3), ((1, 1, 1), 1),
                        ((1, 1), 2), ((1, 1), -3), ((2, 2), 3), ((1, 2), 0), ((2, 1), 0)]:
        cs.append(Stack(ranks, axis))
    cs.append(Stack((1, 1), 0, dtypes=(INT, FLOAT)))
    return cs


# ------------------------------------------------------- 4. insertaxis / expand_dims / unravel / get / take --

class InsertAxis(ShapeContract):
    """insertaxis(array, axis, length) / expand_dims(array, axis) (numpy.expand_dims rule): the new axis sits at
    position `axis` of the RESULT (negative counts from the end of the result); out of range rejected."""

    def __init__(self, which, ndim, axis):
        self.which, self.ndim, self.axis = which, ndim, axis
        self.fn = 'function:' + which
        self.label = 'ndim=%d,axis=%d' % (ndim, axis)
        self.bounded = 'rank (<= 3) and axis fixed; every length (incl. the inserted one) symbolic (>= 0)'
        self.native_recipe = ('insertaxis', {'which': which, 'ndim': ndim, 'axis': axis})
        self.expect_return = np_axis(ndim + 1, axis) is not None

    def setup(self, cx):
        w, g = self.world()
        lens = self.fresh_lens(cx, 'n', self.ndim)
        new = self.fresh_lens(cx, 'length', 1)[0] if self.which == 'insertaxis' else z3.IntVal(1)
        args = (FArr(w, lens, FLOAT), self.axis) + ((SInt(new),) if self.which == 'insertaxis' else ())
        return State(args=args, lens=lens, new=new, world=w, globals=g)

    def raises(self, cx, S, e):
        return np_axis(self.ndim + 1, self.axis) is None

    def ensures(self, cx, S, result):
        a = np_axis(self.ndim + 1, self.axis)
        if a is None:
            return [('rejects-what-numpy-rejects', z3.BoolVal(False))]
        want = list(S.lens)
        want.insert(a, S.new)
        return [('numpy-shape', eqshape(result_lens(result), want))]


class PrependAxes(ShapeContract):
    """_prepend_axes(array, shape) has shape (*shape, *array.shape); _append_axes(array, shape) has (*array.shape, *shape)."""

    def __init__(self, which, ndim, nnew):
        self.which, self.ndim, self.nnew = which, ndim, nnew
        self.fn = 'function:' + which
        self.label = 'ndim=%d,new=%d' % (ndim, nnew)
        self.bounded = 'rank (<= 2) and number of new axes (<= 2) fixed; every length symbolic (>= 0)'
        self.native_recipe = ('prepend_axes', {'which': which, 'ndim': ndim, 'nnew': nnew})

    def setup(self, cx):
        w, g = self.world()
        lens = self.fresh_lens(cx, 'n', self.ndim)
        new = self.fresh_lens(cx, 'd', self.nnew)
        return State(args=(FArr(w, lens, FLOAT), tuple(SInt(x) for x in new)), lens=lens, new=new, world=w, globals=g)

    def ensures(self, cx, S, result):
        want = (S.new + S.lens) if self.which == '_prepend_axes' else (S.lens + S.new)
        return [('axes-added', eqshape(result_lens(result), want))]


class Unravel(ShapeContract):
    """unravel(array, axis, (a, b)): axis `axis` (negative allowed) is replaced IN PLACE by two axes of lengths a, b; rejected (ValueError) exactly
    when a * b differs from the axis length; an axis outside [-ndim, ndim) is rejected.  (On the pinned commit the size was not checked and a
    negative axis moved the second new axis to the front: repaired, see known_findings.json.)"""
    fn = 'function:unravel'

    def __init__(self, ndim, axis, size_check=True):
        self.ndim, self.axis, self.size_check = ndim, axis, size_check
        self.label = 'ndim=%d,axis=%d' % (ndim, axis)
        self.bounded = 'rank (<= 3) and axis fixed; every length symbolic (>= 0)'
        self.native_recipe = ('unravel', {'ndim': ndim, 'axis': axis})
        self.expect_return = -ndim <= axis < ndim

    def setup(self, cx):
        w, g = self.world()
        lens = self.fresh_lens(cx, 'n', self.ndim)
        ab = self.fresh_lens(cx, 'part', 2)
        return State(args=(FArr(w, lens, FLOAT), self.axis, (SInt(ab[0]), SInt(ab[1]))), lens=lens, ab=ab, world=w, globals=g)

    def raises(self, cx, S, e):
        if not self.expect_return:
            return True
        if e.exc == 'ValueError':
            return S.ab[0] * S.ab[1] != S.lens[self.axis % self.ndim]
        return False

    def ensures(self, cx, S, result):
        if not self.expect_return:
            return [('rejects-axis-out-of-range', z3.BoolVal(False))]
        a = self.axis % self.ndim
        want = S.lens[:a] + S.ab + S.lens[a + 1:]
        return [('axis-split', eqshape(result_lens(result), want)), ('size-preserved', S.ab[0] * S.ab[1] == S.lens[a])]


class Get(ShapeContract):
    """get(array, axis, index) (numpy.take with a scalar index): the axis is removed; axis out of range rejected."""
    fn = 'function:get'

    def __init__(self, ndim, axis):
        self.ndim, self.axis = ndim, axis
        self.label = 'ndim=%d,axis=%d' % (ndim, axis)
        self.bounded = 'rank (<= 3) and axis fixed; lengths and the index symbolic'
        self.native_recipe = ('get', {'ndim': ndim, 'axis': axis})
        self.expect_return = ndim > 0 and np_axis(ndim, axis) is not None

    def setup(self, cx):
        w, g = self.world()
        lens = self.fresh_lens(cx, 'n', self.ndim)
        idx = cx.int('index')
        return State(args=(FArr(w, lens, FLOAT), self.axis, SInt(idx)), lens=lens, world=w, globals=g)

    def raises(self, cx, S, e):
        return not self.expect_return

    def ensures(self, cx, S, result):
        if not self.expect_return:
            return [('rejects-what-numpy-rejects', z3.BoolVal(False))]
        a = np_axis(self.ndim, self.axis)
        return [('numpy-shape', eqshape(result_lens(result), S.lens[:a] + S.lens[a + 1:])), ('dtype-kept', z3.BoolVal(result.dtype == FLOAT))]


class TakeConst(ShapeContract):
    """numpy.take(array, indices, axis) with a CONSTANT 1-D integer index array (symbolic length m, symbolic entries):
    axis `axis` is replaced by an axis of length m; ValueError exactly when some index is outside [-n, n) (NumPy:
    IndexError); the stored constant holds the indices normalised to [0, n).  axis=None ravels first."""
    fn = 'function:__implementations__.take'

    def __init__(self, ndim, axis, irank=1):
        self.ndim, self.axis, self.irank = ndim, axis, irank
        self.label = 'ndim=%d,axis=%s' % (ndim, axis) + (',index-rank=%d' % irank if irank != 1 else '')
        self.bounded = 'rank (<= 3), axis and the rank of the index array (%d) fixed; lengths, number of indices and index values symbolic' % irank
        self.native_recipe = ('take', {'ndim': ndim, 'axis': axis, 'irank': irank})
        self.expect_return = axis is None or (ndim > 0 and np_axis(ndim, axis) is not None)

    def setup(self, cx):
        w, g = self.world()
        lens = self.fresh_lens(cx, 'n', self.ndim, lo=1 if self.axis is None else 0)
        m = cx.int('m')
        cx.assume(m >= 0)
        v = Vec.fresh(cx, 'indices', 'int', n=m, probes=2)
        if self.irank == 2:
            m1, m2 = cx.int('m1'), cx.int('m2')
            cx.assume(z3.And(m1 >= 0, m2 >= 0))  # the flattened count m is left unrelated: only .shape enters the shape rule
            idx = IVec2('int', v.n, v._sel, 'indices')
            idx.shape2 = (m1, m2)
            ishape = [m1, m2]
        else:
            idx = IVec('int', v.n, v._sel, 'indices')
            ishape = [m]
        orig = idx._sel
        return State(args=(FArr(w, lens, FLOAT), idx, self.axis), lens=lens, m=m, ishape=ishape, orig=orig, world=w, globals=g)

    def axis_len(self, S):
        if self.axis is None:
            r = z3.IntVal(1)
            for x in S.lens:
                r = r * x
            return z3.simplify(r)
        return S.lens[np_axis(self.ndim, self.axis)]

    def in_range(self, S):
        from pyvc.nparr import qforall
        n = self.axis_len(S)
        return qforall(1, lambda k: z3.Implies(z3.And(0 <= k, k < S.m), z3.And(-n <= S.orig(k), S.orig(k) < n)))

    def raises(self, cx, S, e):
        if not self.expect_return:
            return True
        if e.exc == 'ValueError':
            return z3.Not(self.in_range(S))
        return False

    def ensures(self, cx, S, result):
        from pyvc.nparr import qforall
        if not self.expect_return:
            return [('rejects-what-numpy-rejects', z3.BoolVal(False))]
        if self.axis is None:
            want = list(S.ishape)
        else:
            a = np_axis(self.ndim, self.axis)
            want = S.lens[:a] + list(S.ishape) + S.lens[a + 1:]  # NumPy: the index array's axes replace axis `axis`, in place
        out = [('numpy-accepts', self.in_range(S)), ('numpy-shape', eqshape(result_lens(result), want))]
        if len(S.world.constants) != 1:
            raise Unsupported('expected exactly one constant index array, got %d' % len(S.world.constants))
        c, n = S.world.constants[0], self.axis_len(S)
        out.append(('indices-normalised', z3.And(c.n == S.m, qforall(1, lambda k: z3.Implies(z3.And(0 <= k, k < S.m), c.sel(k) == z3.If(S.orig(k) < 0, S.orig(k) + n, S.orig(k)))))))
        return out


def indexing_contracts():
    cs = []
    for ndim, axis in [(0, 0), (0, -1), (1, 0), (1, 1), (1, -1), (1, -2), (2, 0), (2, 1), (2, 2), (2, -1), (2, -3), (3, 1), (3, 3), (3, -4), (0, 1), (1, 2), (2, -4), (3, 4)]:
        cs.append(InsertAxis('expand_dims', ndim, axis))
    for ndim, axis in [(0, 0), (1, 0), (1, -1), (2, 1), (2, -3), (3, 2), (2, 3)]:
        cs.append(InsertAxis('insertaxis', ndim, axis))
    for which in ('_prepend_axes', '_append_axes'):
        for ndim, nnew in [(0, 0), (1, 0), (0, 2), (1, 1), (2, 2)]:
            cs.append(PrependAxes(which, ndim, nnew))
    for ndim, axis in [(1, 0), (2, 0), (2, 1), (3, 0), (3, 1), (3, 2), (1, 1), (0, 0), (1, -1), (2, -1), (2, -2), (3, -1), (3, -3), (2, -3)]:
        cs.append(Unravel(ndim, axis))
    for ndim, axis in [(1, 0), (1, -1), (2, 0), (2, 1), (2, -2), (3, 1), (3, -1), (0, 0), (1, 1), (2, -3), (3, 3)]:
        cs.append(Get(ndim, axis))
    for ndim, axis in [(1, 0), (1, -1), (2, 0), (2, 1), (2, -1), (3, 1), (3, -3), (1, 1), (2, -3), (0, 0), (1, None), (2, None)]:
        cs.append(TakeConst(ndim, axis))
    for ndim, axis in [(1, 0), (1, -1), (2, 0), (2, 1), (2, -1), (2, -2), (3, 1), (3, -1), (3, -2), (3, -3), (2, None)]:
        cs.append(TakeConst(ndim, axis, irank=2))
    return cs


# ------------------------------------------------------------------------------------------- 5. reshape --

def zprod(xs):
    r = z3.IntVal(1)
    for x in xs:
        r = r * x
    return r


class Reshape(ShapeContract):
    """numpy.reshape(array, newshape): at most one -1, which is inferred as size / product(others); accepted exactly
    when the sizes match (no -1) or the product of the others divides the size (one -1; NumPy also rejects a zero
    product); the announced shape is the requested one with -1 resolved.  The body lowers this to ravel / unravel /
    insert-axis / transpose steps: every intermediate announced shape is executed from the real code, and none of its
    internal assertions may fail for an accepted request.

    domain 'positive': all lengths >= 1 (non-empty arrays, the live contracts);
    domain 'nonneg'  : lengths >= 0  -- fails on the unchanged tree (zero-length axes: ZeroDivisionError / AssertionError): recorded KNOWN FINDING
                       (known_findings.json; carve-out = the 'positive' contract of the same pattern);
    domain 'nonzero' : non-empty array, requested lengths any integer but -1 and 0 (negative lengths must be rejected: failed on the pinned
                       commit, repaired)."""
    fn = 'function:__implementations__.reshape'

    def __init__(self, ndim, pattern, domain='positive', as_int=False):
        self.ndim, self.pattern, self.domain, self.as_int = ndim, tuple(pattern), domain, as_int
        self.label = 'ndim=%d,newshape=%s' % (ndim, '-1' if as_int else '(' + ','.join('n' if p == 's' else '-1' for p in pattern) + ')') + ('' if domain == 'positive' else ',domain=' + domain)
        self.bounded = 'rank (<= 3), len(newshape) (<= 3) and the position of -1 fixed; every length symbolic (%s)' % {'positive': '>= 1', 'nonneg': '>= 0', 'nonzero': 'array >= 1, requested: any integer but -1 and 0'}[domain]
        self.native_recipe = ('reshape', {'ndim': ndim, 'pattern': list(pattern), 'as_int': as_int})
        self.expect_return = self.pattern.count(-1) <= 1

    def setup(self, cx):
        w, g = self.world()
        lo = 0 if self.domain == 'nonneg' else 1
        lens = self.fresh_lens(cx, 'n', self.ndim, lo=lo)
        req = []
        for k, p in enumerate(self.pattern):
            if p == -1:
                req.append(None)
            else:
                v = cx.int('d%d' % k)
                cx.assume(z3.And(v != -1, v != 0) if self.domain == 'nonzero' else v >= lo)
                req.append(v)
        newshape = -1 if self.as_int else tuple(-1 if r is None else SInt(r) for r in req)
        return State(args=(FArr(w, lens, FLOAT), newshape), lens=lens, req=req, world=w, globals=g)

    def spec(self, cx, S):
        """(ok, others, size); `others divides size` is stated through the characteristic form of divmod (exact)"""
        size = zprod(S.lens)
        others = zprod([r for r in S.req if r is not None])
        nonneg = z3.And(*[r >= 0 for r in S.req if r is not None]) if any(r is not None for r in S.req) else z3.BoolVal(True)
        if S.req.count(None) == 0:
            return z3.And(nonneg, others == size), others, size
        _, rem = divmod_char(cx, SInt(size), SInt(others))
        return z3.And(nonneg, others != 0, rem == 0), others, size

    def raises(self, cx, S, e):
        if S.req.count(None) > 1:
            return True
        ok, _, _ = self.spec(cx, S)
        if e.exc == 'ValueError' or (e.exc == 'ZeroDivisionError' and self.domain == 'nonneg'):
            return z3.Not(ok)
        return False

    def ensures(self, cx, S, result):
        if S.req.count(None) > 1:
            return [('rejects-what-numpy-rejects', z3.BoolVal(False))]
        ok, others, size = self.spec(cx, S)
        got = result_lens(result)
        if len(got) != len(S.req):
            return [('numpy-shape', z3.BoolVal(False))]
        parts = []
        for gl, r in zip(got, S.req):
            parts.append(zl(gl) == r if r is not None else zl(gl) * others == size)
        return [('numpy-accepts', ok), ('numpy-shape', z3.And(*parts) if parts else z3.BoolVal(True)), ('dtype-kept', z3.BoolVal(result.dtype == FLOAT))]


class Ravel(Reshape):
    """numpy.ravel(array): one axis of length size."""
    fn = 'function:__implementations__.ravel'

    def __init__(self, ndim):
        Reshape.__init__(self, ndim, (-1,), as_int=True)
        self.label = 'ndim=%d' % ndim
        self.native_recipe = ('reshape', {'ndim': ndim, 'pattern': [-1], 'as_int': True, 'ravel': True})

    def run(self, cx, S, call):
        return call(self.fn, S.args[0])


def reshape_contracts():
    live, parked = [], []
    for ndim, pat in [(0, ()), (0, ('s',)), (0, ('s', 's')), (0, (-1,)), (1, ()), (1, ('s',)), (1, (-1,)), (1, ('s', 's')), (1, ('s', -1)), (1, (-1, 's')),
                      (2, ('s',)), (2, (-1,)), (2, ('s', 's')), (2, (-1, 's')), (2, ('s', -1)), (2, ()),
                      (1, (-1, -1)), (2, (-1, 's', -1))]:
        live.append(Reshape(ndim, pat))
    live += [Reshape(2, (-1,), as_int=True), Ravel(0), Ravel(1), Ravel(2)]
    live += [Reshape(3, ('s',)), Reshape(3, (-1,)), Reshape(3, ('s', 's')), Reshape(3, (-1, 's')), Ravel(3)]
    live += [Reshape(1, ('s', 's'), domain='nonzero'), Reshape(2, ('s',), domain='nonzero'), Reshape(1, ('s', -1), domain='nonzero')]
    # zero-length axes: recorded known finding (these contracts fail on the unchanged tree; they run so that the finding is re-established on every run)
    live += [Reshape(2, ('s', 's'), domain='nonneg'), Reshape(2, ('s',), domain='nonneg'), Reshape(2, (-1,), domain='nonneg'), Reshape(1, ('s', -1), domain='nonneg')]
    return live, parked


# ------------------------------------------------------------------------------ 6. element kind (dtype) join --

class Typecast(ShapeContract):
    """typecast_arrays(*arrays, min_dtype): every operand is cast to the JOIN of the operands' kinds and min_dtype in
    the chain bool < int < float < complex (NumPy's result kind for these four kinds); shapes are untouched.
    Ground table: every pair of kinds, every min_dtype with one operand, a few triples."""
    fn = 'function:typecast_arrays'

    def __init__(self, dtypes, min_dtype=None):
        self.dtypes, self.min_dtype = tuple(dtypes), min_dtype
        self.label = 'kinds=%s' % ','.join(d.name for d in dtypes) + (',min_dtype=' + min_dtype.name if min_dtype else '')
        self.bounded = 'ground table over the four element kinds (<= 3 operands of rank 1)'
        self.native_recipe = ('typecast', {'dtypes': [d.name for d in dtypes], 'min_dtype': min_dtype.name if min_dtype else None})

    def setup(self, cx):
        w, g = self.world()
        shapes = [self.fresh_lens(cx, 's%d_' % i, 1) for i in range(len(self.dtypes))]
        arrays = tuple(FArr(w, s, d) for s, d in zip(shapes, self.dtypes))
        return State(args=arrays, kwargs=({'min_dtype': self.min_dtype} if self.min_dtype else {}), shapes=shapes, world=w, globals=g)

    def ensures(self, cx, S, result):
        want = np_join(self.dtypes + ((self.min_dtype,) if self.min_dtype else ()))
        if not isinstance(result, tuple) or len(result) != len(self.dtypes):
            return [('one-result-per-operand', z3.BoolVal(False))]
        return [('numpy-kind', z3.BoolVal(all(isinstance(r, FArr) and r.dtype == want for r in result))),
                ('shapes-kept', z3.And(*[eqshape(result_lens(r), s) for r, s in zip(result, S.shapes)]))]


class BroadcastedArrays(ShapeContract):
    """_Wrapper.broadcasted_arrays(op, a, b) (the route of every binary ufunc): announced shape = numpy.broadcast_shapes,
    element kind = join of the kinds; ValueError exactly when the shapes do not broadcast."""
    fn = 'function:_Wrapper.broadcasted_arrays'

    def __init__(self, ranks, dtypes):
        self.ranks, self.dtypes = tuple(ranks), tuple(dtypes)
        self.label = 'ranks=%s,kinds=%s' % (','.join(map(str, ranks)), ','.join(d.name for d in dtypes))
        self.bounded = 'two operands of fixed rank (<= 2) and kind; every length symbolic (>= 0)'
        self.native_recipe = ('broadcasted', {'ranks': list(ranks), 'dtypes': [d.name for d in dtypes]})

    def setup(self, cx):
        w, g = self.world()
        shapes = [self.fresh_lens(cx, 's%d_' % i, r) for i, r in enumerate(self.ranks)]
        arrays = tuple(FArr(w, s, d) for s, d in zip(shapes, self.dtypes))
        return State(args=(g['_Wrapper'], ClassRef('add')) + arrays, shapes=shapes, world=w, globals=g)

    def raises(self, cx, S, e):
        ok, _ = np_broadcast(S.shapes)
        if e.exc == 'ValueError':
            return z3.Not(ok)
        return False

    def ensures(self, cx, S, result):
        ok, want = np_broadcast(S.shapes)
        return [('numpy-accepts', ok), ('numpy-shape', eqshape(result_lens(result), want)), ('numpy-kind', z3.BoolVal(result.dtype == np_join(self.dtypes)))]


def dtype_contracts():
    cs = [Typecast((a, b)) for a in DTYPES for b in DTYPES]
    cs += [Typecast((a,), min_dtype=m) for a in DTYPES for m in DTYPES]
    cs += [Typecast((BOOL, INT, BOOL)), Typecast((INT, COMPLEX, FLOAT)), Typecast((BOOL, BOOL), min_dtype=FLOAT), Typecast((FLOAT, INT), min_dtype=BOOL)]
    cs += [BroadcastedArrays((1, 2), (INT, FLOAT)), BroadcastedArrays((0, 1), (BOOL, BOOL)), BroadcastedArrays((2, 2), (COMPLEX, INT))]
    return cs


PARKED = []  # contracts that FAIL on the unchanged tree (natively reproduced candidate defects, notes/C07-shape.md); kept out of the check


def parked_contracts():
    _, parked = transpose_contracts()
    _, rparked = reshape_contracts()
    return parked + rparked


def contracts():
    live, parked = transpose_contracts()
    rlive, rparked = reshape_contracts()
    PARKED[:] = parked_contracts()
    cs = broadcasting_contracts() + live + joining_contracts() + indexing_contracts() + rlive + dtype_contracts()
    if os.environ.get('VERIF_C07_PARKED'):
        cs += PARKED  # experiments only: these fail on the unchanged tree (candidate defects, notes/C07-shape.md)
    return cs
