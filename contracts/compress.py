"""numeric.compress_indices: the contract (shared by C05 and C15) and its deductive proof for index vectors of ANY length.

Contract (L = length >= 0, n = len(indices), c the result):
    valid(indices, L) :=  forall k: 0 <= indices[k] < L   and   forall k: indices[k] <= indices[k+1]
    normal return  =>  valid  and  len(c) = L+1, c[0] = 0, c[L] = n, c monotone,
                       c[i] is the insertion point of i (all entries before c[i] are < i, all entries from c[i] on are >= i:
                       "fully equivalent to indices.searchsorted(arange(L+1))"),
                       forall i < L, k < n:  c[i] <= k < c[i+1]  <=>  indices[k] == i          (the rows partition the positions)
    an exception   =>  it is a ValueError and the input is not valid.

Proof outline (every step is an obligation of the real body; nothing about the body is transcribed):
  the body builds `step` (n+1 entries), nz = step.nonzero(), result = numpy.repeat(nz, step[nz]).  Ghosts:
    Pc(k) = 0 | indices[k-1]+1 | L+1   (k = 0 | 1..n | n+1)            the claimed closed form of the prefix sums
    S(0) = 0, S(k+1) = S(k) + step[k]                                   the prefix sums of `step` (recursive definition)
  lemma step-is-difference        step[k] = Pc(k+1) - Pc(k)                                   (pointwise, from the three ufunc stores)
  lemma prefix-sum-closed-form    S(k) = Pc(k),  0 <= k <= n+1                                (induction: base + step obligations)
  lemma zero-run                  step zero on [a, b)  =>  S(b) = S(a)                        (induction on b)
  lemma counts-are-steps-at-nz    the counts handed to repeat are step[nz[j]]
  lemma offsets-are-prefix-sums   off[j] = S(nz[j]) for j < len(nz), off[len(nz)] = S(n+1)    (induction on j; off = block offsets of repeat)
  lemma steps-nonnegative, indices-monotone (then L-MONO), insertion-point-form:  Pc(c[i]) <= i < Pc(c[i]+1)
  => the postcondition.
"""
import z3
from pyvc.contract import Contract, State
from pyvc.values import SInt, PyRaise, Unsupported, zint
from pyvc.nparr import Vec, Numpy, qforall, qexists
from pyvc import lemmas, npext


def valid(indices, L):
    n = indices.n
    return z3.And(qforall(1, lambda k: z3.Implies(z3.And(0 <= k, k < n), z3.And(0 <= indices.sel(k), indices.sel(k) < L))),
                  qforall(1, lambda k: z3.Implies(z3.And(0 <= k, k + 1 < n), indices.sel(k) <= indices.sel(k + 1))))


def post_clauses(indices, L, c):
    n = indices.n
    return [
        ('length', c.n == L + 1),
        ('starts-at-0', c.sel(z3.IntVal(0)) == 0),
        ('ends-at-len', c.sel(L) == n),
        ('monotone', qforall(1, lambda i: z3.Implies(z3.And(0 <= i, i < L), c.sel(i) <= c.sel(i + 1)))),
        ('insertion-point', z3.And(
            qforall(1, lambda i: z3.Implies(z3.And(0 <= i, i <= L), z3.And(0 <= c.sel(i), c.sel(i) <= n))),
            qforall(2, lambda i, k: z3.Implies(z3.And(0 <= i, i <= L, 0 <= k, k < c.sel(i)), indices.sel(k) < i)),
            qforall(2, lambda i, k: z3.Implies(z3.And(0 <= i, i <= L, c.sel(i) <= k, k < n), indices.sel(k) >= i)))),
        ('rows-partition-positions', qforall(2, lambda i, k: z3.Implies(z3.And(0 <= i, i < L, 0 <= k, k < n),
                                                                        z3.And(c.sel(i) <= k, k < c.sel(i + 1)) == (indices.sel(k) == i)))),
    ]


def model(ctx, indices, length):
    """numeric.compress_indices replaced by its contract (for callers): ValueError iff not valid, else a fresh c with the postcondition."""
    if not (isinstance(indices, Vec) and indices.kind == 'int'):
        raise Unsupported('compress_indices of %r' % (indices,))
    L = zint(length)
    ctx.lemma('compress_indices-precondition:length-nonnegative', L >= 0)
    ctx.used_axioms.add('numeric.compress_indices by its contract (contracts/compress.py; proved for all lengths under C05)')
    v = valid(indices, L)
    if not ctx.branch(v):
        raise PyRaise('ValueError', note='compress_indices: indices out of bounds or not monotone')
    ctx.assume(v)  # the branch condition itself (kept as this formula object so that lemmas can name it)
    c = Vec.fresh(ctx, 'compress_indices', 'int', n=L + 1, report=False)
    post = post_clauses(indices, L, c)
    for _, f in post:
        ctx.assume(f)
    ctx.ghost.setdefault('compress_indices', []).append(dict(indices=indices, L=L, result=c, post=post, valid=v))
    return c


class NumericByContract:
    """`numeric` module stand-in for callers of compress_indices."""

    def sym_getattr(self, ctx, name):
        if name == 'compress_indices':
            return model
        raise Unsupported('numeric.%s is not modelled' % name)


class CompressIndices(Contract):
    fn = 'numeric:compress_indices'

    def __init__(self, prop):
        self.prop = prop

    def setup(self, cx):
        indices = Vec.fresh(cx, 'indices', 'int', probes=4)
        L = cx.int('length')
        cx.assume(L >= 0)
        return State(indices=indices, L=L, valid=valid(indices, L), post=None, globals={'numpy': Numpy()})

    def body(self, cx, S, call):
        try:
            c = call(self.fn, S.indices, SInt(S.L))
        except PyRaise:
            self.hints_raise(cx, S)
            raise
        if isinstance(c, Vec):
            self.hints(cx, S, c)
        return c

    def ghosts(self, cx, S):
        """Function symbol for the array nonzero() was taken of, and the facts nonzero() gives, restated over it."""
        gn = cx.ghost['nonzero']
        ind, L, n = S.indices, S.L, S.indices.n
        st, sn, nz, rank = gn['src'], gn['n'], gn['nz'], gn['rank']
        m = nz.n
        stf = z3.Function(cx.name('step'), z3.IntSort(), z3.IntSort())
        k0 = z3.Int('k!stepdef')
        D_st = z3.ForAll([k0], stf(k0) == st(k0), patterns=[stf(k0)])
        cx.assume(D_st, axiom='ghost definition: step(k) names element k of the array nonzero() was taken of')
        Pc = lambda k: z3.If(k <= 0, 0, z3.If(k <= n, ind.sel(k - 1) + 1, L + 1))
        F_diff = npext.lemma(cx, 'step-is-difference', z3.And(sn == n + 1, qforall(1, lambda k: z3.Implies(z3.And(0 <= k, k <= n), stf(k) == Pc(k + 1) - Pc(k)))), using=[D_st])
        F_nz = npext.lemma(cx, 'nonzero-of-step', z3.And(
            qforall(1, lambda j: z3.Implies(z3.And(0 <= j, j < m), z3.And(0 <= nz.sel(j), nz.sel(j) <= n, stf(nz.sel(j)) != 0))),
            qforall(1, lambda k: z3.Implies(z3.And(0 <= k, k <= n, stf(k) != 0), z3.And(0 <= rank(k), rank(k) < m, nz.sel(rank(k)) == k)))),
            using=[D_st, gn['ax_range'], gn['ax_rank']])
        return stf, D_st, Pc, F_diff, F_nz

    def hints_raise(self, cx, S):
        gn, gr = cx.ghost.get('nonzero'), cx.ghost.get('repeat-raised')
        if gn is None or gr is None or gr['a'] is not gn['nz']:
            return
        ind, n, nz = S.indices, S.indices.n, gn['nz']
        stf, D_st, Pc, F_diff, F_nz = self.ghosts(cx, S)
        cnt, m = gr['counts_sel'], gr['m']
        F_cnt = npext.lemma(cx, 'counts-are-steps-at-nz', qforall(1, lambda j: z3.Implies(z3.And(0 <= j, j < m), cnt(j) == stf(nz.sel(j)))), using=[D_st, gn['ax_range']])
        j0 = cx.int('negative-count-at', report=False)
        cx.assume(z3.And(0 <= j0, j0 < m, cnt(j0) < 0), axiom='witness of the existential path condition "some count is negative" (Skolem constant)')
        npext.lemma(cx, 'negative-step-is-a-descent', z3.And(1 <= nz.sel(j0), nz.sel(j0) < n, ind.sel(nz.sel(j0)) < ind.sel(nz.sel(j0) - 1)), using=[F_cnt, F_diff, F_nz])
        npext.lemma(cx, 'rejected-input-is-invalid', z3.Not(S.valid), using=[])

    def hints(self, cx, S, c):
        """Ghost lemmas after a normal return (assert-then-assume; each is an obligation)."""
        gn, gr = cx.ghost.get('nonzero'), cx.ghost.get('repeat')
        if gn is None or gr is None or gr['result'] is not c or gr['a'] is not gn['nz']:
            return
        ind, L, n = S.indices, S.L, S.indices.n
        nz, rank = gn['nz'], gn['rank']
        m, off, seg, cnt = nz.n, gr['off'], gr['seg'], gr['counts_sel']
        stf, D_st, Pc, F_diff, F_nz = self.ghosts(cx, S)
        Sf = z3.Function(cx.name('prefixsum'), z3.IntSort(), z3.IntSort())
        D_S = z3.And(Sf(0) == 0, qforall(1, lambda k: z3.Implies(z3.And(0 <= k, k <= n), Sf(k + 1) == Sf(k) + stf(k))))
        cx.assume(D_S, axiom='ghost definition (recursion over 0..len(step)): S(0) = 0, S(k+1) = S(k) + step(k), the prefix sums of step')
        F_closed = npext.induct(cx, 'prefix-sum-closed-form', lambda k: Sf(k) == Pc(k), 0, n + 1, using=[D_S, F_diff])
        zeros = lambda a, b: qforall(1, lambda t: z3.Implies(z3.And(a <= t, t < b), stf(t) == 0))
        F_zr = npext.induct(cx, 'zero-run', lambda b: qforall(1, lambda a: z3.Implies(z3.And(0 <= a, a <= b, zeros(a, b)), Sf(b) == Sf(a))), 0, n + 1, using=[D_S])
        F_cnt = npext.lemma(cx, 'counts-are-steps-at-nz', qforall(1, lambda j: z3.Implies(z3.And(0 <= j, j < m), cnt(j) == stf(nz.sel(j)))), using=[D_st, gn['ax_range']])
        nzx = lambda j: z3.If(j < m, nz.sel(j), n + 1)
        F_gap0 = npext.lemma(cx, 'no-step-before-first-nonzero', qforall(1, lambda t: z3.Implies(z3.And(0 <= t, t < nzx(z3.IntVal(0))), stf(t) == 0)), using=[F_nz, gn['ax_mono']])
        F_gap = npext.lemma(cx, 'no-step-between-consecutive-nonzeros', qforall(2, lambda j, t: z3.Implies(z3.And(0 <= j, j < m, nz.sel(j) < t, t < nzx(j + 1)), stf(t) == 0)), using=[F_nz, gn['ax_mono']])
        F_across0 = npext.lemma(cx, 'prefix-sum-before-first-nonzero', Sf(nzx(z3.IntVal(0))) == 0, using=[F_gap0, F_zr, F_nz, D_S])
        F_across1 = npext.lemma(cx, 'prefix-sum-across-a-gap', qforall(1, lambda j: z3.Implies(z3.And(0 <= j, j < m), Sf(nzx(j + 1)) == Sf(nz.sel(j) + 1))), using=[F_gap, F_zr, F_nz, gn['ax_mono']])
        F_across = z3.And(F_across0, F_across1)
        cx.assume(F_across)
        F_off = npext.induct(cx, 'offsets-are-prefix-sums', lambda j: off(j) == Sf(nzx(j)), 0, m, using=[gr['ax_off'], F_cnt, F_across, D_S, F_nz])
        F_nonneg = npext.lemma(cx, 'steps-nonnegative', qforall(1, lambda k: z3.Implies(z3.And(0 <= k, k <= n), stf(k) >= 0)), using=[gr['ax_nonneg'], F_cnt, F_nz])
        F_adj = npext.lemma(cx, 'indices-monotone', qforall(1, lambda k: z3.Implies(z3.And(0 <= k, k + 1 < n), ind.sel(k) <= ind.sel(k + 1))), using=[F_nonneg, F_diff])
        F_mono = qforall(2, lambda i, j: z3.Implies(z3.And(0 <= i, i <= j, j < n), ind.sel(i) <= ind.sel(j)))
        cx.assume(z3.Implies(F_adj, F_mono), axiom='L-MONO: adjacent-monotone => monotone (lemmas/LMono.lean)')
        cx.assume(F_mono)  # modus ponens of the two facts above
        F_bounds = npext.lemma(cx, 'indices-in-bounds', qforall(1, lambda k: z3.Implies(z3.And(0 <= k, k < n), z3.And(0 <= ind.sel(k), ind.sel(k) < L))), using=[F_mono])
        F_ip = npext.lemma(cx, 'insertion-point-form', z3.And(c.n == L + 1, qforall(1, lambda i: z3.Implies(z3.And(0 <= i, i <= L), z3.And(0 <= c.sel(i), c.sel(i) <= n, Pc(c.sel(i)) <= i, i < Pc(c.sel(i) + 1))))),
                            using=[gr['ax_seg'], gr['ax_off'], F_off, F_cnt, D_S, F_nz, F_closed])
        S.post = post_clauses(ind, L, c) + [('accepts-only-valid-input', S.valid)]
        for name, f in S.post:
            npext.lemma(cx, 'post:' + name, f, using=[F_ip, F_mono, F_bounds])

    def ensures(self, cx, S, result):
        if not (isinstance(result, Vec) and result.kind == 'int'):
            raise Unsupported('compress_indices returned %r' % (result,))
        # after the lemma chain the clauses are literally among the hypotheses (same formula objects)
        return S.post or (post_clauses(S.indices, S.L, result) + [('accepts-only-valid-input', S.valid)])

    def raises(self, cx, S, e):
        if e.exc.split(':')[0] != 'ValueError':
            return False
        return z3.Not(S.valid)

    def replay(self, ob):
        import json, os
        here = os.path.dirname(os.path.dirname(os.path.abspath(__file__)))
        return ("import sys; sys.path.insert(0, %r)\nfrom native import c05\nc05.run_compress(%s, %r)\n"
                % (here, json.dumps({k: v for k, v in (ob.model or {}).items() if not k.startswith('k!')}), ob.clause))


TRUSTED = ['numpy externals as exact axioms (pyvc/npext.py): a[i, ...] 0-d views, numpy.add/subtract with out= writing through slice views, ndarray.nonzero(), numpy.repeat '
           '(block offsets off[0] = 0, off[j+1] = off[j] + counts[j]; ValueError iff a negative count), fancy take a[idx]',
           'induction over an integer interval (base + step obligations discharged by z3; the principle itself is trusted), lemma L-MONO']
ASSUMPTIONS = ['compress_indices: indices is a 1-D integer array, length >= 0 (a number of rows); int64 arithmetic as mathematical integers (the dtype= arguments of the ufunc calls are only checked to name the integer type)']
