"""C19 -- parse_power of expression_v2._Parser (BOUNDED structure; characters, lengths and yes/no facts symbolic).

At most one `^`; no whitespace directly before or after it; the base is a parse_item (allow_number passed through); the exponent is either exactly one
parenthesised expression `( ... )` (parse_expression of the inside) or a text starting with a digit or `-` (parse_signed_int), anything else is an
ExpressionSyntaxError; the exponent must have dimension zero; summed indices of base and exponent must not collide with each other nor with the free
indices of the base; result = power(base, exponent) with the indices and shape of the base.
"""
import z3
from pyvc.contract import State
from pyvc.values import SInt, SBool, SOpaque, Unsupported, PyRaise, zint, zbool
from pyvc.small import IdxStr
from contracts.c19_text import Char, MOD, OPEN, CLOSE
from contracts.c19_parser import ASub, ParseContract, R_holds, set_equals, eq_any, Matcher
from contracts.c19_items import IWorld, CRes


class ParsePower(ParseContract):
    fn = MOD + ':_Parser.parse_power'
    bounded = 'base rank <= 2, exponent rank <= 1, one summed index each; characters, lengths and facts about the text symbolic'

    def __init__(self, nparts, rb=0, re=0):
        self.nparts, self.rb, self.re = nparts, rb, re
        self.label = 'parts=%d,base rank=%d,exponent rank=%d' % (nparts, rb, re)
        self.expect_return = nparts <= 2 and not re

    def setup(self, cx):
        P = IWorld(cx, False)
        S = State(P=P)
        S.allow = cx.bool('allow_number')
        S.base, S.exp, S.int = CRes(cx, 'base', self.rb), CRes(cx, 'exponent', self.re), CRes(cx, 'int', 0, 0)
        s = ASub(P, 's')
        st = s.derived(None, 'trim')
        pieces = [ASub(P, 'piece%d' % k) for k in range(self.nparts)]
        S.ws_before, S.ws_after = cx.bool('space-before-^'), cx.bool('space-after-^')
        S.first = cx.int('first-character-of-exponent')
        S.isint = cx.bool('exponent-text-is-an-int')
        S.oc, S.cc = cx.int('opening-bracket'), cx.int('closing-bracket')
        cx.assume(z3.Or(*[S.oc == o for o in OPEN]))
        cx.assume(z3.Or(*[S.cc == c for c in CLOSE]))
        H = dict(head=cx.bool('text-before-bracket'), open=cx.bool('has-opening-bracket'), close=cx.bool('has-closing-bracket'), tail=cx.bool('text-after-closing-bracket'),
                 exp=cx.bool('exponent-text-nonempty'))
        cx.assume(z3.And(z3.Implies(H['close'], H['open']), z3.Implies(H['tail'], H['close']), z3.Implies(z3.Or(H['head'], H['open']), H['exp'])),
                  axiom='contract of partition_scope (c19_scope): closing bracket only after an opening one, tail only after a closing one, pieces of an empty text are empty')
        S.H = H
        if self.nparts > 1:
            pieces[1].nonempty = H['exp']
        ps = dict(head=ASub(P, 'head', nonempty=H['head']), open=ASub(P, 'open', nonempty=H['open']), scope=ASub(P, 'scope'),
                  close=ASub(P, 'close', nonempty=H['close']), tail=ASub(P, 'tail', nonempty=H['tail']))
        S.ps = ps
        firstsub = ASub(P, 'first', nonempty=True)
        S.split_args = None

        def split(ctx, sub, *matchers):
            S.split_args = (sub, matchers)
            return list(pieces)

        def ends_with(ctx, sub, lit):
            if sub is pieces[0] and lit == ' ':
                return SBool(S.ws_before)
            raise Unsupported('ends_with(%r) on %s' % (lit, sub.tag))

        def starts_with(ctx, sub, lit):
            if self.nparts > 1 and sub is pieces[1] and lit == ' ':
                return SBool(S.ws_after)
            raise Unsupported('starts_with(%r) on %s' % (lit, sub.tag))

        def getitem(ctx, sub, idx):
            if isinstance(idx, slice):
                return ASub(P, sub.tag + '[slice]')  # only used to point at a character in an error message
            if self.nparts > 1 and sub is pieces[1] and isinstance(idx, int) and idx == 0:
                if not ctx.branch(zbool(sub.truth(ctx))):
                    raise PyRaise('AssertionError', note='_Substring.__getitem__: 0 <= item < len(self)')
                return firstsub
            raise Unsupported('subscript %r of %s' % (idx, sub.tag))

        def sub_str(ctx, sub):
            if sub is firstsub:
                return Char(S.first)
            for nm, code in (('open', S.oc), ('close', S.cc)):
                if sub is ps[nm]:
                    return Char(code) if ctx.branch(zbool(sub.truth(ctx))) else ''
            return SOpaque('str')

        def partition_scope(ctx, sub):
            if not (self.nparts > 1 and sub is pieces[1]):
                raise Unsupported('partition_scope on %s' % sub.tag)
            return (ps['head'], ps['open'], ps['scope'], ps['close'], ps['tail'])
        P.sub_methods.update({'split': split, 'ends_with': ends_with, 'starts_with': starts_with, '__getitem__': getitem, '__str__': sub_str, 'partition_scope': partition_scope})

        def parse_item(ctx, me, sub, allow_number):
            P.log.append(('parse_item', sub is pieces[0], allow_number))
            return S.base.value()

        def parse_expression(ctx, me, sub):
            P.log.append(('parse_expression', sub is ps['scope']))
            return S.exp.value()

        def parse_signed_int(ctx, me, sub):
            P.log.append(('parse_signed_int', self.nparts > 1 and sub is pieces[1]))
            if ctx.branch(S.isint):
                return S.int.value()
            raise PyRaise('ExpressionSyntaxError', note='mocked parse_signed_int')
        P.parser.methods.update(parse_item=parse_item, parse_expression=parse_expression, parse_signed_int=parse_signed_int)
        S.s, S.st, S.pieces = s, st, pieces
        S.args = (P.parser, s)
        S.allow_v = SBool(S.allow)
        S.kwargs = {'allow_number': S.allow_v}
        S.globals = P.globals
        return S

    def scoped(self, S):
        H = S.H
        return z3.And(z3.Not(H['head']), z3.Not(H['tail']), H['open'], S.oc == 40, H['close'], S.cc == 41)

    def intlike(self, S):
        return z3.And(S.H['exp'], z3.Or(z3.And(48 <= S.first, S.first <= 57), S.first == 45))

    def must_reject(self, cx, S):
        if self.nparts > 2:
            return z3.BoolVal(True)
        if self.nparts == 1:
            return z3.BoolVal(False)
        sc, il = self.scoped(S), self.intlike(S)
        collide = z3.Or(*([eq_any(x, S.exp.summed) for x in S.base.summed] + [eq_any(x, S.exp.summed) for x in S.base.chars]))
        return z3.Or(S.ws_before, S.ws_after, z3.And(z3.Not(sc), z3.Not(il)), z3.And(z3.Not(sc), il, z3.Not(S.isint)),
                     z3.And(sc, z3.BoolVal(self.re > 0)), z3.And(sc, collide))

    def ensures(self, cx, S, result):
        P = S.P
        arr, shape, indices, summed = result
        out = [('splits-the-trimmed-text-at-^', z3.BoolVal(S.split_args is not None and S.split_args[0] is S.st and tuple(S.split_args[1]) == (Matcher('^'),))),
               ('accepted-only-if-valid', z3.Not(self.must_reject(cx, S)))]
        same_free = isinstance(indices, IdxStr) and list(indices.chars) == S.base.chars and list(shape) == S.base.lens
        base_call = bool(P.log) and P.log[0][:2] == ('parse_item', True) and P.log[0][2] is S.allow_v
        out.append(('base-parsed-as-item-with-allow_number-passed-through', z3.BoolVal(base_call)))
        if self.nparts == 1:
            out.append(('base-returned-as-is', z3.BoolVal(arr is S.base.array and same_free and not P.backend.log and len(P.log) == 1)))
            out.append(('summed-is-the-union', set_equals(summed, [S.base.summed])))
        else:
            pw = P.backend.calls('power')
            ok = len(pw) == 1 and len(P.backend.log) == 1 and pw[0][0][0] is S.base.array and arr is pw[0][1] and len(P.log) == 2
            out.append(('power(base, exponent)', z3.BoolVal(bool(ok))))
            if ok:
                e = pw[0][0][1]
                if e is S.exp.array:
                    out.append(('exponent-is-the-parenthesised-expression', z3.And(self.scoped(S), z3.BoolVal(P.log[1] == ('parse_expression', True)))))
                    out.append(('summed-is-the-union', set_equals(summed, [S.base.summed, S.exp.summed])))
                elif e is S.int.array:
                    out.append(('exponent-is-a-signed-int', z3.And(z3.Not(self.scoped(S)), self.intlike(S), z3.BoolVal(P.log[1] == ('parse_signed_int', True)))))
                    out.append(('summed-is-the-union', set_equals(summed, [S.base.summed])))
                else:
                    out.append(('exponent-is-a-parsed-value', z3.BoolVal(False)))
            out.append(('free-indices-are-those-of-the-base', z3.BoolVal(same_free)))
        out.append(('result-invariant-R', R_holds(shape, indices, summed)))
        return out


def contracts():
    return [ParsePower(1, 2), ParsePower(3), ParsePower(2, 0, 0), ParsePower(2, 2, 0), ParsePower(2, 1, 1)]


TRUSTED = []
ASSUMPTIONS = ['parse_power: partition_scope by its contract (c19_scope.PartitionScope) as in parse_item; whitespace next to `^` and the first character of the exponent are symbolic facts about the text']
NOT_COVERED = []
