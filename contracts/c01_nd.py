"""C01 (n-d kernel) -- axis-moving swap protocols against a small denotational n-d array semantics.

An `ND` node is an array of CONCRETE rank (<= 4) with SYMBOLIC axis lengths and a symbolic element function
    elem : index tuple -> Int
(base arrays: one uninterpreted z3 function per array).  The node CONSTRUCTORS of evaluable.py (Transpose,
TakeDiag, Ravel, Unravel, InsertAxis, Take, Power, Sign, ...) are interpreted by the numpy meaning of their
`evalf` / `_compile_expression` (table `CONSTRUCTORS` below, cross-checked natively against the real nodes in
native/c01.py `axioms()`); everything else -- the rule body under contract and every helper it calls
(`_takediag`, `_take`, `unravel`, `ravel`, `insertaxis`, `appendaxes`, `transpose`, `Transpose._end`,
`Transpose._axes_for`, `numeric.normdim`, ...) -- is the REAL code, re-read from the repository on every run.

Contract of a swap rule  X._takediag(a1, a2)  /  X._take(index, axis)  /  X._power(n) / ... :
  if the rule returns a replacement r then
     shape:  r has the rank and the axis lengths the protocol promises (for all lengths), and
     value:  for every in-range index tuple idx,  r[idx] == spec(X)[idx]   (e.g. takediag: X[.., k, .., k, ..]),
     wellformed: every node the rule builds satisfies the constructor's evaluation-time requirement
                 (TakeDiag over equal lengths, Unravel with sh1*sh2 == length).
A rule that declines (None) claims nothing.  Child nodes obey the same protocol contract (modular; the whole-DAG
statement is the usual structural induction).  All obligations are `bounded`: rank and axis positions are enumerated.
"""
import itertools
import z3
from pyvc.contract import Contract, State
from pyvc.values import SObj, SOpaque, SBool, PyRaise, Unsupported, is_intlike, zint
from pyvc.ops import ClassRef, Builtin
from pyvc import ops, extract
from contracts.C01 import IR
from contracts.C06 import DType

PROP = 'C01'
MODULE = 'evaluable'
INT = DType(isint=z3.BoolVal(True), isbool=z3.BoolVal(False))


def lv(x):
    """z3 value of an axis length (IR scalar or python int)"""
    return x.val if isinstance(x, IR) else zint(x)


class ND(SObj):
    """Array node of concrete rank with symbolic lengths `shape` (IR scalars) and element function elem(cx, idx)."""

    def __init__(self, cls, lens, elem, attrs=None, env=None):
        a = dict(ndim=len(lens), shape=tuple(lens), dtype=INT, _diagonals=(), _inflations=())
        a.update(attrs or {})
        super().__init__(cls, attrs=a, classes=(cls, 'Array'))
        self.elem = elem
        self.env = env  # the contract's Env (real-code fallback for attributes outside the denotational model)

    @property
    def lens(self):
        return self.attrs['shape']

    def getattr(self, ctx, name):
        if name in self.attrs or name in self.methods:
            return super().getattr(ctx, name)
        # not part of the denotational model: the REAL attribute of that class (property or method)
        if self.env is not None and self.clsname in CONSTRUCTORS:
            return self.env.real_attr(ctx, self, name)
        raise Unsupported('attribute %s.%s is not declared in the n-d model' % (self.clsname, name))

    def binop(self, ctx, op, other, reflected):
        return NotImplemented

    def __repr__(self):
        return 'ND<%s rank %d>' % (self.clsname, self.attrs['ndim'])


def divmod_skolem(cx, k, n):
    """(q, r) with k == q*n + r, 0 <= r < n   (division algorithm; exists uniquely for n > 0)."""
    cache = cx.ghost.setdefault('divmod', {})
    key = (k.get_id(), n.get_id())
    if key not in cache:
        q, r = cx.int('q', report=False), cx.int('r', report=False)
        cx.assume(z3.Implies(n > 0, z3.And(k == q * n + r, 0 <= r, r < n)),
                  axiom='division algorithm: for n > 0 every k has q, r with k == q*n + r, 0 <= r < n (definition of // and %; numpy reshape is row-major)')
        cache[key] = (q, r)
        for a, b, m in cx.ghost.get('rowmajor', []):
            _ldivmod(cx, k, n, q, r, a, b, m)
        cx.ghost.setdefault('divs', []).append((k, n, q, r))
    return cache[key]


def _ldivmod(cx, k, n, q, r, a, b, m):
    cx.assume(z3.Implies(z3.And(n == m, n > 0, k == a * m + b, 0 <= b, b < m), z3.And(q == a, r == b)),
              axiom='L-DIVMOD: divmod(a*n + b, n) = (a, b) for 0 <= b < n (lemma library, DESIGN 2.6)')


def rowmajor(cx, a, b, n):
    """a*n + b, registered so that later // and % by n see the L-DIVMOD instance"""
    lst = cx.ghost.setdefault('rowmajor', [])
    lst.append((a, b, n))
    for k, m, q, r in cx.ghost.get('divs', []):
        _ldivmod(cx, k, m, q, r, a, b, n)
    return a * n + b


# ---------------------------------------------------------------------------------------------------------------------
# Denotations of the node constructors (numpy meaning of evalf); requirements that evaluation would enforce
# are emitted as `wellformed:` obligations at the construction site.


def _isnd(x):
    return isinstance(x, ND)


def c_Transpose(env):
    def construct(ctx, func, axes):
        n = func.attrs['ndim']
        if not (_isnd(func) and isinstance(axes, tuple) and all(isinstance(a, int) and not isinstance(a, bool) for a in axes)):
            raise PyRaise('AssertionError', note='Transpose.__post_init__: axes=%r' % (axes,))
        if sorted(axes) != list(range(n)) or axes == tuple(range(n)):
            raise PyRaise('AssertionError', note='Transpose.__post_init__: axes=%r is not a non-trivial permutation of rank %d' % (axes, n))
        sh = func.lens

        def elem(cx, idx):
            src = [None] * n
            for i, a in enumerate(axes):
                src[a] = idx[i]
            return func.elem(cx, tuple(src))
        return ND('Transpose', [sh[a] for a in axes], elem, attrs=dict(func=func, axes=axes), env=env)
    return construct


def c_TakeDiag(env):
    def construct(ctx, func):
        if not (_isnd(func) and func.attrs['ndim'] >= 2):
            raise PyRaise('AssertionError', note='TakeDiag.__post_init__')
        sh = func.lens
        ctx.oblige('wellformed:TakeDiag-over-equal-lengths', lv(sh[-1]) == lv(sh[-2]), kind='ensures')
        return ND('TakeDiag', sh[:-1], lambda cx, idx: func.elem(cx, tuple(idx) + (idx[-1],)), attrs=dict(func=func), env=env)
    return construct


def c_Ravel(env):
    def construct(ctx, func):
        if not (_isnd(func) and func.attrs['ndim'] >= 2):
            raise PyRaise('AssertionError', note='Ravel.__post_init__')
        sh = func.lens
        m, n = sh[-2], sh[-1]

        def elem(cx, idx):
            q, r = divmod_skolem(cx, idx[-1], lv(n))
            return func.elem(cx, tuple(idx[:-1]) + (q, r))
        return ND('Ravel', tuple(sh[:-2]) + (IR(ctx, 'ravelled-length', lv(m) * lv(n)),), elem, attrs=dict(func=func), env=env)
    return construct


def c_Unravel(env):
    def construct(ctx, func, sh1, sh2):
        if not (_isnd(func) and func.attrs['ndim'] >= 1 and isinstance(sh1, IR) and isinstance(sh2, IR)):
            raise PyRaise('AssertionError', note='Unravel.__post_init__')
        sh = func.lens
        ctx.oblige('wellformed:Unravel-lengths-multiply-to-the-axis', lv(sh[-1]) == lv(sh1) * lv(sh2), kind='ensures')

        def elem(cx, idx):
            return func.elem(cx, tuple(idx[:-2]) + (rowmajor(cx, idx[-2], idx[-1], lv(sh2)),))
        return ND('Unravel', tuple(sh[:-1]) + (sh1, sh2), elem, attrs=dict(func=func, sh1=sh1, sh2=sh2), env=env)
    return construct


def c_InsertAxis(env):
    def construct(ctx, func, length):
        if not (_isnd(func) and isinstance(length, IR)):
            raise PyRaise('AssertionError', note='InsertAxis.__post_init__')
        return ND('InsertAxis', tuple(func.lens) + (length,), lambda cx, idx: func.elem(cx, tuple(idx[:-1])), attrs=dict(func=func, length=length), env=env)
    return construct


def c_Take(env):
    def construct(ctx, func, indices):
        if not (_isnd(func) and func.attrs['ndim'] >= 1 and _isnd(indices)):
            raise PyRaise('AssertionError', note='Take.__post_init__')
        nf = func.attrs['ndim'] - 1
        return ND('Take', tuple(func.lens[:-1]) + tuple(indices.lens),
                  lambda cx, idx: func.elem(cx, tuple(idx[:nf]) + (indices.elem(cx, tuple(idx[nf:])),)), attrs=dict(func=func, indices=indices), env=env)
    return construct


def _pointwise2(cls, f, names):
    def c(env):
        def construct(ctx, a, b):
            if not (_isnd(a) and _isnd(b) and a.attrs['ndim'] == b.attrs['ndim']):
                raise PyRaise('AssertionError', note=cls + '.__post_init__')
            for x, y in zip(a.lens, b.lens):
                ctx.oblige('wellformed:%s-operands-have-equal-shapes' % cls, lv(x) == lv(y), kind='ensures')
            return ND(cls, a.lens, lambda cx, idx: f(a.elem(cx, idx), b.elem(cx, idx)), attrs={names[0]: a, names[1]: b}, env=env)
        return construct
    return c


def _pointwise1(cls, f, name):
    def c(env):
        def construct(ctx, a):
            if not _isnd(a):
                raise PyRaise('AssertionError', note=cls + '.__post_init__')
            return ND(cls, a.lens, lambda cx, idx: f(a.elem(cx, idx)), attrs={name: a}, env=env)
        return construct
    return c


def c_Inflate(env):
    def construct(ctx, func, dofmap, length):
        if not (_isnd(func) and _isnd(dofmap) and isinstance(length, IR)):
            raise PyRaise('AssertionError', note='Inflate.__post_init__')
        nd_, nf = dofmap.attrs['ndim'], func.attrs['ndim']
        if nd_ > nf:
            raise PyRaise('AssertionError', note='Inflate: dofmap rank exceeds func rank')
        dims = []
        for l in dofmap.lens:
            v = z3.simplify(lv(l))
            if not z3.is_int_value(v):
                raise Unsupported('Inflate with a dofmap of symbolic length (the scatter-sum is modelled for concrete dofmap shapes only)')
            dims.append(v.as_long())
        for x, y in zip(func.lens[nf - nd_:], dofmap.lens):
            ctx.oblige('wellformed:Inflate-dofmap-shape-matches-trailing-axes', lv(x) == lv(y), kind='ensures')
        positions = list(itertools.product(*[range(d) for d in dims]))

        def elem(cx, idx):
            k = idx[-1]
            tot = z3.IntVal(0)
            for p in positions:
                pz = tuple(z3.IntVal(i) for i in p)
                tot = tot + z3.If(dofmap.elem(cx, pz) == k, func.elem(cx, tuple(idx[:-1]) + pz), 0)
            return tot
        return ND('Inflate', tuple(func.lens[:nf - nd_]) + (length,), elem, attrs=dict(func=func, dofmap=dofmap, length=length), env=env)
    return construct


POW = z3.Function('numpy.power', z3.IntSort(), z3.IntSort(), z3.IntSort())
SIGN = lambda x: z3.If(x > 0, 1, z3.If(x < 0, -1, 0))

CONSTRUCTORS = {
    'Transpose': c_Transpose, 'TakeDiag': c_TakeDiag, 'Ravel': c_Ravel, 'Unravel': c_Unravel, 'InsertAxis': c_InsertAxis, 'Take': c_Take,
    'Inflate': c_Inflate,
    'Power': _pointwise2('Power', lambda x, p: POW(x, p), ('func', 'power')),
    'Sign': _pointwise1('Sign', SIGN, 'func'),
    'Negative': _pointwise1('Negative', lambda x: -x, 'arg'),
    'Absolute': _pointwise1('Absolute', lambda x: z3.If(x < 0, -x, x), 'arg'),
}

# helpers whose REAL bodies are executed in line (module-level functions of evaluable.py)
REAL_HELPERS = ['_takediag', 'takediag', '_take', 'unravel', 'ravel', 'insertaxis', 'appendaxes', 'prependaxes', 'transpose', '_inflate', 'diagonalize', 'get']


class Env:
    """Global names of evaluable.py as seen by the rule bodies."""

    def __init__(self, S):
        self.S = S

    def call(self, ref, *a, **k):
        return self.S.call(ref, *a, **k)

    def real_attr(self, ctx, obj, name):
        ref = '%s:%s.%s' % (MODULE, obj.clsname, name)
        try:
            fn = extract.get(ref)
        except extract.NotFound:
            raise Unsupported('attribute %s.%s: neither in the n-d model nor defined in the class body' % (obj.clsname, name))
        decos = [ast_name(d) for d in fn.node.decorator_list]
        if 'property' in decos or 'cached_property' in decos:
            return self.call(ref, obj)
        return _Bound(self, ref, obj)

    def globals(self):
        g = {}
        for name, mk in CONSTRUCTORS.items():
            attrs = {}
            if name == 'Transpose':
                attrs['to_end'] = lambda ctx, array, *axes: self.call('evaluable:Transpose._end', array, *axes, post=Builtin('tuple'))
                attrs['from_end'] = lambda ctx, array, *axes: self.call('evaluable:Transpose._end', array, *axes, post=untake)
            g[name] = ClassRef(name, construct=mk(self), attrs=attrs)
        g['Array'] = ClassRef('Array')
        for h in REAL_HELPERS:
            g[h] = (lambda h: lambda ctx, *a, **k: self.call('evaluable:' + h, *a, **k))(h)
        g['asarray'] = asarray
        g['numeric'] = _Numeric(self)
        g['util'] = _Util()
        g['isint'] = lambda ctx, x: isinstance(x, int) and not isinstance(x, bool)  # numeric.isint (used by the real numeric.normdim body)
        g['_isindex'] = lambda ctx, x: isinstance(x, IR)
        g['_certainly_different'] = lambda ctx, a, b: False  # "not CERTAINLY different": a syntactic test that never fires on symbolic lengths
        g['_certainly_equal'] = certainly_equal
        g['_any_certainly_different'] = lambda ctx, a, b: False
        g['_all_certainly_equal'] = lambda ctx, a, b: len(a) == len(b) and all(certainly_equal(ctx, x, y) for x, y in zip(a, b))
        return g


def certainly_equal(ctx, a, b):
    # _certainly_equal compares simplified forms structurally: true only for the SAME length node (sound direction:
    # a rule may rely on equality only when this returns True)
    return a is b


def ast_name(d):
    import ast
    if isinstance(d, ast.Name):
        return d.id
    if isinstance(d, ast.Attribute):
        return d.attr
    return ''


class _Bound(SOpaque):
    def __init__(self, env, ref, obj):
        super().__init__('bound:' + ref)
        self.env, self.ref, self.obj = env, ref, obj

    def call(self, ctx, args, kwargs):
        return self.env.call(self.ref, self.obj, *args, **kwargs)


def asarray(ctx, x):
    if isinstance(x, (ND, IR)):
        return x  # Array.as_evaluable_array is the array itself
    raise Unsupported('asarray of %r' % (x,))


def untake(ctx, indices, items=None):
    """util.untake on concrete ints (inverse permutation)"""
    indices = list(indices)
    if items is not None or sorted(indices) != list(range(len(indices))):
        raise Unsupported('untake of %r' % (indices,))
    out = [None] * len(indices)
    for i, a in enumerate(indices):
        out[a] = i
    return tuple(out)


class _Numeric:
    def __init__(self, env):
        self.env = env

    def sym_getattr(self, ctx, name):
        if name == 'normdim':
            return lambda ctx, ndim, n: self.env.call('numeric:normdim', ndim, n)
        if name == 'isint':
            return lambda ctx, x: isinstance(x, int) and not isinstance(x, bool)
        raise Unsupported('numeric.' + name)


class _Util:
    def sym_getattr(self, ctx, name):
        if name == 'product':
            def product(ctx, seq):
                seq = list(ops.iterate(ctx, seq))
                r = seq[0]
                for x in seq[1:]:
                    r = ops.binop(ctx, '*', r, x)
                return r
            return product
        if name == 'untake':
            return untake
        raise Unsupported('util.' + name)


# ---------------------------------------------------------------------------------------------------------------------
# Protocol specifications (what the swap methods promise), used both as postcondition and as the contract of children.

def spec_takediag(X, a1, a2):
    n = X.attrs['ndim']
    sh = X.lens
    keep = [i for i in range(n) if i not in (a1, a2)]

    def elem(cx, idx):
        full = [None] * n
        for i, j in zip(keep, idx[:-1]):
            full[i] = j
        full[a1] = full[a2] = idx[-1]
        return X.elem(cx, tuple(full))
    return [sh[i] for i in keep] + [sh[a1]], elem


def spec_take(X, I, axis):
    r = I.attrs['ndim']
    sh = X.lens

    def elem(cx, idx):
        return X.elem(cx, tuple(idx[:axis]) + (I.elem(cx, tuple(idx[axis:axis + r])),) + tuple(idx[axis + r:]))
    return list(sh[:axis]) + list(I.lens) + list(sh[axis + 1:]), elem


def spec_unravel(X, axis, shape):
    sh = X.lens
    s2 = lv(shape[1])

    def elem(cx, idx):
        return X.elem(cx, tuple(idx[:axis]) + (rowmajor(cx, idx[axis], idx[axis + 1], s2),) + tuple(idx[axis + 2:]))
    return list(sh[:axis]) + list(shape) + list(sh[axis + 1:]), elem


def spec_pointwise(X, others, f):
    def elem(cx, idx):
        return f(X.elem(cx, idx), *[o.elem(cx, idx) for o in others])
    return list(X.lens), elem


def base(cx, name, rank, env, lens=None, child_protocol=True):
    """An arbitrary array of the given rank: uninterpreted elements, lengths >= 0."""
    if lens is None:
        lens = []
        for i in range(rank):
            v = cx.int('%s.shape%d' % (name, i))
            cx.assume(v >= 0)
            lens.append(IR(cx, '%s.shape%d' % (name, i), v))
    F = z3.Function(name, *([z3.IntSort()] * rank), z3.IntSort())
    nd = ND('Array', lens, lambda cx_, idx: F(*idx) if rank else F(), env=env)
    nd.fn = F
    nd.name = name
    if child_protocol:
        def declines(ctx, what):
            return ctx.branch(ctx.bool('%s.%s declines' % (name, what)))

        def _takediag(ctx, s, a1, a2):
            if declines(ctx, '_takediag'):
                return None
            lens_, elem = spec_takediag(s, a1, a2)
            return ND('Array', lens_, elem, env=env)

        def _take(ctx, s, index, axis):
            if declines(ctx, '_take'):
                return None
            lens_, elem = spec_take(s, index, axis)
            return ND('Array', lens_, elem, env=env)

        def _unravel(ctx, s, axis, shape):
            if declines(ctx, '_unravel'):
                return None
            lens_, elem = spec_unravel(s, axis, shape)
            return ND('Array', lens_, elem, env=env)
        nd.methods.update(_takediag=_takediag, _take=_take, _unravel=_unravel)
    return nd


def index_array(cx, name, rank, env, upper):
    """An integer index array whose elements lie in [0, upper) (the _take protocol's precondition)."""
    I = base(cx, name, rank, env, child_protocol=False)
    raw = I.elem

    def elem(cx_, idx):
        t = raw(cx_, idx)
        inb = z3.And([z3.And(0 <= j, j < lv(l)) for j, l in zip(idx, I.lens)]) if rank else z3.BoolVal(True)
        cx_.assume(z3.Implies(inb, z3.And(0 <= t, t < upper)))
        return t
    I.elem = elem
    return I


class SwapRule(Contract):
    """Base: one swap method of one node class in one concrete configuration (rank, axes)."""
    prop = PROP
    cls = None
    method = None
    split_conjunctions = False

    def __init__(self, cfg):
        self.cfg = cfg
        self.fn = '%s:%s.%s' % (MODULE, self.cls, self.method)
        self.label = self.cfgtext()
        self.bounded = 'n-d model, concrete configuration: ' + self.cfgtext()

    def cfgtext(self):
        return ','.join('%s=%s' % (k, v) for k, v in self.cfg.items())

    # to override: build(cx, env) -> (X, args, spec) with spec = (lens, elem)
    def setup(self, cx):
        S = State()
        env = Env(S)
        S.env = env
        X, args, spec = self.build(cx, env)
        S.X, S.args, S.spec = X, args, spec
        S.globals = env.globals()
        return S

    def body(self, cx, S, call):
        S.call = call
        return call(self.fn, S.X, *S.args)

    def ensures(self, cx, S, result):
        if result is None:
            return [('declines', z3.BoolVal(True))]
        if not isinstance(result, ND):
            raise Unsupported('rule returned %r' % (result,))
        lens, elem = S.spec
        if result.attrs['ndim'] != len(lens):
            return [('rank', z3.BoolVal(False))]
        out = [('shape', z3.And([lv(a) == lv(b) for a, b in zip(result.lens, lens)]) if lens else z3.BoolVal(True))]
        idx = tuple(cx.int('idx%d' % i) for i in range(len(lens)))
        for j, l in zip(idx, lens):
            cx.assume(z3.And(0 <= j, j < lv(l)))
        want = elem(cx, idx)
        got = result.elem(cx, idx)
        out.append(('value', got == want))
        return out

    def raises(self, cx, S, e):
        return False

    def replay(self, ob):
        import json, os
        here = os.path.dirname(os.path.dirname(os.path.abspath(__file__)))
        model = {k: v for k, v in ob.model.items() if not k.startswith('k!') and len(str(v)) < 40}
        return ("import sys; sys.path.insert(0, %r)\nfrom native import c01\nc01.run_nd(%r, %r, %s, %s)\n"
                % (here, self.cls, self.method, json.dumps(self.cfg), json.dumps(model)))


def equal_lengths(cx, X, a1, a2):
    cx.assume(lv(X.lens[a1]) == lv(X.lens[a2]))


class RavelTakediag(SwapRule):
    cls, method = 'Ravel', '_takediag'

    def build(self, cx, env):
        rank, a1, a2 = self.cfg['rank'], self.cfg['axis1'], self.cfg['axis2']
        F = base(cx, 'F', rank + 1, env)
        X = CONSTRUCTORS['Ravel'](env)(cx, F)
        equal_lengths(cx, X, a1, a2)
        return X, (a1, a2), spec_takediag(X, a1, a2)


class TransposeTakediag(SwapRule):
    cls, method = 'Transpose', '_takediag'

    def build(self, cx, env):
        axes, a1, a2 = tuple(self.cfg['axes']), self.cfg['axis1'], self.cfg['axis2']
        F = base(cx, 'F', len(axes), env)
        X = CONSTRUCTORS['Transpose'](env)(cx, F, axes)
        equal_lengths(cx, X, a1, a2)
        return X, (a1, a2), spec_takediag(X, a1, a2)


class InsertAxisTakediag(SwapRule):
    cls, method = 'InsertAxis', '_takediag'

    def build(self, cx, env):
        rank, a1, a2 = self.cfg['rank'], self.cfg['axis1'], self.cfg['axis2']
        F = base(cx, 'F', rank - 1, env)
        n = cx.int('length')
        cx.assume(n >= 0)
        X = CONSTRUCTORS['InsertAxis'](env)(cx, F, IR(cx, 'length', n))
        equal_lengths(cx, X, a1, a2)
        return X, (a1, a2), spec_takediag(X, a1, a2)


class InsertAxisTake(SwapRule):
    cls, method = 'InsertAxis', '_take'

    def build(self, cx, env):
        rank, axis, ir = self.cfg['rank'], self.cfg['axis'], self.cfg['index_rank']
        F = base(cx, 'F', rank - 1, env)
        n = cx.int('length')
        cx.assume(n >= 0)
        X = CONSTRUCTORS['InsertAxis'](env)(cx, F, IR(cx, 'length', n))
        I = index_array(cx, 'I', ir, env, lv(X.lens[axis]))
        return X, (I, axis), spec_take(X, I, axis)


class TransposeTake(SwapRule):
    cls, method = 'Transpose', '_take'

    def build(self, cx, env):
        axes, axis, ir = tuple(self.cfg['axes']), self.cfg['axis'], self.cfg['index_rank']
        F = base(cx, 'F', len(axes), env)
        X = CONSTRUCTORS['Transpose'](env)(cx, F, axes)
        I = index_array(cx, 'I', ir, env, lv(X.lens[axis]))
        return X, (I, axis), spec_take(X, I, axis)


class RavelTake(SwapRule):
    cls, method = 'Ravel', '_take'

    def build(self, cx, env):
        rank, axis, ir = self.cfg['rank'], self.cfg['axis'], self.cfg['index_rank']
        F = base(cx, 'F', rank + 1, env)
        X = CONSTRUCTORS['Ravel'](env)(cx, F)
        I = index_array(cx, 'I', ir, env, lv(X.lens[axis]))
        return X, (I, axis), spec_take(X, I, axis)


def perms(n):
    return [p for p in itertools.permutations(range(n)) if p != tuple(range(n))]


def _len(cx, name):
    n = cx.int(name)
    cx.assume(n >= 0)
    return IR(cx, name, n)


class UnravelTakediag(SwapRule):
    cls, method = 'Unravel', '_takediag'

    def build(self, cx, env):
        rank, a1, a2 = self.cfg['rank'], self.cfg['axis1'], self.cfg['axis2']
        F = base(cx, 'F', rank - 1, env)
        s1, s2 = _len(cx, 'sh1'), _len(cx, 'sh2')
        cx.assume(lv(F.lens[-1]) == lv(s1) * lv(s2))
        X = CONSTRUCTORS['Unravel'](env)(cx, F, s1, s2)
        equal_lengths(cx, X, a1, a2)
        return X, (a1, a2), spec_takediag(X, a1, a2)


class UnravelTake(SwapRule):
    cls, method = 'Unravel', '_take'

    def build(self, cx, env):
        rank, axis, ir = self.cfg['rank'], self.cfg['axis'], self.cfg['index_rank']
        F = base(cx, 'F', rank - 1, env)
        s1, s2 = _len(cx, 'sh1'), _len(cx, 'sh2')
        cx.assume(lv(F.lens[-1]) == lv(s1) * lv(s2))
        X = CONSTRUCTORS['Unravel'](env)(cx, F, s1, s2)
        I = index_array(cx, 'I', ir, env, lv(X.lens[axis]))
        return X, (I, axis), spec_take(X, I, axis)


class _UnravelRule(SwapRule):
    method = '_unravel'

    def build(self, cx, env):
        X = self.node(cx, env)
        axis = self.cfg['axis']
        s1, s2 = _len(cx, 'sh1'), _len(cx, 'sh2')
        cx.assume(lv(X.lens[axis]) == lv(s1) * lv(s2))
        return X, (axis, (s1, s2)), spec_unravel(X, axis, (s1, s2))


class RavelUnravel(_UnravelRule):
    cls = 'Ravel'

    def node(self, cx, env):
        return CONSTRUCTORS['Ravel'](env)(cx, base(cx, 'F', self.cfg['rank'] + 1, env))


class InsertAxisUnravel(_UnravelRule):
    cls = 'InsertAxis'

    def node(self, cx, env):
        return CONSTRUCTORS['InsertAxis'](env)(cx, base(cx, 'F', self.cfg['rank'] - 1, env), _len(cx, 'length'))


class TransposeUnravel(_UnravelRule):
    cls = 'Transpose'

    def node(self, cx, env):
        axes = tuple(self.cfg['axes'])
        return CONSTRUCTORS['Transpose'](env)(cx, base(cx, 'F', len(axes), env), axes)


class _PowerRule(SwapRule):
    method = '_power'

    def build(self, cx, env):
        X = self.node(cx, env)
        N = base(cx, 'N', X.attrs['ndim'], env, lens=list(X.lens), child_protocol=False)
        return X, (N,), spec_pointwise(X, [N], lambda x, p: POW(x, p))


class RavelPower(_PowerRule, RavelUnravel):
    method = '_power'


class TransposePower(_PowerRule, TransposeUnravel):
    method = '_power'


class _SignRule(SwapRule):
    method = '_sign'

    def build(self, cx, env):
        X = self.node(cx, env)
        return X, (), spec_pointwise(X, [], SIGN)


class RavelSign(_SignRule, RavelUnravel):
    method = '_sign'


class TransposeSign(_SignRule, TransposeUnravel):
    method = '_sign'


class InsertAxisSign(_SignRule, InsertAxisUnravel):
    method = '_sign'


class TakeDiagTake(SwapRule):
    cls, method = 'TakeDiag', '_take'

    def build(self, cx, env):
        rank, axis, ir = self.cfg['rank'], self.cfg['axis'], self.cfg['index_rank']
        F = base(cx, 'F', rank + 1, env)
        cx.assume(lv(F.lens[-1]) == lv(F.lens[-2]))
        X = CONSTRUCTORS['TakeDiag'](env)(cx, F)
        I = index_array(cx, 'I', ir, env, lv(X.lens[axis]))
        return X, (I, axis), spec_take(X, I, axis)


class TakeTake(SwapRule):
    cls, method = 'Take', '_take'

    def build(self, cx, env):
        fr, jr, axis, ir = self.cfg['func_rank'], self.cfg['indices_rank'], self.cfg['axis'], self.cfg['index_rank']
        F = base(cx, 'F', fr, env)
        J = index_array(cx, 'J', jr, env, lv(F.lens[-1]))
        J.methods.update(base(cx, 'Jp', jr, env).methods)  # the indices array obeys the protocol, too (its own elements)
        X = CONSTRUCTORS['Take'](env)(cx, F, J)
        I = index_array(cx, 'I', ir, env, lv(X.lens[axis]))
        return X, (I, axis), spec_take(X, I, axis)


class TakeTakediag(SwapRule):
    cls, method = 'Take', '_takediag'

    def build(self, cx, env):
        fr, jr, a1, a2 = self.cfg['func_rank'], self.cfg['indices_rank'], self.cfg['axis1'], self.cfg['axis2']
        F = base(cx, 'F', fr, env)
        J = index_array(cx, 'J', jr, env, lv(F.lens[-1]))
        X = CONSTRUCTORS['Take'](env)(cx, F, J)
        equal_lengths(cx, X, a1, a2)
        return X, (a1, a2), spec_takediag(X, a1, a2)


def _inflate_node(cx, env, cfg):
    fr, dshape = cfg['func_rank'], tuple(cfg['dofmap_shape'])
    lens = [_len(cx, 'F.shape%d' % i) for i in range(fr - len(dshape))] + [IR(cx, 'F.shape%d' % (fr - len(dshape) + i), z3.IntVal(d)) for i, d in enumerate(dshape)]
    F = base(cx, 'F', fr, env, lens=lens)
    length = _len(cx, 'length')
    D = index_array(cx, 'D', len(dshape), env, lv(length))
    D.attrs['shape'] = tuple(lens[fr - len(dshape):])
    return CONSTRUCTORS['Inflate'](env)(cx, F, D, length)


class InflateTake(SwapRule):
    cls, method = 'Inflate', '_take'

    def build(self, cx, env):
        X = _inflate_node(cx, env, self.cfg)
        axis, ir = self.cfg['axis'], self.cfg['index_rank']
        I = index_array(cx, 'I', ir, env, lv(X.lens[axis]))
        return X, (I, axis), spec_take(X, I, axis)


class InflateTakediag(SwapRule):
    cls, method = 'Inflate', '_takediag'

    def build(self, cx, env):
        X = _inflate_node(cx, env, self.cfg)
        a1, a2 = self.cfg['axis1'], self.cfg['axis2']
        equal_lengths(cx, X, a1, a2)
        return X, (a1, a2), spec_takediag(X, a1, a2)


PERMS3 = [(1, 2, 0), (2, 0, 1), (0, 2, 1)]  # both 3-cycles (axes differ from their inverse) and a transposition


def contracts():
    cs = []
    for rank in (2, 3):
        for a1, a2 in itertools.combinations(range(rank), 2):
            cs.append(RavelTakediag(dict(rank=rank, axis1=a1, axis2=a2)))
            cs.append(InsertAxisTakediag(dict(rank=rank, axis1=a1, axis2=a2)))
    for p in [(1, 0)] + PERMS3:
        n = len(p)
        for a1, a2 in itertools.combinations(range(n), 2):
            cs.append(TransposeTakediag(dict(axes=list(p), axis1=a1, axis2=a2)))
        for axis in range(n):
            for ir in ((0, 1, 2) if n == 2 else (0, 2)):
                cs.append(TransposeTake(dict(axes=list(p), axis=axis, index_rank=ir)))
    for rank in (2, 3):
        for axis in range(rank):
            for ir in (0, 2):
                cs.append(InsertAxisTake(dict(rank=rank, axis=axis, index_rank=ir)))
    for rank in (1, 2):
        for axis in range(rank):
            for ir in (1, 2):
                cs.append(RavelTake(dict(rank=rank, axis=axis, index_rank=ir)))
    cs.append(UnravelTakediag(dict(rank=4, axis1=0, axis2=1)))
    cs.append(UnravelTakediag(dict(rank=3, axis1=0, axis2=2)))
    cs.append(UnravelTake(dict(rank=3, axis=0, index_rank=2)))
    cs.append(UnravelTake(dict(rank=3, axis=1, index_rank=1)))
    for axis in (0, 1):
        cs.append(RavelUnravel(dict(rank=2, axis=axis)))
        cs.append(InsertAxisUnravel(dict(rank=2, axis=axis)))
    for p in [(1, 0), (1, 2, 0), (2, 0, 1)]:
        for axis in range(len(p)):
            cs.append(TransposeUnravel(dict(axes=list(p), axis=axis)))
    cs += [RavelPower(dict(rank=1)), RavelPower(dict(rank=2)), TransposePower(dict(axes=[1, 0])), TransposePower(dict(axes=[1, 2, 0])),
           RavelSign(dict(rank=2)), TransposeSign(dict(axes=[2, 0, 1])), InsertAxisSign(dict(rank=2))]
    for axis in (0, 1):
        cs.append(TakeDiagTake(dict(rank=2, axis=axis, index_rank=2)))
    for fr, jr in ((2, 1), (2, 2), (1, 2)):
        for axis in range(fr - 1 + jr):
            cs.append(TakeTake(dict(func_rank=fr, indices_rank=jr, axis=axis, index_rank=2 if axis == 0 else 1)))
    cs.append(TakeTakediag(dict(func_rank=3, indices_rank=1, axis1=0, axis2=1)))
    cs.append(TakeTakediag(dict(func_rank=3, indices_rank=1, axis1=0, axis2=2)))
    for axis in (0, 1):
        cs.append(InflateTake(dict(func_rank=3, dofmap_shape=[2], axis=axis, index_rank=2)))
    cs.append(InflateTake(dict(func_rank=3, dofmap_shape=[2, 2], axis=0, index_rank=1)))
    cs.append(InflateTake(dict(func_rank=1, dofmap_shape=[], axis=0, index_rank=1)))
    for a1, a2 in ((0, 1), (0, 2), (1, 2)):
        cs.append(InflateTakediag(dict(func_rank=3, dofmap_shape=[2], axis1=a1, axis2=a2)))
    cs.append(InflateTakediag(dict(func_rank=3, dofmap_shape=[2, 2], axis1=0, axis2=1)))
    return cs
