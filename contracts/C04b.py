"""C04 (array level, BOUNDED shapes) -- every `_derivative` rule returns the true Jacobian of the node's dense meaning.

The real bodies of `evaluable.<Class>._derivative` are executed symbolically on *tensors of symbols*: every child array is
a numpy object array of distinct sympy symbols (its value) with a second array of distinct symbols attached (its
Jacobian with respect to the derivative target); the IR constructors the bodies call (einsum, insertaxis, transpose, sum,
takediag, _take, _inflate, diagonalize, ravel, unravel, power, ln, Product, Diagonalize, inverse ...) are interpreted by
their dense numpy meaning on those arrays.  The postcondition is the property itself:

    result[idx, b]  ==  sum over children c, entries a:   d meaning(node)[idx] / d c[a]   *   Dc[a, b]

where the right hand side is obtained MECHANICALLY: the dense meaning of the node (a few lines of numpy per class, the
same reading of the IR as C05/C06) is differentiated entry by entry with sympy.diff.  The equality of the two arrays is a
conjunction of polynomial / rational identities over the reals, discharged by z3 (nonlinear real arithmetic) under the
hypotheses that the denominators are non-zero; identities with logarithms and non-integer powers are decided by sympy's
normal form and labelled so.

BOUND (structural): ranks and axis lengths are fixed per scenario (rank of the leading group <= 2, target rank <= 2, axis
lengths 2 or 3); the ENTRIES are symbolic, so every scenario covers all real values.  An index mistake in a rule (wrong
axis, transposed subscripts, wrong stride) changes the polynomial and is caught at these sizes; the obligations are
labelled `bounded` and are not counted as proved for all shapes.
"""
import itertools, os, json
import numpy, sympy, z3
from pyvc.contract import Contract, State
from pyvc.values import Sym, SObj, PyRaise, Unsupported, BoundMethod
from pyvc.ops import Builtin, ClassRef

PROP = 'C04'
HERE = os.path.dirname(os.path.dirname(os.path.abspath(__file__)))
BOUND = 'fixed ranks (leading group rank <= 2, target rank <= 2) and axis lengths (2 or 3); all entries symbolic reals'

FLOAT, INT, COMPLEX, BOOL = Builtin('float'), Builtin('int'), Builtin('complex'), Builtin('bool')


def zobj(shape, value=0):
    """Object array filled with a sympy integer (numpy.zeros(()) + x would decay to a scalar)."""
    a = numpy.empty(tuple(int(n) for n in shape), dtype=object)
    a[...] = sympy.Integer(value)
    return a


def require(ctx, kind, expr):
    """Record a definedness requirement of an operation the rule performs (kind: 'nonzero' | 'positive').
    Recorded at evaluation time, because sympy simplifies 0 * x**-1 to 0 and would hide it."""
    e = sympy.sympify(expr)
    if e.is_number:
        ok = (e != 0) if kind == 'nonzero' else (e > 0)
        if not ok:
            raise PyRaise('ZeroDivisionError', note='%s requirement violated by the constant %s' % (kind, e))
        return
    if not hasattr(ctx, 'defined_reqs'):
        ctx.defined_reqs = []
    ctx.defined_reqs.append((kind, e))


def require_pow(ctx, base, expo):
    for b, x in numpy.broadcast(numpy.asarray(base, dtype=object), numpy.asarray(expo, dtype=object)):
        x = sympy.sympify(x)
        if x.is_Integer and x >= 0:
            continue
        require(ctx, 'nonzero' if x.is_Integer else 'positive', b)


def symarr(name, shape):
    a = numpy.empty(shape, dtype=object)
    for idx in itertools.product(*map(range, shape)):
        a[idx] = sympy.Symbol('%s[%s]' % (name, ','.join(map(str, idx))), real=True)
    return a


class TArr(Sym):
    """A tensor of sympy expressions with concrete shape (dense meaning of an IR node)."""

    def __init__(self, arr, dtype=FLOAT, extras=None, jac=None, clsnames=('Array',)):
        self.arr = numpy.asarray(arr, dtype=object)
        self.dtype = dtype
        self.extras = dict(extras or {})
        self.jac = jac  # TArr: derivative with respect to the target (value shape + target shape)
        self.clsnames = clsnames

    # --- attribute protocol of evaluable.Array as far as the bodies use it
    def getattr(self, ctx, name):
        if name in self.extras:
            v = self.extras[name]
            return v
        if name == 'shape':
            return tuple(int(n) for n in self.arr.shape)
        if name == 'ndim':
            return self.arr.ndim
        if name == 'dtype':
            return self.dtype
        if name == '__class__':
            return ClassRef(self.clsnames[0])
        raise Unsupported('attribute %s of a tensor model' % name)

    def isinstance_(self, ctx, types):
        for t in types:
            n = t if isinstance(t, str) else getattr(t, '__name__', None)
            if n in self.clsnames:
                return True
        return False

    def truth(self, ctx):
        return True

    def _coerce(self, other):
        if isinstance(other, TArr):
            return other.arr
        if isinstance(other, (int, float, sympy.Expr)):
            return other
        return None

    def binop(self, ctx, op, other, reflected):
        o = self._coerce(other)
        if o is None:
            return NotImplemented
        if isinstance(other, TArr) and other.arr.shape != self.arr.shape and other.arr.ndim and self.arr.ndim:
            raise PyRaise('AssertionError', note='shape mismatch %s vs %s' % (self.arr.shape, other.arr.shape))
        a, b = (o, self.arr) if reflected else (self.arr, o)
        if op == '+':
            return TArr(a + b, self.dtype)
        if op == '-':
            return TArr(a - b, self.dtype)
        if op == '*':
            return TArr(a * b, self.dtype)
        if op == '/':
            for d in numpy.asarray(b, dtype=object).flat:
                require(ctx, 'nonzero', d)
            return TArr(a / b, self.dtype)
        if op == '**':
            require_pow(ctx, a, b)
            return TArr(a ** b, self.dtype)
        return NotImplemented

    def unop(self, ctx, op):
        if op == '-':
            return TArr(-self.arr, self.dtype)
        if op == '+':
            return self
        return NotImplemented

    def compare(self, ctx, op, other, reflected):
        if op in ('==', '!='):
            same = other is self
            return same if op == '==' else not same
        return NotImplemented

    def __repr__(self):
        return 'TArr%s' % (self.arr.shape,)


class Target:
    """The derivative target `var` (an Argument): identity object with shape/ndim/dtype."""
    sym_classes = ('Argument', 'DerivativeTargetBase', 'Array')

    def __init__(self, shape, dtype=FLOAT, name='v'):
        self.shape, self.dtype, self.name = tuple(shape), dtype, name

    def sym_getattr(self, ctx, name):
        if name == 'shape':
            return self.shape
        if name == 'ndim':
            return len(self.shape)
        if name in ('dtype', 'name'):
            return getattr(self, name)
        raise Unsupported('attribute %s of the derivative target' % name)


class CArr(Sym):
    """A concrete numpy array (Constant.value, tables built inside a body)."""

    def __init__(self, a):
        self.a = numpy.array(a)

    def getattr(self, ctx, name):
        if name == 'copy':
            return lambda ctx: CArr(self.a.copy())
        if name == 'shape':
            return self.a.shape
        if name == 'ndim':
            return self.a.ndim
        raise Unsupported('ndarray.' + name)

    def binop(self, ctx, op, other, reflected):
        o = other.a if isinstance(other, CArr) else other
        if isinstance(o, Sym):
            return NotImplemented
        a, b = (o, self.a) if reflected else (self.a, o)
        import operator
        f = {'+': operator.add, '-': operator.sub, '*': operator.mul}.get(op)
        if f is None:
            return NotImplemented
        return CArr(f(a, b))

    def compare(self, ctx, op, other, reflected):
        o = other.a if isinstance(other, CArr) else other
        if isinstance(o, Sym):
            return NotImplemented
        import operator
        f = {'!=': operator.ne, '==': operator.eq, '<': operator.lt, '>': operator.gt, '<=': operator.le, '>=': operator.ge}[op]
        return CArr(f(o, self.a) if reflected else f(self.a, o))

    def sym_iop(self, ctx, op, rhs):
        r = self.binop(ctx, op, rhs, False)
        if r is NotImplemented:
            return r
        # numpy in-place semantics: the result keeps the dtype of the left operand
        self.a = r.a.astype(self.a.dtype)
        return self

    def setitem(self, ctx, idx, value):
        v = value.a if isinstance(value, CArr) else value
        if isinstance(v, Sym):
            raise Unsupported('store of a symbolic value into a concrete table')
        self.a[idx] = v

    def getitem(self, ctx, idx):
        r = self.a[idx]
        return CArr(r) if isinstance(r, numpy.ndarray) else r.item()

    def truth(self, ctx):
        raise Unsupported('truth of an array')


def carr_as_tarr(c, dtype=FLOAT):
    a = numpy.empty(c.a.shape, dtype=object)
    for idx in itertools.product(*map(range, c.a.shape)):
        a[idx] = sympy.nsimplify(c.a[idx], rational=True) if dtype is not INT else sympy.Integer(int(c.a[idx]))
    return TArr(a, dtype)


# ---------------------------------------------------------------- dense meanings of the IR constructors the bodies use

def _arr(x):
    if isinstance(x, TArr):
        return x.arr
    if isinstance(x, CArr):
        return carr_as_tarr(x).arr
    if isinstance(x, (int, float)):
        return numpy.array(sympy.nsimplify(x, rational=True), dtype=object)
    raise Unsupported('not an array model: %r' % (x,))


def _normaxis(n, ndim):
    if not -ndim <= n < ndim:
        raise PyRaise('IndexError', note='axis %d out of range for ndim %d' % (n, ndim))
    return n % ndim if ndim else 0


def m_einsum(ctx, fmt, *args, **dims):
    """nutils' einsum: lowercase = one axis, uppercase = a group of axes whose rank is resolved from left to right."""
    sin, sout = fmt.split('->')
    sin = sin.split(',')
    if len(sin) != len(args):
        raise PyRaise('ValueError')
    arrs = [_arr(a) for a in args]
    dims = dict(dims)
    for c in 'abcdefghijklmnopqrstuvwxyz':
        dims.setdefault(c, 1)
    for s, a in zip(sin, arrs):
        missing = a.ndim - sum(dims.get(c, 0) for c in s)
        unknown = [c for c in s if c not in dims]
        if len(unknown) == 1 and missing >= 0:
            dims[unknown[0]] = missing
        elif len(unknown) > 1:
            raise PyRaise('ValueError')
        elif missing:
            raise PyRaise('ValueError', note='argument dimensions are inconsistent with format string')
    letters = iter('abcdefghijklmnopqrstuvwxyzABCDEFGHIJKLMNOPQRSTUVWXYZ')
    expand = {}
    for c in dict.fromkeys(''.join(sin) + sout):
        if c not in dims:
            raise PyRaise('ValueError', note='unresolved group ' + c)
        expand[c] = ''.join(next(letters) for _ in range(dims[c]))
    spec = ','.join(''.join(expand[c] for c in s) for s in sin) + '->' + ''.join(expand[c] for c in sout)
    try:
        return TArr(numpy.einsum(spec, *arrs), FLOAT)
    except ValueError as e:
        raise PyRaise('ValueError', note='einsum %s: %s' % (spec, e))


def m_insertaxis(ctx, arg, n, length):
    a = _arr(arg)
    n = _normaxis(n, a.ndim + 1)
    return TArr(numpy.repeat(numpy.expand_dims(a, n), int(length), axis=n), arg.dtype if isinstance(arg, TArr) else FLOAT)


def m_transpose(ctx, arg, trans):
    a = _arr(arg)
    trans = tuple(int(i) for i in trans)
    if sorted(trans) != list(range(a.ndim)):
        raise PyRaise('AssertionError', note='transpose axes %r for ndim %d' % (trans, a.ndim))
    return TArr(numpy.transpose(a, trans), arg.dtype)


def m_sum(ctx, arg, axis):
    a = _arr(arg)
    return TArr(a.sum(_normaxis(axis, a.ndim)), arg.dtype)


def m_takediag(ctx, arg, axis=-2, rmaxis=-1):
    a = _arr(arg)
    axis, rmaxis = _normaxis(axis, a.ndim), _normaxis(rmaxis, a.ndim)
    if axis == rmaxis:
        raise PyRaise('AssertionError')
    if a.shape[axis] != a.shape[rmaxis]:
        raise PyRaise('AssertionError', note='takediag of unequal axes')
    d = numpy.diagonal(a, axis1=axis, axis2=rmaxis)  # diagonal axis appended at the end
    pos = axis - (axis >= rmaxis)
    return TArr(numpy.moveaxis(d, -1, pos), arg.dtype)


def m_take(ctx, arg, index, axis):
    a = _arr(arg)
    axis = _normaxis(axis, a.ndim)
    idx = numpy.asarray(index.a if isinstance(index, CArr) else index, dtype=int)
    return TArr(numpy.take(a, idx, axis=axis), arg.dtype)


def m_inflate(ctx, arg, dofmap, length, axis):
    a = _arr(arg)
    dm = numpy.asarray(dofmap.a if isinstance(dofmap, CArr) else dofmap, dtype=int)
    axis = _normaxis(axis, a.ndim + 1 - dm.ndim)
    if a.shape[axis:axis + dm.ndim] != dm.shape:
        raise PyRaise('AssertionError', note='inflate: dofmap shape mismatch')
    out = zobj(a.shape[:axis] + (int(length),) + a.shape[axis + dm.ndim:])
    for pos in itertools.product(*map(range, dm.shape)):
        src = (slice(None),) * axis + pos
        dst = (slice(None),) * axis + (int(dm[pos]),)
        out[dst] = out[dst] + a[src]
    return TArr(out, arg.dtype)


def m_diagonalize(ctx, arg, axis=-1, newaxis=-1):
    a = _arr(arg)
    axis = _normaxis(axis, a.ndim)
    newaxis = _normaxis(newaxis, a.ndim + 1)
    n = a.shape[axis]
    # Diagonalize(to_end(arg, axis)) has shape (..., n, n); from_end(.., axis + (axis >= newaxis), newaxis)
    b = numpy.moveaxis(a, axis, -1)
    d = zobj(b.shape + (n,))
    for i in range(n):
        d[..., i, i] = b[..., i]
    p1, p2 = axis + (axis >= newaxis), newaxis
    if p1 == p2:
        raise PyRaise('AssertionError')
    # move the last two axes to positions p1, p2 (from_end semantics: insert in increasing position order)
    nd = d.ndim
    rest = list(range(nd - 2))
    order = [None] * nd
    order[p1], order[p2] = nd - 2, nd - 1
    it = iter(rest)
    order = [o if o is not None else next(it) for o in order]
    return TArr(numpy.transpose(d, order), arg.dtype)


def m_ravel(ctx, func, axis):
    a = _arr(func)
    axis = _normaxis(axis, a.ndim - 1)
    return TArr(a.reshape(a.shape[:axis] + (a.shape[axis] * a.shape[axis + 1],) + a.shape[axis + 2:]), func.dtype)


def m_unravel(ctx, func, axis, shape):
    a = _arr(func)
    shape = tuple(int(s) for s in shape)
    if not shape:
        raise PyRaise('ValueError')
    axis = _normaxis(axis, a.ndim)
    if int(numpy.prod(shape)) != a.shape[axis]:
        raise PyRaise('AssertionError', note='unravel: length mismatch')
    return TArr(a.reshape(a.shape[:axis] + shape + a.shape[axis + 1:]), func.dtype)


def m_zeros(ctx, shape, dtype=FLOAT):
    return TArr(zobj(shape), dtype)


def m_ones(ctx, shape, dtype=FLOAT):
    return TArr(zobj(shape, 1), dtype)


def m_astype(ctx, arg, dtype):
    if isinstance(arg, CArr):
        return carr_as_tarr(arg, dtype)
    if isinstance(arg, TArr):
        return TArr(arg.arr, dtype)
    return TArr(numpy.array(sympy.nsimplify(arg, rational=True), dtype=object), dtype)


def m_power(ctx, arg, n):
    a = _arr(arg)
    e = _arr(n) if isinstance(n, (TArr, CArr)) else n
    require_pow(ctx, a, e)
    return TArr(a ** e, arg.dtype)


def m_ln(ctx, x):
    a = _arr(x)
    for v in a.flat:
        require(ctx, 'positive', v)
    return TArr(numpy.vectorize(sympy.log, otypes=[object])(a), x.dtype)


def m_add(ctx, *args):
    out = _arr(args[0])
    for a in args[1:]:
        b = _arr(a)
        if b.shape != out.shape:
            raise PyRaise('AssertionError', note='add: shape mismatch')
        out = numpy.asarray(out + b, dtype=object)
    return TArr(out, args[0].dtype)


def m_Product(ctx, arg):
    a = _arr(arg)
    out = numpy.empty(a.shape[:-1], dtype=object)
    for idx in itertools.product(*map(range, a.shape[:-1])):
        out[idx] = sympy.Mul(*a[idx])
    return TArr(out, arg.dtype)


def m_Diagonalize(ctx, arg):
    return m_diagonalize(ctx, arg, -1, -1)


def _inv(a):
    out = numpy.empty(a.shape, dtype=object)
    for idx in itertools.product(*map(range, a.shape[:-2])):
        out[idx] = numpy.array(sympy.Matrix(a[idx]).inv().tolist(), dtype=object)
    return out


def _det(a):
    out = numpy.empty(a.shape[:-2], dtype=object)
    for idx in itertools.product(*map(range, a.shape[:-2])):
        out[idx] = sympy.Matrix(a[idx]).det()
    return out


def m_inverse(ctx, arg, axes=(-2, -1)):
    if tuple(axes) != (-2, -1):
        raise Unsupported('inverse with other axes')
    for d in numpy.asarray(_det(_arr(arg)), dtype=object).flat:
        require(ctx, 'nonzero', d)
    return TArr(_inv(_arr(arg)), arg.dtype)


def m_appendaxes(ctx, func, shape):
    a = _arr(func)
    for n in shape:
        a = numpy.repeat(a[..., None], int(n), axis=-1)
    return TArr(a, func.dtype if isinstance(func, TArr) else INT)


def m_Choose(ctx, index, choices):
    idx, ch = _arr(index), _arr(choices)
    if ch.shape[:-1] != idx.shape:
        raise PyRaise('AssertionError', note='Choose: index shape %s vs choices shape %s' % (idx.shape, ch.shape))
    out = numpy.empty(idx.shape, dtype=object)
    for pos in itertools.product(*map(range, idx.shape)):
        out[pos] = ch[pos + (int(idx[pos]),)]
    return TArr(out, choices.dtype)


class TransposeClass:
    """evaluable.Transpose as far as the rules use it: to_end / from_end."""
    __name__ = 'Transpose'

    def sym_getattr(self, ctx, name):
        if name == 'to_end':
            def to_end(ctx, array, *axes):
                a = _arr(array)
                axes = [_normaxis(x, a.ndim) for x in axes]
                order = [i for i in range(a.ndim) if i not in axes] + axes
                return TArr(numpy.transpose(a, order), array.dtype)
            return to_end
        if name == 'from_end':
            def from_end(ctx, array, *axes):
                a = _arr(array)
                axes = [_normaxis(x, a.ndim) for x in axes]
                order = [i for i in range(a.ndim) if i not in axes] + axes
                return TArr(numpy.transpose(a, numpy.argsort(order)), array.dtype)
            return from_end
        raise Unsupported('Transpose.' + name)


def m_derivative(ctx, func, var, seen=None):
    if not isinstance(func, TArr) or func.jac is None:
        raise Unsupported('derivative() of something that is not a child of the node under contract')
    return func.jac


class Util:
    def sym_getattr(self, ctx, name):
        if name == 'sum':
            def usum(ctx, items):
                from pyvc import ops
                items = list(ops.iterate(ctx, items))
                if not items:
                    raise PyRaise('TypeError', note='sum of an empty sequence')
                out = items[0]
                for x in items[1:]:
                    out = ops.binop(ctx, '+', out, x)
                return out
            return usum
        if name == 'product':
            return lambda ctx, items: int(numpy.prod([int(i) for i in items])) if len(items) else 1
        raise Unsupported('util.' + name)


class NumpyLite:
    """numpy as far as Legendre._derivative needs it: a concrete integer table."""

    def sym_getattr(self, ctx, name):
        if name == 'zeros':
            return lambda ctx, shape, dtype=None: CArr(numpy.zeros(tuple(int(s) for s in shape), dtype=int if dtype == INT else float))
        raise Unsupported('numpy.' + name)


GLOBALS = dict(einsum=m_einsum, insertaxis=m_insertaxis, transpose=m_transpose, sum=m_sum, takediag=m_takediag, _take=m_take,
               _inflate=m_inflate, diagonalize=m_diagonalize, ravel=m_ravel, unravel=m_unravel, Zeros=m_zeros, zeros=m_zeros, ones=m_ones,
               astype=m_astype, power=m_power, ln=m_ln, add=m_add, Product=m_Product, Diagonalize=m_Diagonalize, inverse=m_inverse,
               derivative=m_derivative, appendaxes=m_appendaxes, Choose=m_Choose, Transpose=TransposeClass(), Guard=lambda ctx, x: x,
               _any_certainly_different=lambda ctx, a, b: tuple(int(x) for x in a) != tuple(int(x) for x in b), util=Util(), numpy=NumpyLite(), Constant=ClassRef('Constant'), Argument=ClassRef('Argument'),
               isunit=lambda ctx, n: int(n) == 1)


# ---------------------------------------------------------------- scenarios: node model + dense meaning per class

def child(name, shape, vshape, dtype=FLOAT, **extras):
    """A child array: symbols for its value and for its Jacobian with respect to the target."""
    return TArr(symarr(name, shape), dtype, extras=extras, jac=TArr(symarr('D' + name, tuple(shape) + tuple(vshape))))


def true_jacobian(value, children, vshape):
    """d value[idx] / d target[b] by the chain rule over the children's symbols, mechanically with sympy.diff."""
    value = numpy.asarray(value, dtype=object)
    out = zobj(value.shape + tuple(vshape))
    for idx in itertools.product(*map(range, value.shape)):
        e = sympy.sympify(value[idx])
        for c in children:
            for a in itertools.product(*map(range, c.arr.shape)):
                s = c.arr[a]
                if e.has(s):
                    de = sympy.diff(e, s)
                    for b in itertools.product(*map(range, vshape)):
                        out[idx + b] = out[idx + b] + de * c.jac.arr[a + b]
    return out


class Scenario:
    def __init__(self, cls, label, build, doc='', fn=None, expect_raise=None):
        self.cls, self.label, self.build, self.doc = cls, label, build, doc
        self.fn = fn or 'evaluable:%s._derivative' % cls
        self.expect_raise = expect_raise  # exception the rule must raise in this scenario (no value may be returned)


def node(value, dtype=FLOAT, clsname='Array', **extras):
    return TArr(value, dtype, extras=extras, clsnames=(clsname, 'Array'))


def scenarios():
    S = []
    shapes = [((), ()), ((2,), (2,)), ((2, 3), (2,)), ((2,), (3, 2))]  # (leading group shape A, target shape B)

    def add(cls, label, build):
        S.append(Scenario(cls, label, build))

    for A, B in shapes:
        tag = 'A%s_B%s' % ('x'.join(map(str, A)) or '0', 'x'.join(map(str, B)) or '0')

        def insertaxis(A=A, B=B):
            f = child('f', A, B)
            val = numpy.repeat(f.arr[..., None], 3, axis=-1)
            return node(val, func=f, length=3), [f], B
        add('InsertAxis', tag, insertaxis)

        def sum_(A=A, B=B):
            f = child('f', A + (3,), B)
            return node(f.arr.sum(-1), func=f), [f], B
        add('Sum', tag, sum_)

        def takediag(A=A, B=B):
            f = child('f', A + (2, 2), B)
            return node(numpy.moveaxis(numpy.diagonal(f.arr, axis1=-2, axis2=-1), -1, -1), func=f), [f], B
        add('TakeDiag', tag, takediag)

        def take(A=A, B=B):
            f = child('f', A + (3,), B)
            idx = numpy.array([[2, 0], [1, 2]])
            return node(numpy.take(f.arr, idx, axis=-1), func=f, indices=CArr(idx)), [f], B
        add('Take', tag, take)

        def inflate(A=A, B=B):
            f = child('f', A + (2, 2), B)
            dm = numpy.array([[0, 2], [2, 1]])  # repeated entry: contributions add up
            out = zobj(A + (4,))
            for p in itertools.product(range(2), range(2)):
                out[..., dm[p]] = out[..., dm[p]] + f.arr[(Ellipsis,) + p]
            return node(out, func=f, dofmap=CArr(dm), length=4), [f], B
        add('Inflate', tag, inflate)

        def diagonalize(A=A, B=B):
            f = child('f', A + (2,), B)
            d = zobj(A + (2, 2))
            for i in range(2):
                d[..., i, i] = f.arr[..., i]
            return node(d, func=f), [f], B
        add('Diagonalize', tag, diagonalize)

        def ravel(A=A, B=B):
            f = child('f', A + (2, 3), B)
            return node(f.arr.reshape(A + (6,)), func=f), [f], B
        add('Ravel', tag, ravel)

        def unravel(A=A, B=B):
            f = child('f', A + (6,), B)
            return node(f.arr.reshape(A + (2, 3)), func=f), [f], B
        add('Unravel', tag, unravel)

        def multiply(A=A, B=B):
            f, g = child('f', A, B), child('g', A, B)
            return node(f.arr * g.arr, funcs=(f, g)), [f, g], B
        add('Multiply', tag, multiply)

        def add_(A=A, B=B):
            f, g, h = child('f', A, B), child('g', A, B), child('h', A, B)
            return node(f.arr + g.arr + h.arr, _terms=(f, g, h)), [f, g, h], B
        add('Add', tag, add_)

        def product(A=A, B=B):
            f = child('f', A + (3,), B)
            val = numpy.empty(A, dtype=object)
            for idx in itertools.product(*map(range, A)):
                val[idx] = sympy.Mul(*f.arr[idx])
            return node(val, func=f), [f], B
        add('Product', tag, product)

    for A, B in shapes[:3]:
        tag = 'A%s_B%s' % ('x'.join(map(str, A)) or '0', 'x'.join(map(str, B)) or '0')

        def transpose(A=A, B=B):
            shp = A + (2, 3)
            f = child('f', shp, B)
            axes = tuple(range(len(A))) + (len(A) + 1, len(A))
            if len(A) == 2:
                axes = (1, 3, 0, 2)
            return node(numpy.transpose(f.arr, axes), func=f, axes=axes), [f], B
        add('Transpose', tag, transpose)

        def inverse(A=A, B=B):
            f = child('f', A + (2, 2), B)
            nd = node(_inv(f.arr), func=f)
            nd.domain = [('nonzero', d) for d in numpy.asarray(_det(f.arr), dtype=object).flat]
            return nd, [f], B
        add('Inverse', tag, inverse)

        def determinant(A=A, B=B):
            f = child('f', A + (2, 2), B)
            nd = node(_det(f.arr), func=f)
            # the determinant is differentiable everywhere, but its rule goes through the inverse: the documented domain is det != 0
            nd.domain = [('nonzero', d) for d in numpy.asarray(_det(f.arr), dtype=object).flat]
            return nd, [f], B
        add('Determinant', tag, determinant)

    def power_const(A=(6,), B=(2,)):
        f = child('f', A, B)
        p = numpy.array([0., 1., 2., 3., -1., .5])
        pw = carr_as_tarr(CArr(p))
        pw.clsnames = ('Constant', 'Array')
        pw.extras['value'] = CArr(p)
        pw.jac = TArr(zobj(A + B))
        val = numpy.array([f.arr[i] ** sympy.nsimplify(p[i], rational=True) for i in range(6)], dtype=object)
        nd = node(val, func=f, power=pw)
        nd.domain = [('nonzero', f.arr[4]), ('positive', f.arr[5])]  # f**-1 and f**.5; f**0, f**1, f**2, f**3 are differentiable everywhere
        return nd, [f], B
    add('Power', 'constant-powers-incl-zero', power_const)

    def power_general(A=(2,), B=(2,)):
        f, g = child('f', A, B), child('g', A, B)
        nd = node(f.arr ** g.arr, func=f, power=g)
        nd.domain = [('positive', v) for v in f.arr.flat]
        return nd, [f, g], B
    add('Power', 'variable-power', power_general)

    def legendre(A=(2,), B=(2,)):
        x = child('x', A, B)
        deg = 4
        val = numpy.empty(A + (deg + 1,), dtype=object)
        for idx in itertools.product(*map(range, A)):
            for i in range(deg + 1):
                val[idx + (i,)] = sympy.legendre(i, x.arr[idx])
        return node(val, x=x, degree=deg), [x], B
    add('Legendre', 'degree4', legendre)

    def intofloat(A=(2,), B=(2,)):
        a = TArr(symarr('n', A), INT)
        # an integer array does not depend differentiably on anything: the true Jacobian is zero by definition
        nd = node(a.arr, arg=a)
        nd.true_override = zobj(A + B)
        return nd, [], B
    add('IntToFloat', 'A2_B2', intofloat)
    add('Sign', 'A2_B2', intofloat)

    # ---- derivative targets and defaults
    def ident(shape):
        e = zobj(tuple(shape) + tuple(shape))
        for idx in itertools.product(*map(range, shape)):
            e[idx + idx] = sympy.Integer(1)
        return e

    for shp in [(), (2,), (2, 3)]:
        tag = 'shape' + ('x'.join(map(str, shp)) or '0')

        def arg_same(shp=shp):
            nd = node(symarr('a', shp), clsname='Argument', name='a')
            nd.var = Target(shp, FLOAT, 'a')  # the same argument
            nd.true_override = ident(shp)
            return nd, [], shp
        add('Argument', tag + ',same-name', arg_same)

        def arg_other(shp=shp):
            nd = node(symarr('a', shp), clsname='Argument', name='a')
            nd.var = Target((3,), FLOAT, 'b')
            nd.true_override = zobj(tuple(shp) + (3,))
            return nd, [], (3,)
        add('Argument', tag + ',other-name', arg_other)

    def arg_int(shp=(2,)):
        nd = node(symarr('a', shp), dtype=INT, clsname='Argument', name='a')
        nd.var = Target(shp, INT, 'a')
        nd.true_override = zobj(tuple(shp) + tuple(shp))  # integer arguments have an identically zero derivative (property C04, last sentence)
        return nd, [], shp
    add('Argument', 'integer-argument', arg_int)

    def withder_same(A=(2,), B=(3,)):
        f = child('f', A, B)
        own = Target(B, FLOAT, 'own')
        given = TArr(symarr('G', A + B))
        nd = node(f.arr, func=f, var=own, derivative=given)
        nd.var_ = own
        nd.var = own
        nd.true_override = given.arr  # by definition of WithDerivative
        return nd, [f], B
    S.append(Scenario('WithDerivative', 'own-target', withder_same))

    def withder_other(A=(2,), B=(3,)):
        f = child('f', A, B)
        own = Target(B, FLOAT, 'own')
        given = TArr(symarr('G', A + B))
        nd = node(f.arr, func=f, var=own, derivative=given)
        nd.var = Target(B, FLOAT, 'other')
        return nd, [f], B
    S.append(Scenario('WithDerivative', 'other-target', withder_other))

    def default_int(A=(2,), B=(2,)):
        nd = node(symarr('n', A), dtype=INT)
        nd.true_override = zobj(A + B)
        return nd, [], B
    S.append(Scenario('Array', 'integer-node', default_int))

    def default_indep(A=(2,), B=(2,)):
        nd = node(symarr('c', A))
        nd.extras['arguments'] = frozenset()
        nd.true_override = zobj(A + B)
        return nd, [], B
    S.append(Scenario('Array', 'independent-of-target', default_indep))

    def default_dep(A=(2,), B=(2,)):
        nd = node(symarr('c', A))
        return nd, [], B
    S.append(Scenario('Array', 'depends-on-target', default_dep, expect_raise='NotImplementedError'))

    def choose(A=(2, 2), B=(2,)):
        ch = child('c', A + (3,), B)
        idx = numpy.array([[2, 0], [1, 1]])
        val = numpy.empty(A, dtype=object)
        for pos in itertools.product(*map(range, A)):
            val[pos] = ch.arr[pos + (int(idx[pos]),)]
        index = carr_as_tarr(CArr(idx), INT)
        return node(val, index=index, choices=ch), [ch], B
    S.append(Scenario('Choose', 'A2x2_B2', choose))

    def guard(A=(2,), B=(2,)):
        f = child('f', A, B)
        return node(f.arr, fun=f), [f], B
    S.append(Scenario('Guard', 'A2_B2', guard))
    return S


def pointwise_scenarios():
    """Pointwise / Holomorphic plumbing: sum_k deriv_k(deps) * d dep_k, with abstract elementwise F and its partials."""
    out = []
    for cls in ('Pointwise', 'Holomorphic'):
        for nargs in (1, 2):
            def build(nargs=nargs, cls=cls, A=(2,), B=(2,)):
                deps = [child('xy'[k], A, B) for k in range(nargs)]
                dF = [sympy.Function('dF%d' % k) for k in range(nargs)]

                class F(sympy.Function):
                    nargs_ = nargs

                    def fdiff(self, argindex=1):
                        return dF[argindex - 1](*self.args)
                val = numpy.array([F(*[d.arr[i] for d in deps]) for i in range(A[0])], dtype=object)

                def mk(k):
                    def deriv(ctx, *a):
                        if len(a) != nargs:
                            raise PyRaise('TypeError', note='deriv called with %d arguments' % len(a))
                        return TArr(numpy.array([dF[k](*[x.arr[i] for x in a]) for i in range(A[0])], dtype=object))
                    return deriv
                nd = node(val, dependencies=tuple(deps), deriv=tuple(mk(k) for k in range(nargs)), parameters=())
                return nd, deps, B
            out.append(Scenario(cls, '%d-arguments' % nargs, build))
    return out


# ---------------------------------------------------------------- sympy -> z3

class Z3Conv:
    def __init__(self):
        self.syms = {}
        self.funcs = {}
        self.nonzero = []
        self.positive = []
        self.opaque = False  # True when a transcendental / non-integer power had to be abstracted

    def conv(self, e):
        e = sympy.sympify(e)
        if e.is_Symbol:
            if e.name not in self.syms:
                self.syms[e.name] = z3.Real(e.name)
            return self.syms[e.name]
        if e.is_Integer:
            return z3.RealVal(int(e))
        if e.is_Rational:
            return z3.RealVal(int(e.p)) / z3.RealVal(int(e.q))
        if e.is_Add:
            return z3.Sum([self.conv(a) for a in e.args])
        if e.is_Mul:
            return z3.Product([self.conv(a) for a in e.args])
        if e.is_Pow:
            b, x = e.args
            if x.is_Integer:
                n = int(x)
                zb = self.conv(b)
                if n >= 0:
                    return z3.Product([zb] * n) if n else z3.RealVal(1)
                self.nonzero.append(zb)
                return z3.RealVal(1) / z3.Product([zb] * (-n))
            self.opaque = True
            f = self.funcs.setdefault('POW', z3.Function('POW', z3.RealSort(), z3.RealSort(), z3.RealSort()))
            self.positive.append(self.conv(b))
            return f(self.conv(b), self.conv(x))
        if isinstance(e, sympy.log):
            self.opaque = True
            f = self.funcs.setdefault('LOG', z3.Function('LOG', z3.RealSort(), z3.RealSort()))
            self.positive.append(self.conv(e.args[0]))
            return f(self.conv(e.args[0]))
        if e.is_Function:
            name = type(e).__name__
            f = self.funcs.setdefault(name, z3.Function(name, *([z3.RealSort()] * (len(e.args) + 1))))
            return f(*[self.conv(a) for a in e.args])
        raise Unsupported('sympy term %s' % type(e).__name__)


class DerivRule(Contract):
    """<Class>._derivative on tensors of symbols: the returned array equals the mechanically differentiated dense meaning."""
    prop = PROP
    bounded = BOUND

    def __init__(self, sc):
        self.sc = sc
        self.fn = sc.fn
        self.label = sc.label
        self.expect_return = sc.expect_raise is None

    def setup(self, cx):
        nd, children, vshape = self.sc.build()
        var = getattr(nd, 'var', None) or Target(vshape)
        S = State(args=(nd, var, {}), node=nd, children=children, vshape=tuple(vshape), var=var, globals=dict(GLOBALS))
        nd.extras.setdefault('arguments', frozenset([var]))
        nd.extras.setdefault('shape', tuple(int(n) for n in nd.arr.shape))
        return S

    def ensures(self, cx, S, result):
        if self.sc.expect_raise is not None:
            return [('must-raise-' + self.sc.expect_raise, z3.BoolVal(False))]
        if not isinstance(result, TArr):
            raise Unsupported('_derivative returned %r' % (result,))
        want = getattr(S.node, 'true_override', None)
        if want is None:
            want = true_jacobian(S.node.arr, S.children, S.vshape)
        got = result.arr
        out = [('shape-is-node-shape-plus-target-shape', z3.BoolVal(tuple(got.shape) == tuple(want.shape)))]
        if tuple(got.shape) != tuple(want.shape):
            return out
        cv = Z3Conv()
        eqs, bad, by_sympy = [], [], 0
        for idx in itertools.product(*map(range, want.shape)):
            g, w = sympy.sympify(got[idx]), sympy.sympify(want[idx])
            if g == w:
                continue
            cv.opaque = False
            zg, zw = cv.conv(g), cv.conv(w)
            if not cv.opaque:
                eqs.append(zg == zw)  # polynomial / rational identity: z3 decides
                continue
            # logarithms / non-integer powers: sympy's normal form decides (the z3 translation abstracts them)
            dd = sympy.simplify(sympy.powsimp(sympy.expand_log(sympy.together(g - w), force=True), force=True))
            if dd == 0:
                by_sympy += 1
            else:
                bad.append((idx, dd))
        # domain of differentiability of the NODE (from its dense meaning); the rule must be defined on all of it
        dom = [(cv.conv(e) != 0) if k == 'nonzero' else (cv.conv(e) > 0) for k, e in getattr(S.node, 'domain', [])]
        reqs = [(cv.conv(e) != 0) if k == 'nonzero' else (cv.conv(e) > 0) for k, e in getattr(cx, 'defined_reqs', [])]
        out.append(('rule-is-defined-wherever-the-node-is-differentiable', z3.Implies(z3.And(*dom), z3.And(*reqs)) if reqs else z3.BoolVal(True)))
        hyps = dom + reqs + [h != 0 for h in cv.nonzero] + [h > 0 for h in cv.positive]
        goal = z3.Implies(z3.And(*hyps), z3.And(*eqs)) if eqs else z3.BoolVal(True)
        if by_sympy:
            cx.note('%d entries with log / non-integer powers decided by sympy normal form' % by_sympy)
            cx.used_axioms.add('sympy simplify/powsimp normal form for entries with log or non-integer powers (Power with variable exponent)')
        if bad:
            goal = z3.BoolVal(False)
            out.append(('entries-with-transcendental-terms (sympy)', z3.BoolVal(False)))
        out.append(('jacobian-equals-derivative-of-dense-meaning', goal))
        return out

    def raises(self, cx, S, e):
        return self.sc.expect_raise is not None and e.exc.split(':')[0] == self.sc.expect_raise

    def replay(self, ob):
        model = {k: str(v) for k, v in (ob.model or {}).items() if '[' in k}
        return ("import sys; sys.path.insert(0, %r)\nfrom native import c04b\nc04b.check(%r, %r, %s)\n" % (HERE, self.sc.cls, self.sc.label, json.dumps(model)))


class Driver(Contract):
    """evaluable.derivative(func, var, seen): the driver.  (zero) an integer/bool target or a target the function does not depend on
    gives zeros of shape func.shape + var.shape WITHOUT consulting the rule; (memo) otherwise the rule of `func` is consulted at most
    once per (func, seen): a second request with the same memo returns the SAME object; the result is what the rule returned;
    (shape) a rule result whose shape is not func.shape + var.shape, or whose dtype differs, is rejected by the assertion, never returned."""
    prop = PROP
    fn = 'evaluable:derivative'
    bounded = 'func of shape (2,), target of shape (3,); entries symbolic'

    def __init__(self, scenario):
        self.scenario = scenario
        self.label = scenario
        self.expect_return = scenario != 'rule-returns-wrong-shape'

    def setup(self, cx):
        A, B = (2,), (3,)
        sc = self.scenario
        var = Target(B, INT if sc == 'integer-target' else FLOAT, 'v')
        good = TArr(symarr('J', A + B))
        bad = TArr(symarr('J', B + A))
        calls = []

        def rule(ctx, selfobj, v, seen):
            calls.append((v, seen))
            return bad if sc == 'rule-returns-wrong-shape' else good
        f = TArr(symarr('f', A), FLOAT, extras={'arguments': frozenset() if sc == 'independent' else frozenset([var])}, clsnames=('Array',))
        f.extras['_derivative'] = BoundMethod(f, rule, '_derivative')
        S = State(f=f, var=var, good=good, calls=calls, globals=dict(GLOBALS), A=A, B=B)
        S.globals['DerivativeTargetBase'] = ClassRef('DerivativeTargetBase')
        return S

    def body(self, cx, S, call):
        if self.scenario == 'memo':
            seen = {}
            r1 = call(self.fn, S.f, S.var, seen)
            r2 = call(self.fn, S.f, S.var, seen)
            return (r1, r2)
        return call(self.fn, S.f, S.var)

    def ensures(self, cx, S, result):
        B = z3.BoolVal
        sc = self.scenario
        if sc == 'rule-returns-wrong-shape':
            return [('wrong-shape-is-rejected', B(False))]
        if sc in ('integer-target', 'independent'):
            ok = isinstance(result, TArr) and result.arr.shape == S.A + S.B and all(x == 0 for x in result.arr.flat)
            return [('zeros-of-shape-func+target', B(bool(ok))), ('rule-not-consulted', B(not S.calls))]
        if sc == 'memo':
            r1, r2 = result
            return [('returns-what-the-rule-returned', B(r1 is S.good)), ('second-request-returns-the-same-object', B(r2 is r1)), ('rule-consulted-once', B(len(S.calls) == 1))]
        return [('returns-what-the-rule-returned', B(result is S.good)), ('rule-consulted-once-with-the-target', B(len(S.calls) == 1 and S.calls[0][0] is S.var))]

    def raises(self, cx, S, e):
        return self.scenario == 'rule-returns-wrong-shape' and e.exc.split(':')[0] == 'AssertionError'

    def replay(self, ob):
        return ("import sys; sys.path.insert(0, %r)\nfrom native import c04b\nc04b.driver(%r)\n" % (HERE, self.scenario))


def contracts():
    return [DerivRule(sc) for sc in scenarios() + pointwise_scenarios()] + [Driver(s) for s in ('plain', 'memo', 'integer-target', 'independent', 'rule-returns-wrong-shape')]
