"""Shared machinery for the C10 / C08 structural contracts.

RObj   an object of a REAL nutils class: every attribute that is not stored on the object is resolved against the
       class source in $VERIF_REPO (single-inheritance chain given explicitly): methods and properties execute the
       real body (re-extracted on every run), class-level constants are read from the class body, `super().m` continues
       the search after the class whose method is executing.  Nothing is transcribed.
NdInt  an n-dimensional numpy integer array with SYMBOLIC shape: (shape, sel(i0..ik) -> z3 Int).  Basic indexing
       (ints, slices with constant bounds, Ellipsis), slice assignment with same-shape / scalar values, arange,
       reshape 1-d -> n-d (row major) and the merge of consecutive axes (row major) are modelled exactly; everything
       else raises Unsupported (the run is undecided, never silently wrong).
"""
import ast
import z3
from pyvc import extract, ops
from pyvc.values import SInt, SBool, SObj, Sym, Unsupported, PyRaise, BoundMethod, zint, zbool

ALSO = {}  # ref -> extract.Fn of every real body executed through an RObj (reported by the contracts)


def run_real(ctx, ref, args, kwargs=None):
    """Execute the real function `ref` (module:Qual.name) in line on the current path."""
    from pyvc.interp import module_level_names
    fn = extract.get(ref)
    ALSO[ref] = fn
    if not hasattr(ctx, 'also_executed'):
        ctx.also_executed = {}
    ctx.also_executed[ref] = fn
    it = ctx.interp
    it.module_names = set(it.module_names) | module_level_names(extract.module_ast(fn.module)[1])
    it.index_loops(fn.node)
    return it.call_function(fn.node, tuple(args), dict(kwargs or {}))


class _Methods(dict):
    """methods table of an RObj: explicit models first; 'super().name' resolves along the class chain."""

    def __init__(self, owner):
        super().__init__()
        self.owner = owner

    def __contains__(self, key):
        if dict.__contains__(self, key):
            return True
        return isinstance(key, str) and key.startswith('super().')

    def __getitem__(self, key):
        if dict.__contains__(self, key):
            return dict.__getitem__(self, key)
        name = key[len('super().'):]
        owner = self.owner
        start = owner._stack[-1] + 1 if owner._stack else 1
        return owner._method(name, start)


class RObj(SObj):
    def __init__(self, clsname, mro, attrs=None, classes=(), models=None, closed=False):
        SObj.__init__(self, clsname, attrs=attrs, classes=classes or tuple(c for _, c in mro))
        self.closed = closed  # the listed chain is complete up to bases without public attributes (types.Singleton, object): a miss is an AttributeError
        self.mro = list(mro)  # [(module, class name), ...] most derived first
        self.models = dict(models or {})  # (class name, attr) -> callable(ctx, self, *a, **k): stands in for an unverified body
        self.methods = _Methods(self)
        self._stack = []

    def _find(self, name, start=0):
        for pos in range(start, len(self.mro)):
            module, cls = self.mro[pos]
            if (cls, name) in self.models:
                return pos, 'model', self.models[(cls, name)]
            c = extract.get_class(module, cls)
            for f in c.body:
                if isinstance(f, (ast.FunctionDef,)) and f.name == name:
                    decos = [ast.unparse(d) for d in f.decorator_list]
                    kind = 'property' if any(d.split('.')[-1] in ('property', 'cached_property') for d in decos) else \
                           'static' if 'staticmethod' in decos else 'method'
                    return pos, kind, '%s:%s.%s' % (module, cls, name)
                if isinstance(f, ast.Assign) and any(isinstance(t, ast.Name) and t.id == name for t in f.targets):
                    return pos, 'const', f.value
        return None

    def _invoke(self, ctx, pos, what, args, kwargs):
        self._stack.append(pos)
        try:
            if callable(what):
                return what(ctx, self, *args, **kwargs)
            return run_real(ctx, what, (self,) + tuple(args), kwargs)
        finally:
            self._stack.pop()

    def _method(self, name, start):
        r = self._find(name, start)
        if r is None:
            if name == '__init__':
                return lambda ctx, s, *a, **k: None  # object.__init__
            raise Unsupported('%s.%s not found along %s' % (self.clsname, name, [c for _, c in self.mro[start:]]))
        pos, kind, what = r
        if kind == 'const':
            raise Unsupported('%s.%s is not a method' % (self.clsname, name))
        return lambda ctx, s, *a, **k: self._invoke(ctx, pos, what, a, k)

    def getattr(self, ctx, name):
        if name in self.attrs:
            return self.attrs[name]
        if dict.__contains__(self.methods, name):
            return BoundMethod(self, dict.__getitem__(self.methods, name), name)
        r = self._find(name)
        if r is None and self.closed and not name.startswith('__'):
            raise PyRaise('AttributeError', note='%r object has no attribute %r' % (self.clsname, name))
        if r is None:
            raise Unsupported('attribute %s.%s: not stored and not defined along %s' % (self.clsname, name, [c for _, c in self.mro]))
        pos, kind, what = r
        if kind == 'const':
            try:
                return ast.literal_eval(what)
            except ValueError:
                raise Unsupported('class attribute %s.%s = %s' % (self.clsname, name, ast.unparse(what)))
        if kind == 'property':
            return self._invoke(ctx, pos, what, (), {})  # re-evaluated on every read (memoisation is assumed transparent)
        if kind == 'model':
            return BoundMethod(self, lambda ctx, s, *a, **k: self._invoke(ctx, pos, what, a, k), name)
        return BoundMethod(self, lambda ctx, s, *a, **k: self._invoke(ctx, pos, what, a, k), name)

    def length(self, ctx):
        return self.getattr(ctx, '__len__').call(ctx, (), {})

    def pytype(self, ctx):
        t = ctx.interp.globals.get(self.clsname)
        if t is None:
            raise Unsupported('type() of a %s: the class is not bound in the contract globals' % self.clsname)
        return t

    def truth(self, ctx):
        for nm in ('__bool__', '__len__'):
            if self._find(nm) is not None:
                return ctx.truth(self.getattr(ctx, nm).call(ctx, (), {}))
        return True

    def construct(ctx, clsname, mro, args, kwargs, models=None, classes=(), closed=False):
        o = RObj(clsname, mro, classes=classes, models=models, closed=closed)
        o.getattr(ctx, '__init__').call(ctx, tuple(args), dict(kwargs))
        return o


# ------------------------------------------------------------------------------------------------ n-d integer arrays --

def _iv(x):
    return x if isinstance(x, z3.ExprRef) else zint(x)


def _is_const(x, c=None):
    x = z3.simplify(x)
    return z3.is_int_value(x) and (c is None or x.as_long() == c)


def ravel(ix, shape):
    """row-major flat index of multi-index ix in an array of the given shape (Horner form)"""
    flat = z3.IntVal(0)
    for i, n in zip(ix, shape):
        flat = flat * n + i
    return flat


def product(shape):
    r = z3.IntVal(1)
    for n in shape:
        r = r * n
    return z3.simplify(r)


class NdInt(Sym):
    _n = 0

    def __init__(self, shape, sel, name='arr', base=None):
        self.shape = [z3.simplify(_iv(x)) for x in shape]
        self._sel = sel
        self.name = name
        self.base = base  # views read through to their base at call time

    def sel(self, *ix):
        return self._sel(*ix)

    # -- attributes
    def getattr(self, ctx, name):
        if name == 'shape':
            return tuple(SInt(x) for x in self.shape)
        if name == 'ndim':
            return len(self.shape)
        if name == 'reshape':
            return lambda ctx, *sh: self.reshape(ctx, sh[0] if len(sh) == 1 and isinstance(sh[0], (tuple, list)) else sh)
        raise Unsupported('ndarray.' + name)

    def length(self, ctx):
        if not self.shape:
            raise PyRaise('TypeError', note='len() of unsized object')
        return SInt(self.shape[0])

    # -- indexing
    def _plan(self, ctx, idx):
        """per base axis: ('int', coordinate) | ('slice', start, length)"""
        if not isinstance(idx, tuple):
            idx = (idx,)
        r = len(self.shape)
        if any(it is None for it in idx):
            raise Unsupported('newaxis in an n-d index')
        n_explicit = sum(1 for it in idx if it is not Ellipsis)
        if sum(1 for it in idx if it is Ellipsis) > 1:
            raise PyRaise('IndexError', note='an index can only have a single ellipsis')
        if n_explicit > r:
            raise PyRaise('IndexError', note='too many indices for array')
        full = []
        for it in idx:
            if it is Ellipsis:
                full += [slice(None)] * (r - n_explicit)
            else:
                full.append(it)
        if not any(it is Ellipsis for it in idx):
            full += [slice(None)] * (r - n_explicit)
        plan = []
        for it, n in zip(full, self.shape):
            if isinstance(it, slice):
                if it.step is not None and not (isinstance(it.step, int) and it.step == 1):
                    raise Unsupported('strided slice')
                if any(isinstance(x, Sym) for x in (it.start, it.stop)):
                    raise Unsupported('symbolic slice bound in an n-d index')

                def clamp(x, default):
                    if x is None:
                        return default
                    v = z3.IntVal(x) + n if x < 0 else z3.IntVal(x)
                    return z3.If(v < 0, 0, z3.If(v > n, n, v))
                start, stop = clamp(it.start, z3.IntVal(0)), clamp(it.stop, n)
                ln = z3.If(stop - start < 0, 0, stop - start)
                plan.append(('slice', z3.simplify(start), z3.simplify(ln)))
            elif isinstance(it, (int, SInt)) and not isinstance(it, bool):
                c = _iv(it)
                if not ctx.branch(z3.And(c >= -n, c < n)):
                    raise PyRaise('IndexError', note='index out of bounds for axis')
                plan.append(('int', z3.simplify(z3.If(c < 0, c + n, c))))
            else:
                raise Unsupported('n-d index item %r' % (it,))
        return plan

    def getitem(self, ctx, idx):
        plan = self._plan(ctx, idx)
        shape = [p[2] for p in plan if p[0] == 'slice']
        me = self

        def sel(*jx):
            jx = list(jx)
            ix = []
            for p in plan:
                ix.append(p[1] if p[0] == 'int' else p[1] + jx.pop(0))
            return me.sel(*ix)
        if not shape:
            return SInt(sel())
        return NdInt(shape, sel, self.name + '[..]', base=self)

    def setitem(self, ctx, idx, value):
        if self.base is not None:
            raise Unsupported('store through a view')
        plan = self._plan(ctx, idx)
        tshape = [p[2] for p in plan if p[0] == 'slice']
        old = self._sel
        if isinstance(value, NdInt):
            vshape = value.shape
            if len(vshape) > len(tshape):
                raise PyRaise('ValueError', note='could not broadcast input array')
            pad = len(tshape) - len(vshape)
            bcast = [True] * pad
            for t, v in zip(tshape[pad:], vshape):
                if ctx.branch(t == v):
                    bcast.append(False)
                elif ctx.branch(v == 1):
                    bcast.append(True)
                else:
                    raise PyRaise('ValueError', note='could not broadcast input array from shape into shape')
            # the right-hand side is evaluated before the store: freeze what it reads NOW
            frozen = _freeze(value)

            def val(jx):
                return frozen(*[z3.IntVal(0) if b else j for j, b in list(zip(jx, bcast))[pad:]])
        elif isinstance(value, (int, SInt)) and not isinstance(value, bool):
            c = _iv(value)

            def val(jx):
                return c
        else:
            raise Unsupported('store of %r into an n-d array' % (value,))

        def sel(*ix):
            conds, jx = [], []
            for p, i in zip(plan, ix):
                if p[0] == 'int':
                    conds.append(i == p[1])
                else:
                    conds.append(z3.And(p[1] <= i, i < p[1] + p[2]))
                    jx.append(i - p[1])
            return z3.If(z3.And(*conds) if conds else z3.BoolVal(True), val(jx), old(*ix))
        self._sel = sel

    # -- reshape
    def reshape(self, ctx, newshape):
        new = [z3.simplify(_iv(x)) for x in newshape]
        old = self.shape
        me = self
        if len(old) == 1:
            # 1-d -> n-d, row major: R[ix] = A[ravel(ix)]
            if not ctx.branch(product(new) == old[0]):
                raise PyRaise('ValueError', note='cannot reshape array')
            return NdInt(new, lambda *ix: me.sel(ravel(ix, new)), self.name + '.reshape', base=self)
        # merge of consecutive axes: every new axis is the product of a run of old axes
        groups, k = [], len(old)
        for tgt in reversed(new):
            run, prod = [], z3.IntVal(1)
            if _is_const(tgt):
                while k > 0 and _is_const(old[k - 1]) and (z3.simplify(prod).as_long() < tgt.as_long() or _is_const(old[k - 1], 1)):
                    k -= 1
                    run.insert(0, k)
                    prod = z3.simplify(prod * old[k])
                if z3.simplify(prod).as_long() != tgt.as_long():
                    raise Unsupported('reshape %s -> %s' % (old, new))
            else:
                # a symbolic target takes all the remaining leading axes (only allowed for the first new axis)
                if tgt is not new[0] or k == 0:
                    raise Unsupported('reshape %s -> %s' % (old, new))
                run = list(range(k))
                k = 0
                if not ctx.branch(product([old[a] for a in run]) == tgt):
                    raise PyRaise('ValueError', note='cannot reshape array')
            groups.insert(0, run)
        if k != 0:
            raise Unsupported('reshape %s -> %s' % (old, new))
        return Merged(new, self, groups)


def _freeze(arr):
    """the function currently denoted by arr (a right-hand side is evaluated before the store; later stores into its
    root are not seen)"""
    root = arr
    while root.base is not None:
        root = root.base
    snap = root._sel

    def sel(*ix):
        saved = root._sel
        root._sel = snap
        try:
            return arr.sel(*ix)
        finally:
            root._sel = saved
    return sel


class Merged(NdInt):
    """A.reshape(...) merging consecutive axes of A in row-major order: for multi-indices g_k of the merged runs
    R[ravel(g_0), ravel(g_1), ...] = A[g_0 ++ g_1 ++ ...]   (numpy C-order reshape; cross-checked in native/axioms.py).
    Rows are addressed by the multi-index of the run (`sel_multi`); addressing by a symbolic flat index would need the
    inverse (unravel) and is outside the model."""

    def __init__(self, shape, base, groups):
        if base.base is not None:
            raise Unsupported('reshape of a view (copy or view depends on strides)')
        NdInt.__init__(self, shape, None, base.name + '.reshape', base=base)  # a C-contiguous array: reshape is a view
        self.groups = groups
        self._frozen = lambda *ix: base.sel(*ix)

    def sel_multi(self, *gs):
        ix = []
        for run, g in zip(self.groups, gs):
            g = list(g)
            if len(g) != len(run):
                raise Unsupported('sel_multi: run of %d axes addressed by %d indices' % (len(run), len(g)))
            ix += g
        return self._frozen(*ix)

    def sel(self, *ix):
        out = []
        for run, i in zip(self.groups, ix):
            dims = [self.base.shape[a] for a in run]
            if all(_is_const(d) for d in dims):
                # unravel a (possibly symbolic) flat index over constant extents exactly
                rem = _iv(i)
                part = []
                for d in reversed(dims):
                    part.insert(0, rem % d)
                    rem = rem / d
                out += part
            elif len(run) == 1:
                out.append(_iv(i))
            else:
                raise Unsupported('flat index into merged symbolic axes (use the multi-index)')
        return self._frozen(*out)

    def getitem(self, ctx, idx):
        raise Unsupported('indexing a merged array')

    def setitem(self, ctx, idx, value):
        raise Unsupported('store into a merged array')


class NumpyNd:
    """numpy externals of the structured-topology code (exact; see TRUSTED)"""

    def sym_getattr(self, ctx, name):
        if name == 'empty':
            def empty(ctx, shape, dtype=None):
                NdInt._n += 1
                shape = [_iv(x) for x in ops.iterate(ctx, shape)]
                f = z3.Function('empty!%d' % NdInt._n, *([z3.IntSort()] * len(shape)), z3.IntSort())
                return NdInt(shape, lambda *ix: f(*ix), 'empty')
            return empty
        if name == 'arange':
            return lambda ctx, n: NdInt([_iv(n)], lambda i: i, 'arange')
        if name == 'prod':
            def prod(ctx, xs, dtype=None):
                r = 1
                for x in ops.iterate(ctx, xs):
                    r = ops.binop(ctx, '*', r, x)
                return r
            return prod
        raise Unsupported('numpy.' + name)


class Stub:
    """module stand-in: only the listed names exist"""

    def __init__(self, label, **names):
        self.label, self.names = label, names

    def sym_getattr(self, ctx, name):
        if name in self.names:
            return self.names[name]
        raise Unsupported('%s.%s is not modelled' % (self.label, name))
