"""C13 (kernel) -- all documented spellings of an argument specification are equivalent; wrong shapes/dtypes are rejected.

function._argument_to_array(d, array), per specification item (the loop body keeps no state between items, so the
item lemma extends to any number of items -- meta-argument), for every spelling
    dict {key: value} | sequence of (key, value) pairs | 'key:value' string | sequence of 'key:value' strings
with key a name or an Argument object and value a name, an Argument or an array:

  ensures  key names no argument of `array`            =>  nothing is yielded
           otherwise exactly one pair (Argument(name, shape, dtype) of the array's own argument, replacement) where the
           replacement is Argument(newname, shape, dtype) for a name, and the given array otherwise
  raises   ValueError exactly when the key is neither str nor Argument, an Argument key disagrees with the array's
           argument in shape/dtype, or an array replacement disagrees in shape/dtype; nothing else escapes

function._Replace.__init__: the announced `arguments` table is
    (arguments of arg minus the replaced names)  joined with  (arguments of the replacements)
for every spelling.  function._join_arguments / arguments_for: union of the tables, ValueError on a clash.

Names, shapes and dtypes are symbolic (uninterpreted sorts); the array has two arguments with distinct names
(BOUNDED in the number of arguments; labelled so).
"""
import z3
from pyvc.contract import Contract, State
from pyvc.values import SObj, SOpaque, STerm, SBool, Sym, Unsupported, PyRaise, zbool
from pyvc.ops import ClassRef
from pyvc import ops, extract
from pyvc.interp import Closure, Env

PROP = 'C13'
LEVEL = 'proof'

NAME = z3.DeclareSort('Name')
SHAPE = z3.DeclareSort('Shape')
DT = z3.DeclareSort('Dtype')
BOUND = 'the array has exactly two arguments (distinct symbolic names); one specification item'


def name(cx, n):
    return STerm(cx.const(n, NAME), (str,), n)


CONCAT = z3.Function('shape_concat', SHAPE, SHAPE, SHAPE)  # tuple concatenation of two shapes
NDIM = z3.Function('shape_ndim', SHAPE, z3.IntSort())  # len(shape)


class ShapeT(STerm):
    """A shape (tuple of ints of unknown rank): equality, `+` (tuple concatenation, uninterpreted with the instances
    of len(a+b) = len(a)+len(b) added where used) and conditional merge."""

    def binop(self, ctx, op, other, reflected):
        if op == '+' and isinstance(other, ShapeT):
            a, b = (other, self) if reflected else (self, other)
            t = CONCAT(a.term, b.term)
            ctx.assume(z3.And(NDIM(t) == NDIM(a.term) + NDIM(b.term), NDIM(a.term) >= 0, NDIM(b.term) >= 0), axiom='len(s + t) == len(s) + len(t) >= 0 for tuples')
            return ShapeT(t, (tuple,))
        return NotImplemented

    def merge_with(self, c, other, reflected):
        r = super().merge_with(c, other, reflected)
        return ShapeT(r.term, r.pytypes) if isinstance(r, STerm) else r

    def havoc(self, ctx, name):
        return ShapeT(ctx.const(name, SHAPE, report=False), self.pytypes)


def shape(cx, n):
    return ShapeT(cx.const(n, SHAPE), (tuple,), n)


DT_CONST = {t: z3.Const('dtype_' + t.__name__, DT) for t in (bool, int, float, complex)}
DT_DISTINCT = z3.Distinct(*DT_CONST.values())


class DTerm(STerm):
    """A dtype: may equal one of the builtin types bool/int/float/complex (distinct constants) or be anything else."""

    def compare(self, ctx, op, other, reflected):
        from pyvc.ops import Builtin
        t = other.type if isinstance(other, Builtin) else other
        if isinstance(t, type) and t in DT_CONST and op in ('==', '!='):
            e = self.term == DT_CONST[t]
            return SBool(e if op == '==' else z3.Not(e))
        return super().compare(ctx, op, other, reflected)

    def merge_with(self, c, other, reflected):
        r = super().merge_with(c, other, reflected)
        return DTerm(r.term, r.pytypes) if isinstance(r, STerm) else r


def dtype(cx, n):
    cx.assume(DT_DISTINCT)
    return DTerm(cx.const(n, DT), (type,), n)


def make_argument(ctx, nm, sh, dt):
    return SObj('Argument', attrs=dict(name=nm, shape=sh, dtype=dt, spaces=(), arguments={nm: (sh, dt)}), classes=('Argument', 'Array'))


class SpecStr(Sym):
    """The string spelling 'k:v' (or an item of a sequence of such strings).  str.split is an external: for names
    free of ',' and ':' it returns the parts the string was built from."""

    def __init__(self, k, v, whole):
        self.k, self.v, self.whole = k, v, whole
        self.substr = None

    def isinstance_(self, ctx, types):
        return str in types

    def getattr(self, ctx, attr):
        if attr == 'split':
            def split(ctx, sep, maxsplit=-1):
                ctx.used_axioms.add("str.split: 'k:v'.split(':', 1) == ['k', 'v'] and 'a,b'.split(',') == ['a', 'b'] for names free of ',' and ':'")
                if sep == ',':
                    return [SpecStr(self.k, self.v, False)]
                if sep == ':':
                    if maxsplit != 1 and not self.colon_free_value:
                        raise Unsupported('split(":") without limit on a value that may contain ":"')
                    return [self.k, self.v]
                raise Unsupported('split(%r)' % (sep,))
            return split
        raise Unsupported('str.%s' % attr)

    colon_free_value = False

    def contains(self, ctx, item):
        # substring test on the specification string: true for the key and the value (they occur in it),
        # otherwise unconstrained (e.g. 'u' in 'uw:x')
        if not isinstance(item, STerm):
            raise Unsupported('substring test with %r' % (item,))
        f = z3.Function('is_substring_of_spec', NAME, z3.BoolSort())
        ctx.assume(z3.And(f(self.k.term), f(self.v.term)))
        return SBool(f(item.term))

    def truth(self, ctx):
        return True


def build_spec(cx, spelling, key, value):
    if spelling == 'dict':
        return {key: value}
    if spelling == 'pairs':
        return [(key, value)]
    if spelling == 'str':
        return SpecStr(key, value, True)
    if spelling == 'strs':
        return (SpecStr(key, value, False),)
    raise ValueError(spelling)


def setup_common(cx, keykind, valkind, spelling):
    n1, n2 = name(cx, 'arg1.name'), name(cx, 'arg2.name')
    cx.assume(n1.term != n2.term)
    sh1, sh2, dt1, dt2 = shape(cx, 'arg1.shape'), shape(cx, 'arg2.shape'), dtype(cx, 'arg1.dtype'), dtype(cx, 'arg2.dtype')
    array = SObj('Array', attrs=dict(arguments={n1: (sh1, dt1), n2: (sh2, dt2)}, shape=shape(cx, 'array.shape'), dtype=dtype(cx, 'array.dtype'), spaces=SOpaque('spaces')), classes=('Array',))
    k = name(cx, 'key.name')
    if keykind == 'name':
        key = k
        ksh = kdt = None
    elif keykind == 'argument':
        ksh, kdt = shape(cx, 'key.shape'), dtype(cx, 'key.dtype')
        key = make_argument(cx, k, ksh, kdt)
    else:
        key, ksh, kdt = 3, None, None
    v = name(cx, 'new.name')
    if valkind == 'name':
        value, vsh, vdt = v, None, None
    elif valkind == 'argument':
        vsh, vdt = shape(cx, 'new.shape'), dtype(cx, 'new.dtype')
        value = make_argument(cx, v, vsh, vdt)
    else:
        vsh, vdt = shape(cx, 'new.shape'), dtype(cx, 'new.dtype')
        m = name(cx, 'new.argname')
        value = SObj('Array', attrs=dict(shape=vsh, dtype=vdt, spaces=(), arguments={m: (shape(cx, 'new.arg.shape'), dtype(cx, 'new.arg.dtype'))}), classes=('Array',))
    spec = build_spec(cx, spelling, key, value)
    inarr = z3.Or(k.term == n1.term, k.term == n2.term)
    tsh = z3.If(k.term == n1.term, sh1.term, sh2.term)
    tdt = z3.If(k.term == n1.term, dt1.term, dt2.term)
    G = dict(array=array, n=(n1, n2), sh=(sh1, sh2), dt=(dt1, dt2), k=k, key=key, ksh=ksh, kdt=kdt, v=v, value=value, vsh=vsh, vdt=vdt,
             inarr=inarr, tsh=tsh, tdt=tdt, keykind=keykind, valkind=valkind, spelling=spelling, spec=spec)
    return G


GLOBALS = {
    'Argument': ClassRef('Argument', construct=make_argument),
    'Array': ClassRef('Array', attrs={'cast': lambda ctx, x: x}),
}


def must_reject(G):
    """the documented ValueError condition"""
    conds = []
    if G['keykind'] == 'other':
        return z3.BoolVal(True)
    if G['keykind'] == 'argument':
        conds.append(z3.And(G['inarr'], z3.Or(G['ksh'].term != G['tsh'], G['kdt'].term != G['tdt'])))
    if G['valkind'] in ('argument', 'array'):
        conds.append(z3.And(G['inarr'], z3.Or(G['vsh'].term != G['tsh'], G['vdt'].term != G['tdt'])))
    return z3.Or(*conds) if conds else z3.BoolVal(False)


class ArgumentToArray(Contract):
    prop = PROP
    fn = 'function:_argument_to_array'
    bounded = None

    def __init__(self, spelling, keykind, valkind):
        self.spelling, self.keykind, self.valkind = spelling, keykind, valkind
        self.label = '%s,key=%s,value=%s' % (spelling, keykind, valkind)
        self.expect_return = keykind != 'other'

    def setup(self, cx):
        G = setup_common(cx, self.keykind, self.valkind, self.spelling)
        return State(args=(G['spec'], G['array']), G=G, globals=dict(GLOBALS))

    def raises(self, cx, S, e):
        if e.exc == 'ValueError':
            return must_reject(S.G)
        return False

    def ensures(self, cx, S, result):
        G = S.G
        out = [('accepted-only-if-consistent', z3.Not(must_reject(G)))]
        if not isinstance(result, list):
            raise Unsupported('yielded %r' % (result,))
        if len(result) == 0:
            out.append(('nothing-yielded-only-for-foreign-name', z3.Not(G['inarr'])))
            return out
        if len(result) != 1:
            raise Unsupported('%d pairs yielded for one item' % len(result))
        a, new = result[0]
        ok = [G['inarr']]
        if not (isinstance(a, SObj) and 'Argument' in a.classes):
            raise Unsupported('first component is %r' % (a,))
        ok += [a.attrs['name'].term == G['k'].term, a.attrs['shape'].term == G['tsh'], a.attrs['dtype'].term == G['tdt']]
        out.append(('yields-the-arrays-own-argument', z3.And(*ok)))
        if G['valkind'] == 'name':
            if not (isinstance(new, SObj) and 'Argument' in new.classes):
                raise Unsupported('replacement is %r' % (new,))
            out.append(('replacement-is-argument-of-same-shape', z3.And(new.attrs['name'].term == G['v'].term, new.attrs['shape'].term == G['tsh'], new.attrs['dtype'].term == G['tdt'])))
        else:
            out.append(('replacement-is-the-given-array', z3.BoolVal(new is G['value'])))
        return out

    def replay(self, ob):
        return _script('argument_to_array(%r, %r, %r)' % (self.spelling, self.keykind, self.valkind))


def _script(call):
    import os
    here = os.path.dirname(os.path.dirname(os.path.abspath(__file__)))
    return "import sys; sys.path.insert(0, %r)\nfrom native import c13\nc13.%s\n" % (here, call)


class InlineFn:
    """Execute another repository function (real body) as part of this path."""

    def __init__(self, ref, extra_globals=None):
        self.ref = ref
        self.extra = extra_globals or {}

    def __call__(self, ctx, *args, **kwargs):
        from pyvc.interp import module_level_names
        fn = extract.get(self.ref)
        it = ctx.interp
        # names defined in the inlined function's own module are "known but unmodelled", not unbound
        it.module_names = set(it.module_names) | module_level_names(extract.module_ast(fn.module)[1])
        for k, v in self.extra.items():
            it.globals.setdefault(k, v)
        return it.call_function(fn.node, args, kwargs)


class ReplaceInit(Contract):
    prop = PROP
    fn = 'function:_Replace.__init__'
    bounded = BOUND

    def __init__(self, spelling, valkind):
        self.spelling, self.valkind = spelling, valkind
        self.label = '%s,value=%s' % (spelling, valkind)

    def raises(self, cx, S, e):
        if e.exc == 'ValueError':
            # a clash between an unreplaced argument and a replacement's argument of the same name, or bad shapes
            return True
        return False

    def setup(self, cx):
        G = setup_common(cx, 'name', self.valkind, self.spelling)
        S = State(G=G, captured=None)

        def super_init(ctx, s, shape_, dtype_, spaces, arguments):
            S.captured = arguments
        selfobj = SObj('_Replace', methods={'super().__init__': super_init})
        S.args = (selfobj, G['array'], G['spec'])
        S.globals = dict(GLOBALS)
        S.globals['_argument_to_array'] = InlineFn('function:_argument_to_array')
        S.globals['_join_arguments'] = InlineFn('function:_join_arguments')
        S.globals['_dtypes'] = ()
        return S

    def ensures(self, cx, S, result):
        G = S.G
        got = S.captured
        if not isinstance(got, dict):
            raise Unsupported('announced arguments %r' % (got,))
        n1, n2 = G['n']
        sh1, sh2 = G['sh']
        dt1, dt2 = G['dt']
        k = G['k']
        # expected table: array arguments other than k (if k is one of them), plus the replacement's arguments (if k is one of them)
        expected = []
        for nm, sh, dt in ((n1, sh1, dt1), (n2, sh2, dt2)):
            expected.append((z3.Not(k.term == nm.term), nm, sh.term, dt.term))
        if self.valkind == 'name':
            expected.append((G['inarr'], G['v'], G['tsh'], G['tdt']))
        else:
            (m, (msh, mdt)), = G['value'].attrs['arguments'].items()
            expected.append((G['inarr'], m, msh.term, mdt.term))
        gotl = list(got.items())
        clauses = []
        # every expected entry is announced with its shape/dtype
        for cond, nm, sh, dt in expected:
            hit = z3.Or(*[z3.And(gk.term == nm.term, gv[0].term == sh, gv[1].term == dt) for gk, gv in gotl]) if gotl else z3.BoolVal(False)
            clauses.append(z3.Implies(cond, hit))
        # nothing else is announced
        for gk, gv in gotl:
            clauses.append(z3.Or(*[z3.And(cond, gk.term == nm.term) for cond, nm, sh, dt in expected]))
        return [('announced-arguments-are-unreplaced-plus-replacement-arguments', z3.And(*clauses))]

    def replay(self, ob):
        return _script('replace_arguments(%r, %r)' % (self.spelling, self.valkind))


class JoinArguments(Contract):
    prop = PROP
    fn = 'function:_join_arguments'
    bounded = 'two tables of one entry each'

    def setup(self, cx):
        a, b = name(cx, 'a'), name(cx, 'b')
        sa, sb, da, db = shape(cx, 'a.shape'), shape(cx, 'b.shape'), dtype(cx, 'a.dtype'), dtype(cx, 'b.dtype')
        S = State(args=([{a: (sa, da)}, {b: (sb, db)}],), a=a, b=b, sa=sa, sb=sb, da=da, db=db)
        S.globals = {'_dtypes': ()}
        return S

    def clash(self, S):
        return z3.And(S.a.term == S.b.term, z3.Or(S.sa.term != S.sb.term, S.da.term != S.db.term))

    def raises(self, cx, S, e):
        return self.clash(S) if e.exc == 'ValueError' else False

    def ensures(self, cx, S, result):
        items = list(result.items())
        has = lambda nm, sh, dt: z3.Or(*[z3.And(k.term == nm.term, v[0].term == sh.term, v[1].term == dt.term) for k, v in items]) if items else z3.BoolVal(False)
        only = z3.And(*[z3.Or(k.term == S.a.term, k.term == S.b.term) for k, v in items])
        return [('no-clash', z3.Not(self.clash(S))), ('union', z3.And(has(S.a, S.sa, S.da), has(S.b, S.sb, S.db), only))]


class ArgumentsFor(JoinArguments):
    fn = 'function:arguments_for'

    def setup(self, cx):
        S = super().setup(cx)
        arrs = [SObj('Array', attrs={'arguments': d}, classes=('Array',)) for d in S.args[0]]
        S.args = tuple(arrs)
        S.globals = dict(GLOBALS)
        return S

    def ensures(self, cx, S, result):
        items = list(result.items())

        def has(nm, sh, dt):
            return z3.Or(*[z3.And(k.term == nm.term, v.attrs['name'].term == nm.term, v.attrs['shape'].term == sh.term, v.attrs['dtype'].term == dt.term) for k, v in items]) if items else z3.BoolVal(False)
        only = z3.And(*[z3.Or(k.term == S.a.term, k.term == S.b.term) for k, v in items])
        return [('no-clash', z3.Not(self.clash(S))), ('union', z3.And(has(S.a, S.sa, S.da), has(S.b, S.sb, S.db), only))]


class MonomialDerivative(Contract):
    """evaluable.Monomial._derivative (the derivative of a factored polynomial): the scatter index of the contribution of
    a multi-dimensional argument is its ROW-MAJOR ravel index, and the scatter length is the argument's size:
        Inflate(Diagonalize(m), sum_i idx_i * prod_{j>i} len_j, prod_j len_j)  then  unravel(..., arg.shape)."""
    prop = PROP
    fn = 'evaluable:Monomial._derivative'
    bounded = 'one argument of rank 1..3 (symbolic lengths and index values), power 1'

    def __init__(self, rank):
        self.rank = rank
        self.label = 'arg.ndim=%d' % rank

    def setup(self, cx):
        from contracts.ravel import ir
        r = self.rank
        lens = [ir(cx, 'len%d' % k, 1) for k in range(r)]
        idx = [ir(cx, 'idx%d' % k, 0) for k in range(r)]
        arg = SObj('Array', attrs={'ndim': r, 'shape': tuple(lens)}, classes=('Array',))
        values = SObj('Array', attrs={'shape': (SOpaque('n'),), 'dtype': SOpaque('dtype')}, classes=('Array',))
        me = SObj('Monomial', attrs=dict(values=values, args=(arg,), indices=(tuple(idx),), powers=(1,), shape=(SOpaque('n'),), dtype=SOpaque('dtype')))
        S = State(args=(me, SOpaque('var'), {}), lens=lens, idx=idx, arg=arg, inflates=[], unravels=[])
        S.args[1].attrs['shape'] = ()

        class Acc(Sym):
            def binop(s, ctx, op, other, reflected):
                return s

            def sym_iop(s, ctx, op, rhs):
                return s

            def getattr(s, ctx, name):
                if name == 'dtype':
                    return lambda ctx, x: x
                raise Unsupported(name)

        def Inflate(ctx, f, index, length):
            S.inflates.append((index, length))
            return Acc()

        def unravel(ctx, f, axis, shape):
            S.unravels.append((axis, shape))
            return Acc()
        S.globals = {'iszero': lambda ctx, x: True, 'derivative': lambda ctx, *a: Acc(), 'Zeros': lambda ctx, *a: Acc(), 'Monomial': lambda ctx, *a: Acc(),
                     'Diagonalize': lambda ctx, m: m, 'Inflate': Inflate, 'unravel': unravel, 'einsum': lambda ctx, *a: Acc()}
        return S

    def ensures(self, cx, S, result):
        from contracts.ravel import rowmajor
        from contracts.C01 import IR
        from pyvc.values import zint
        if len(S.inflates) != 1 or len(S.unravels) != 1:
            return [('one-scatter-per-argument', z3.BoolVal(False))]
        index, length = S.inflates[0]
        flat, size = rowmajor([x.val for x in S.idx], [l.val for l in S.lens])
        iv = index.val if isinstance(index, IR) else zint(index)
        lv = length.val if isinstance(length, IR) else zint(length)
        axis, shape = S.unravels[0]
        return [('one-scatter-per-argument', z3.BoolVal(True)), ('row-major-ravel-index', iv == flat), ('scatter-length-is-size', lv == size),
                ('unravelled-to-the-argument-shape', z3.BoolVal(axis == -1 and tuple(shape) == tuple(S.lens)))]

    def replay(self, ob):
        return _script('monomial_derivative()')


def contracts():
    cs = [MonomialDerivative(1), MonomialDerivative(2), MonomialDerivative(3)]
    for spelling in ('dict', 'pairs', 'str', 'strs'):
        for keykind in ('name', 'argument', 'other'):
            for valkind in ('name', 'argument', 'array'):
                if spelling in ('str', 'strs') and (keykind != 'name' or valkind != 'name'):
                    continue  # a string can only spell names
                cs.append(ArgumentToArray(spelling, keykind, valkind))
    for spelling in ('dict', 'pairs', 'str', 'strs'):
        for valkind in ('name', 'array'):
            if spelling in ('str', 'strs') and valkind != 'name':
                continue
            cs.append(ReplaceInit(spelling, valkind))
    cs += [JoinArguments(), ArgumentsFor()]
    from contracts import c13_ext, c13_runtime, c13_dag, c13_degree
    cs += c13_ext.contracts()
    cs += c13_ext.field_contracts()
    cs += c13_runtime.contracts()
    cs += c13_dag.contracts()
    cs += c13_degree.contracts()
    return cs



TRUSTED = ['pyvc symbolic executor and its Python model; dicts with symbolic keys read as association lists',
           "str.split as an external (names free of ',' and ':'); substring test on a specification string: true for its parts, unconstrained otherwise",
           'generator _argument_to_array evaluated eagerly (its consumers exhaust it at once)',
           'Array.cast is the identity on arrays; the Argument constructor stores name, shape, dtype (default dtype float, no spaces, arguments {name: (shape, dtype)})',
           # c13_ext
           '@nutils_dispatch is transparent for arguments without __nutils_dispatch__ (decorator dropped)',
           'shapes of unknown rank: uninterpreted sort with tuple concatenation, len(s + t) == len(s) + len(t); frozenset union with s | {} == s',
           'function.Array metadata of `*`/`+` (function._Wrapper over the broadcast operands): shape = numpy broadcast with broadcast(s + t, t) == s + t and broadcast(s, s) == s, '
           'dtype promotion with promote(d, d) == d, spaces = union, arguments = _join_arguments (REAL body) of the operands; numpy.sum over the axes len(s)..len(s)+len(t)-1 of shape s + t '
           'leaves s and keeps int/float/complex dtype, spaces, arguments; util.sum = functools.reduce(operator.add) (TypeError when empty) -- cross-checked in native/axioms_c13.py',
           'tuple(g(n) for n in shape) over a shape of unknown rank is the elementwise map (g evaluated once on a generic element); evaluable.Argument/constant are recorded, not executed',
           'function arrays of known rank (field/dotarg): Array.transpose(axes) permutes the shape, function._append_axes(a, s) has shape a.shape + s, `*` broadcasts axis by axis from the '
           'right (ValueError when two lengths differ and neither is 1), numpy.sum(a, axis) removes that axis; dtype/arguments as above -- cross-checked in native/axioms_c13.py',
           # c13_runtime
           '_pyast expression builders (Variable, LiteralStr, BinOp, get_attr, call, get_item) denote the Python expressions they print; _BlockBuilder.assign_to/if_/raise_ emit '
           '`lhs = rhs` / `if c:` / `raise e` (their locking discipline is C16, faithful printing is C02: not applicable); builder.compile(self.shape) is a variable holding the declared shape; '
           'numpy.asarray(v, dtype=...) has shape numpy.shape(v) (no broadcasting); tuple != on shapes is inequality',
           # c13_dag
           '_util._reduce: Node -> (constructor, children), Argument -> (Argument, (name, shape, dtype)), non-empty tuple -> (_tuple, items), terminals/empty containers -> None; '
           'util.IDDict is a mapping keyed by identity; collections.namedtuple; functools.wraps is transparent; evaluable.asarray is the identity on Arrays; '
           '_any_certainly_different(s1, s2) implies s1 != s2; zeros_like(a) is the zero array of the shape and dtype of a',
           # c13_degree
           'degree MEANING per node class (contracts/c13_degree.py KIND): deg(f g) <= deg f + deg g; deg(f + g) <= max; deg(f ** p) <= p deg f for a constant scalar non-negative integer p '
           '(.simplified, unalign, Cast keep the value of the exponent); an Argument has degree 1 in itself; Monomial <= deg(values) + sum deg(args); InsertAxis, Transpose, Sum, TakeDiag, Take, '
           'Inflate, Diagonalize, Ravel, Unravel, LoopSum, LoopConcatenate are linear in `func` when their other Array operands do not depend on the argument; a node independent of the '
           'argument is polynomial of degree 0 -- cross-checked numerically (finite differences) in native/axioms_c13.py',
           'structural induction over the expression DAG (rule contract + wrapper contract => every argument_degree is an upper bound): meta-argument, as in C06']
ASSUMPTIONS = ['names, shapes, dtypes are arbitrary values with equality (uninterpreted sorts)',
               'BOUNDED: the array has two arguments, one specification item per call (iterations are independent: meta-argument)',
               'linearize: the specification names an argument of f (a foreign name or an empty specification makes util.sum raise TypeError: candidate defect, contracts parked in c13_ext.PARKED)',
               'BOUNDED (c13_dag): expression DAGs T1..T5 (<= 5 nodes, depth <= 3, one shared interior node, one shared leaf, one tuple-valued field), two replacement keys k1 != k2, '
               'argument shapes are irreducible objects (the real shapes are tuples of constants, which are traversed too)',
               'c13_degree: index arrays of a Monomial are constants (call sites evaluable.factor and Monomial._derivative); for LoopConcatenate a loop length that depends on the '
               'argument makes concat_length depend on it (call site evaluable.loop_concatenate); Multiply/Add have exactly two operands (class invariant); '
               'BOUNDED: Monomial with <= 3 args, exponent of Power under <= 1 Cast',
               'BOUNDED (field/dotarg): 0..2 arrays of rank 1..2, extra shape of rank 0..1, each array depending on one argument; lengths symbolic and >= 0',
               'Argument._compile: `shape`, the variable for the node and its block come from the builder (C16 / C02 territory)']
NOT_COVERED = ['that lowering evaluates to the substituted value on real arrays (semantic; needs array semantics) -- covered only structurally: evaluable.replace_arguments rebuilds the DAG with '
               'the replacement objects in place (bounded DAG family)',
               'values of derivative / linearize (only announced shape, dtype, spaces, arguments and the evaluable target are proved; values only in the native replays)',
               'evaluable.factor itself (its queue loop needs eval_once, sparse extraction and simplification): only its ingredients zero_all_arguments, argument_degree, Monomial._derivative; '
               'function.factor/_Factor',
               'function.field / dotarg beyond two arrays of rank <= 2 (bounded configurations); its value (inner product) only in the native replay',
               'broadcast/promotion metadata of function arrays in general (assumed, see TRUSTED); _Replace.lower / _Derivative.lower',
               'memoisation of irreducible objects in shallow_replace (str, type objects are visited once per occurrence: harmless, the callable is pure)',
               'the exact degree (argument_degree is only proved to be an upper bound; e.g. u**0 is declined because the zero exponent simplifies to Zeros, not Constant)']
