"""C14, part 3 -- the line-search strategies NormBased / MedianBased: control flow under IEEE comparison semantics.

Vectors are uninterpreted arrays (contracts/c14_methods.Num), the scalars p0, q0, p1, q1, c, d, D, scale are IEEE SFp values
computed by UNINTERPRETED arithmetic (any float, including inf and nan, can come out of any operation); math.fsum and
float ** int may raise the Python exceptions they raise natively (ValueError `-inf + inf in fsum`, OverflowError).

Clauses (NormBased.__call__):
  certified part (in contracts()):
    nonfinite-residual-gives-minscale-rejected   not isfinite(res1).all()  =>  result == (minscale, False)
    accepted-step-has-scale-at-least-acceptscale accept => returned scale >= acceptscale
    accepted-step-reduces-the-residual-norm      accept => res1@res1 < res0@res0
  strict part (PARKED, fails on the unchanged tree, reproduced natively -- see notes/C14-methods.md "candidate defects"):
    scale-within-minscale-maxscale               minscale <= returned scale <= maxscale
    rejected-step-has-scale-below-one            not accept => returned scale < 1     (LinesearchNewton asserts this)
    only SolverError escapes
"""
import z3
from pyvc.contract import Contract, State
from pyvc.values import Sym, SBool, SObj, PyRaise, Unsupported, zbool, FIN, NAN, PINF
from pyvc.fp import SFp, fp_apply
from pyvc.ops import ExcInstance
from contracts.c14_methods import Num, MNumpy, NUM, BOOL, fn, op, scalar_of, _script

PROP = 'C14'


class Math:
    """math.fsum / math.sqrt / math.inf with the exceptions CPython raises."""

    def sym_getattr(self, ctx, name):
        if name == 'inf':
            return float('inf')
        if name == 'fsum':
            def fsum(ctx, xs):
                if not isinstance(xs, list) or not all(isinstance(x, SFp) for x in xs):
                    raise Unsupported('math.fsum of %r' % (xs,))
                pinf = z3.Or(*[x.t == 1 for x in xs])
                ninf = z3.Or(*[x.t == 2 for x in xs])
                anynan = z3.Or(*[x.t == NAN for x in xs])
                allfin = z3.And(*[x.t == FIN for x in xs])
                anyfin = z3.Or(*[x.t == FIN for x in xs])
                if ctx.branch(z3.And(anyfin, ctx.bool('fsum.intermediate-overflow', report=False))):
                    raise PyRaise('OverflowError', payload=ExcInstance('OverflowError'), note='math.fsum: intermediate overflow in fsum')
                if ctx.branch(z3.And(pinf, ninf)):
                    raise PyRaise('ValueError', payload=ExcInstance('ValueError'), note='math.fsum: -inf + inf in fsum')
                r = fp_apply(ctx, 'fsum%d' % len(xs), *xs)
                ctx.assume(z3.And(z3.Implies(allfin, r.t == FIN), z3.Implies(anynan, r.t == NAN),
                                  z3.Implies(z3.And(pinf, z3.Not(anynan)), r.t == 1), z3.Implies(z3.And(ninf, z3.Not(anynan)), r.t == 2)),
                           axiom='math.fsum: may raise OverflowError (intermediate overflow of the finite partial sums); +inf and -inf together raise ValueError; '
                                 'otherwise nan if an input is nan, else the infinity present, else a finite sum')
                return r
            return fsum
        if name == 'sqrt':
            def sqrt(ctx, x):
                x = SFp.lift(x)
                if ctx.branch(z3.Or(x.t == 2, z3.And(x.t == FIN, x.v < 0))):
                    raise PyRaise('ValueError', payload=ExcInstance('ValueError'), note='math.sqrt: math domain error')
                r = fp_apply(ctx, 'sqrt', x)
                ctx.assume(z3.And(r.t == z3.If(x.t == FIN, FIN, x.t), z3.Implies(x.t == FIN, z3.And(r.v >= 0, (r.v == 0) == (x.v == 0)))),
                           axiom='math.sqrt(x) for x >= 0: finite and >= 0 (0 iff x == 0); inf -> inf; nan -> nan')
                return r
            return sqrt
        raise Unsupported('math.' + name)


def pow_hook(ctx, name, args, r):
    """Python float ** int raises OverflowError when the finite result is out of range (c is a Python float: math.fsum returns one)."""
    if name == 'pow':
        a = args[0]
        if ctx.branch(z3.And(a.t == FIN, ctx.bool('pow.overflow', report=False))):
            raise PyRaise('OverflowError', payload=ExcInstance('OverflowError'), note='float ** 2: (34, Numerical result out of range)')


class NormBased(Contract):
    prop = PROP
    fn = 'solver:NormBased.__call__'
    strict = False

    def __init__(self, strict=False):
        self.strict = strict
        self.label = 'strict' if strict else None
        # certified part: the exceptions math.fsum / float ** 2 raise natively are let through here and rejected by the strict (parked) contract
        self.allow_raises = {'SolverError': True} if strict else {'SolverError': True, 'ValueError': True, 'OverflowError': True}

    def setup(self, cx):
        from contracts.C14 import Quiet
        S = State()
        S.minscale, S.acceptscale, S.maxscale = (SFp.fresh(cx, n) for n in ('minscale', 'acceptscale', 'maxscale'))
        one, zero = SFp.lift(1), SFp.lift(0)
        # class invariant (__post_init__): floats with 0 < minscale < acceptscale < 1 < maxscale
        cx.assume(z3.And(zero.lt(S.minscale), S.minscale.lt(S.acceptscale), S.acceptscale.lt(one), one.lt(S.maxscale), S.maxscale.t != PINF))
        me = SObj('NormBased', attrs=dict(minscale=S.minscale, acceptscale=S.acceptscale, maxscale=S.maxscale))
        S.vecs = [Num(cx.const(n, NUM, report=False), ('n',)) for n in ('res0', 'dres0', 'res1', 'dres1')]
        S.args = (me, *S.vecs)
        S.globals = {'numpy': MNumpy(), 'log': Quiet(), 'math': Math()}
        cx.fp_hook = pow_hook
        return S

    def ensures(self, cx, S, result):
        if not (isinstance(result, tuple) and len(result) == 2 and isinstance(result[0], SFp) and isinstance(result[1], (bool, SBool))):
            raise Unsupported('strategy returned %r' % (result,))
        scale, accept = result[0], zbool(result[1])
        res0, _, res1, _ = [v.term for v in S.vecs]
        fin1 = fn('allfinite', NUM, BOOL)(res1)
        p0, p1 = scalar_of(op('@')(res0, res0)), scalar_of(op('@')(res1, res1))
        if self.strict:
            return [('scale-within-minscale-maxscale', z3.And(S.minscale.le(scale), scale.le(S.maxscale))),
                    ('rejected-step-has-scale-below-one', z3.Implies(z3.Not(accept), scale.lt(SFp.lift(1))))]
        return [('nonfinite-residual-gives-minscale-rejected', z3.Implies(z3.Not(fin1), z3.And(SFp.same(scale, S.minscale), z3.Not(accept)))),
                ('accepted-step-has-scale-at-least-acceptscale', z3.Implies(accept, S.acceptscale.le(scale))),
                ('accepted-step-reduces-the-residual-norm', z3.Implies(accept, p1.lt(p0)))]

    def replay(self, ob):
        return _script('normbased(%r)' % (ob.clause,)).replace('c14m', 'c14m')


class NormBasedGrid(Contract):
    """BOUNDED native stand-in for the strict clauses of NormBased.__call__ (only SolverError escapes; the returned scale lies in
    [minscale, maxscale]; a rejected step has scale < 1 -- LinesearchNewton asserts it): the real function on the grid
    native/c14m.py:NB_MAGS^4 of finite one-entry vectors.  The grid points that fail on the pinned commit are a recorded KNOWN
    FINDING (known_findings_normbased.json: float cancellation / overflow corners, e.g. (1, -1, 1, 1e30) -> (2.0, False));
    a failing grid point that is NOT recorded is a violation."""
    prop = PROP
    fn = 'solver:NormBased.__call__'
    label = 'strict-on-grid'
    bounded = 'native enumeration of 9^4 finite one-entry inputs (magnitudes 0, .5, 1, 3, 1e+-30, 1e+-200)'
    CLAUSES = ('only-SolverError-escapes', 'scale-within-minscale-maxscale', 'rejected-step-has-scale-below-one')

    def decide(self):
        import json, os, time
        from pyvc.contract import ContractResult
        from pyvc.core import Obligation
        from pyvc import extract, report
        here = os.path.dirname(os.path.dirname(os.path.abspath(__file__)))
        cr = ContractResult(self)
        try:
            cr.fn = extract.get(self.fn)
        except extract.NotFound as e:
            cr.status, cr.reason = 'undecided', 'function not found: %s' % e
            return cr
        t0 = time.time()
        script = "import sys; sys.path.insert(0, %r)\nfrom native import c14m\nc14m.normbased_grid()\n" % here
        rc, out, err = report.run_native(script, timeout=1200)
        cr.seconds = time.time() - t0
        res = None
        for line in out.split('\n'):
            if line.startswith('BOUNDED-RESULT '):
                res = json.loads(line[len('BOUNDED-RESULT '):])
        if res is None or not res.get('cases'):
            cr.status, cr.reason = 'undecided', 'native enumeration produced no result: %s' % (err or out)[-400:]
            return cr
        rec = json.load(open(os.path.join(here, 'known_findings_normbased.json')))
        recorded = set((r[0],) + tuple(r[1:]) for r in rec['failures'])
        cr.paths = res['cases']
        cr.outcomes = {'cases': res['cases']}

        def ob(clause, status, info, model=None):
            o = Obligation('%s/%s/bounded/%s' % (PROP, self.key(), clause), [], z3.BoolVal(True), 'bounded', fn=self.key(), clause='bounded:' + clause,
                           path=0, bounded=self.bounded, info=info)
            o.contract, o.decided, o.status = self, True, status
            o.backend = 'native exhaustive enumeration (%d cases)' % res['cases']
            o.seconds = cr.seconds / 6
            o.model = model
            o.output = ''
            cr.obligations.append(o)
            return o
        for cl in self.CLAUSES:
            fails = [f for f in res['failures'] if f['clause'] == cl]
            new = [f for f in fails if (cl,) + tuple(f['at']) not in recorded]
            old = [f for f in fails if (cl,) + tuple(f['at']) in recorded]
            # (1) every failing grid point is a recorded one
            o = ob(cl + '/no-unrecorded-failure', 'refuted' if new else 'proved', {'unrecorded_failures': new[:3], 'recorded_failures_still_failing': len(old)},
                   model={'witness': json.dumps(new[0])} if new else None)
            if new:
                w = new[0]
                o.replay_script = ("import sys, warnings; sys.path.insert(0, %r); warnings.simplefilter('ignore')\nimport numpy\nfrom nutils import solver\n"
                                   "v = [numpy.array([x]) for x in %r]\ntry:\n    r = solver.NormBased()(*v)\nexcept solver.SolverError:\n    r = 'SolverError'\n"
                                   "except Exception as e:\n    r = type(e).__name__\nprint('NormBased()(%%r) -> %%r' %% (%r, r))\n"
                                   "print('REPLAY: VIOLATION-CONFIRMED %s fails for a finite input that is not a recorded known finding')\n" % (here, w['inputs'], w['inputs'], cl))
            # (2) the recorded failures (known finding); proved once they are gone
            ob(cl + '/recorded-failures', 'refuted' if old else 'proved', {'recorded_failures_still_failing': len(old), 'example': old[:1]},
               model={'witness': json.dumps(old[0])} if old else None)
        return cr


def contracts():
    return [NormBased(), NormBasedGrid()]


# The strict symbolic contract fails on the unchanged tree (float arithmetic is uninterpreted in the model, so every strict clause has a counter-model):
# the defect is a recorded known finding, decided on concrete floats by NormBasedGrid above; the symbolic strict variant stays out of contracts().
PARKED = [NormBased(strict=True)]

TRUSTED = ['math.fsum / math.sqrt / float ** 2 as axioms incl. the exceptions CPython raises (ValueError, OverflowError); all other float arithmetic uninterpreted']
ASSUMPTIONS = ['NormBased: class invariant 0 < minscale < acceptscale < 1 < maxscale < inf (asserted by __post_init__)',
               'NormBased (certified part): ValueError / OverflowError raised by math.fsum and float ** 2 are let through; the strict contract that allows only '
               'SolverError, demands minscale <= scale <= maxscale and `rejected => scale < 1` fails natively for finite inputs: recorded KNOWN FINDING, checked on a fixed grid of concrete floats (NormBasedGrid, bounded)']
NOT_COVERED = ['MedianBased.__call__ (boolean-mask / sort arithmetic on uninterpreted vectors is not modelled)',
               'that the NormBased estimate minimises the cubic model (numeric)']
