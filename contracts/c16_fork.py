"""C16 -- the process side of parallel evaluation as SEQUENTIAL contracts (scheduling and interleavings stay outside).

parallel._wait      decodes os.waitpid's status (os.WIFEXITED/WEXITSTATUS/WIFSIGNALED/WIFSTOPPED are externals, their results
                    symbolic): True iff the child exited normally with status 0; every other way of ending gives False.
parallel._fork      (generator under contextlib.contextmanager; the with-block is run AT the yield, see c18_contexts)
                    parent: forks nprocs-1 children, hands out procid 0, runs the block under maxprocs(1) (a nested fork is
                    a no-op), then waits for EVERY child and raises if any _wait is False; if the block raises, every child
                    is killed (SIGKILL) and the exception propagates, nobody is waited for.
                    child k: gets procid k, runs the block under maxprocs(1), and ENDS THE PROCESS: os._exit(0) after a
                    clean block, os._exit(1) after a raising block -- control never returns to the caller's continuation.
parallel.fork       effective nprocs = min(nprocs, maxprocs.current) (None = maxprocs.current); <= 1 or no os.fork: the no-op
                    _DontFork, else _fork(effective).
parallel.maxprocs   accepts exactly the ints >= 1.
parallel.shempty    result has the requested shape and dtype; when more than one process may run (maxprocs.current != 1)
                    and the array is not empty it is a view of ONE anonymous shared mapping mmap(-1, prod(shape)*itemsize).
parallel.shzeros    = shempty(shape, dtype) filled with 0, the same array returned.
parallel.ctxrange   the shared range is created BEFORE the fork, fork(nitems) is entered, the block receives the wrapped
                    shared range; contexts are left in reverse order.
"""
import z3
from pyvc.contract import Contract, State
from pyvc.values import SInt, SBool, SObj, SOpaque, Sym, Unsupported, PyRaise, zint, zbool
from pyvc import ops
from pyvc.inproc import InProc

PROP = 'C16'
NPROCS = 3  # bounded: the fork loop is unrolled for 3 processes (2 children)


class NS:
    def __init__(self, **kw):
        self.d = kw

    def sym_getattr(self, ctx, name):
        if name in self.d:
            return self.d[name]
        raise Unsupported('external %s is not modelled' % name)


class ProcessExit(Exception):
    """os._exit(code): the process is gone; nothing after it runs (no handler, no finally)."""

    def __init__(self, code):
        self.code = code


def _native(call):
    import os
    here = os.path.dirname(os.path.dirname(os.path.abspath(__file__)))
    return "import sys; sys.path.insert(0, %r)\nfrom native import c16\nc16.%s\n" % (here, call)


# ------------------------------------------------------------------------------------------------------------ _wait

class Wait(InProc, Contract):
    prop = PROP
    fn = 'parallel:_wait'

    def setup(self, cx):
        pid, pid_ = cx.int('pid'), cx.int('waited_pid')
        exited, signaled, stopped = cx.bool('WIFEXITED'), cx.bool('WIFSIGNALED'), cx.bool('WIFSTOPPED')
        code, sig = cx.int('WEXITSTATUS'), cx.int('signal')
        cx.assume(z3.And(code >= 0, code <= 255, sig >= 1, sig <= 64))
        S = State(pid=pid, pid_=pid_, exited=exited, signaled=signaled, stopped=stopped, code=code, waits=[])
        status = SOpaque('status')

        def waitpid(ctx, p, options):
            S.waits.append((p, options))
            return (SInt(pid_), status)

        def only_status(f):
            def g(ctx, st):
                if st is not status:
                    raise Unsupported('status macro applied to something else')
                return f()
            return g
        S.globals = {'os': NS(waitpid=waitpid, WIFEXITED=only_status(lambda: SBool(exited)), WEXITSTATUS=only_status(lambda: SInt(code)),
                              WIFSIGNALED=only_status(lambda: SBool(signaled)), WTERMSIG=only_status(lambda: SInt(sig)),
                              WIFSTOPPED=only_status(lambda: SBool(stopped)), WSTOPSIG=only_status(lambda: SInt(sig))),
                     'signal': NS(Signals=lambda ctx, s: SObj('Signals', attrs={'name': SOpaque('str')})),
                     'treelog': NS(error=lambda ctx, *a: None)}
        S.args = (SInt(pid),)
        return S

    def raises(self, cx, S, e):
        return S.pid_ != S.pid if e.exc == 'AssertionError' else False

    def ensures(self, cx, S, result):
        r = result if isinstance(result, bool) else None
        waited = len(S.waits) == 1 and isinstance(S.waits[0][0], SInt) and S.waits[0][1] == 0
        return [('true-iff-exited-with-status-0', z3.BoolVal(r is not None) if r is None else (z3.BoolVal(r) == z3.And(S.exited, S.code == 0))),
                ('waits-blocking-for-that-pid', z3.And(z3.BoolVal(bool(waited)), zint(S.waits[0][0]) == S.pid) if waited else z3.BoolVal(False))]

    def replay(self, ob):
        return _native('run_wait(%r)' % ob.clause)


# ------------------------------------------------------------------------------------------------------------ _fork

class Fork_(InProc, Contract):
    prop = PROP
    fn = 'parallel:_fork'
    bounded = 'nprocs = %d (the fork loop is unrolled)' % NPROCS

    def __init__(self, role, block):
        self.role, self.block = role, block  # role: parent | child1 | child2 ; block: ok | raises
        self.label = '%s-block-%s' % (role, block)
        self.expect_return = not (role == 'parent' and block == 'raises')

    def setup(self, cx):
        S = State(events=[], maxprocs=[], yielded=[], inside=[], exit=None)
        S.pids = [cx.int('pid1'), cx.int('pid2')]
        cx.assume(z3.And(S.pids[0] > 0, S.pids[1] > 0, S.pids[0] != S.pids[1]))
        S.waitok = [cx.bool('child1_ok'), cx.bool('child2_ok')]
        nforks = [0]

        def fork(ctx):
            k = nforks[0]
            nforks[0] += 1
            S.events.append(('fork', k))
            if self.role == 'child%d' % (k + 1):
                return 0
            return SInt(S.pids[k])

        def kill(ctx, pid, sig):
            S.events.append(('kill', pid, sig))

        def _exit(ctx, code):
            if S.exit is None:
                S.exit = code
                S.events.append(('_exit', code))
            raise ProcessExit(code)

        def _wait(ctx, pid):
            for k, p in enumerate(S.pids):
                if isinstance(pid, SInt) and z3.eq(z3.simplify(pid.v), z3.simplify(p)):
                    S.events.append(('wait', k))
                    return SBool(S.waitok[k])
            raise Unsupported('_wait of an unknown pid')

        class MaxprocsCM(Sym):
            def __init__(s, n):
                s.n = n

            def sym_enter(s, ctx):
                S.maxprocs.append(s.n)

            def sym_exit(s, ctx):
                S.maxprocs.pop()

        class Ctx(Sym):
            def sym_enter(s, ctx):
                return None

            def sym_exit(s, ctx):
                pass
        setter = SObj('setter', methods={'__enter__': lambda ctx, o: S.events.append(('silence-log',))})
        S.SIGKILL, S.SIGINT, S.SIG_IGN = SOpaque('SIGKILL'), SOpaque('SIGINT'), SOpaque('SIG_IGN')
        S.globals = {'os': NS(fork=fork, kill=kill, _exit=_exit), '_wait': _wait, 'maxprocs': lambda ctx, n: MaxprocsCM(n),
                     'signal': NS(SIGKILL=S.SIGKILL, SIGINT=S.SIGINT, SIG_IGN=S.SIG_IGN, signal=lambda ctx, a, b: S.events.append(('signal', a, b))),
                     'treelog': NS(set=lambda ctx, l: setter, NullLog=lambda ctx: SOpaque('NullLog'), context=lambda ctx, *a: Ctx()),
                     'builtins': NS(range=lambda ctx, *a: list(range(*a))), 'print': lambda ctx, *a: None}
        return S

    def body(self, cx, S, call):
        from pyvc import extract
        f = extract.get(self.fn)
        contract = self

        class Sink:
            n = 0

            def append(s, v):
                s.n += 1
                if s.n > 1:
                    raise PyRaise('RuntimeError', note="generator didn't stop")
                S.yielded.append(v)
                S.inside.append(list(S.maxprocs))
                S.events.append(('block',))
                if contract.block == 'raises':
                    raise PyRaise('BlockError', note='the with-block raises')
        cx.interp.index_loops(f.node)
        try:
            cx.interp.call_function(f.node, (NPROCS,), {}, yield_sink=Sink())
        except ProcessExit as e:
            S.terminated = True
            return None
        S.terminated = False
        return None

    def common(self, S):
        B = z3.BoolVal
        k = {'parent': 0, 'child1': 1, 'child2': 2}[self.role]
        forks = [e for e in S.events if e[0] == 'fork']
        return [('block-runs-once-with-its-procid', B(S.yielded == [k] or (k == 0 and len(S.yielded) == 1 and S.yielded[0] == 0))),
                ('nested-fork-disabled-inside-the-block', B(S.inside == [[1]])),
                ('forks-before-the-block', B(len(forks) == (NPROCS - 1 if k == 0 else k) and S.events.index(('block',)) > S.events.index(forks[-1]) if forks and ('block',) in S.events else False))]

    def ensures(self, cx, S, result):
        B = z3.BoolVal
        out = self.common(S)
        ev = S.events
        if self.role == 'parent':
            waits = [e[1] for e in ev if e[0] == 'wait']
            out += [('returns-only-if-every-child-succeeded', z3.And(B(self.block == 'ok' and not S.terminated), *S.waitok)),
                    ('waits-for-every-child-once', B(sorted(waits) == list(range(NPROCS - 1)))),
                    ('no-child-killed-after-a-clean-block', B(not any(e[0] == 'kill' for e in ev))),
                    ('parent-never-exits-the-process', B(S.exit is None))]
        else:
            out += [('child-ends-the-process-and-never-returns', B(S.terminated is True)),
                    ('child-exit-status-0-iff-the-block-succeeded', B(S.exit == (0 if self.block == 'ok' else 1))),
                    ('child-neither-waits-nor-kills', B(not any(e[0] in ('wait', 'kill') for e in ev)))]
        return out

    def raises(self, cx, S, e):
        B = z3.BoolVal
        if self.role != 'parent':
            return False
        conj = [g for _, g in self.common(S)]
        ev = S.events
        if e.exc == 'BlockError':
            kills = [(x[1], x[2]) for x in ev if x[0] == 'kill']
            killed_all = len(kills) == NPROCS - 1 and all(sig is S.SIGKILL for _, sig in kills) and \
                all(isinstance(p, SInt) and z3.eq(z3.simplify(p.v), q) for (p, _), q in zip(kills, S.pids))
            return z3.And(B(self.block == 'raises' and killed_all and not any(x[0] == 'wait' for x in ev) and S.exit is None), *conj)
        if e.exc == 'Exception':
            waits = [x[1] for x in ev if x[0] == 'wait']
            return z3.And(B(self.block == 'ok' and sorted(waits) == list(range(NPROCS - 1)) and S.exit is None), z3.Not(z3.And(*S.waitok)), *conj)
        return False

    def replay(self, ob):
        return _native('run_fork(%r, %r, %r)' % (self.role, self.block, ob.clause))


# ------------------------------------------------------------------------------------------------------------ fork

class Fork(InProc, Contract):
    prop = PROP
    fn = 'parallel:fork'

    def __init__(self, given):
        self.given = given  # True: nprocs is an int; False: nprocs=None
        self.label = 'nprocs-given' if given else 'nprocs-None'

    def setup(self, cx):
        n, m, have = cx.int('nprocs'), cx.int('maxprocs'), cx.bool('have_os_fork')
        cx.assume(m >= 1)  # class invariant of maxprocs.current (parallel.maxprocs contract)
        S = State(n=n, m=m, have=have, forked=[])

        class Os:
            def sym_getattr(s, ctx, name):
                if name == 'fork':
                    if ctx.branch(have):
                        return SOpaque('os.fork')
                    raise PyRaise('AttributeError')
                raise Unsupported('os.' + name)
        S.dont = SObj('_DontFork')
        S.forkcm = SOpaque('_fork(...)')

        def _fork(ctx, k):
            S.forked.append(k)
            return S.forkcm
        S.globals = {'maxprocs': NS(current=SInt(m)), 'os': Os(), '_DontFork': lambda ctx: S.dont, '_fork': _fork, 'warnings': NS(warn=lambda ctx, *a: None)}
        S.args = (SInt(n),) if self.given else ()
        return S

    def ensures(self, cx, S, result):
        eff = z3.If(S.n > S.m, S.m, S.n) if self.given else S.m
        is_dont = result is S.dont
        is_fork = result is S.forkcm and len(S.forked) == 1
        return [('no-op-iff-one-process-or-no-os-fork', z3.BoolVal(is_dont) == z3.Or(eff <= 1, z3.Not(S.have))),
                ('otherwise-forks-min-nprocs-maxprocs', z3.BoolVal(True) if is_dont else z3.And(z3.BoolVal(bool(is_fork)), zint(S.forked[0]) == eff) if is_fork else z3.BoolVal(False)),
                ('result-is-one-of-the-two', z3.BoolVal(bool(is_dont != is_fork) and (not is_dont or not S.forked)))]

    def replay(self, ob):
        return _native('run_fork_cap(%r)' % ob.clause)


class Maxprocs(InProc, Contract):
    prop = PROP
    fn = 'parallel:maxprocs'

    def setup(self, cx):
        n = cx.int('nprocs')
        S = State(n=n)
        S.args = (SInt(n),)
        return S

    def raises(self, cx, S, e):
        return S.n < 1 if e.exc == 'ValueError' else False

    def ensures(self, cx, S, result):
        return [('accepts-positive-ints-unchanged', z3.And(S.n >= 1, zint(result) == S.n))]

    def replay(self, ob):
        return _native('run_fork_cap(%r)' % ob.clause)


# ------------------------------------------------------------------------------------------------------------ shared arrays

class ArrV(Sym):
    def __init__(self, S, shape, dtype, buf=None):
        self.S, self.shape, self.dtype, self.buf, self.filled = S, shape, dtype, buf, []

    def getattr(self, ctx, name):
        if name == 'reshape':
            def reshape(ctx, shape):
                shape = tuple(shape) if isinstance(shape, (tuple, list)) else (shape,)
                self.S.reshapes.append((self.shape, shape))
                return ArrV(self.S, shape, self.dtype, self.buf)
            return reshape
        if name == 'fill':
            return lambda ctx, v: self.filled.append(v)
        raise Unsupported('ndarray.' + name)


class Shempty(InProc, Contract):
    prop = PROP
    fn = 'parallel:shempty'

    def __init__(self, rank):
        self.rank = rank  # 0: shape is a bare int; 1, 2: a tuple
        self.label = 'shape-int' if rank == 0 else 'shape-rank%d' % rank
        self.bounded = 'rank of the shape fixed to %d' % max(rank, 1)

    def setup(self, cx):
        r = max(self.rank, 1)
        dims = [cx.int('n%d' % i) for i in range(r)]
        item, m = cx.int('itemsize'), cx.int('maxprocs')
        for d in dims:
            cx.assume(d >= 0)
        cx.assume(z3.And(item >= 1, m >= 1))
        S = State(dims=dims, item=item, m=m, maps=[], reshapes=[], empties=[])
        S.dtype_in = SOpaque('dtype-argument')
        S.dtype = SObj('dtype', attrs={'itemsize': SInt(item)})

        def product(ctx, seq, start=1):
            r_ = start
            for x in ops.iterate(ctx, seq):
                r_ = ops.binop(ctx, '*', r_, x)
            return r_

        def empty(ctx, shape, dtype):
            a = ArrV(S, tuple(shape), dtype)
            S.empties.append(a)
            return a

        def frombuffer(ctx, buf, dtype):
            if not (isinstance(buf, tuple) and buf[0] == 'mmap'):
                raise Unsupported('frombuffer of %r' % (buf,))
            if dtype is not S.dtype:
                raise Unsupported('frombuffer with another dtype')
            return ArrV(S, ('flat', buf[2]), dtype, buf)

        def mmap_(ctx, fd, size):
            S.maps.append((fd, size))
            return ('mmap', fd, size)
        S.globals = {'numpy': NS(dtype=lambda ctx, d: S.dtype if d is S.dtype_in else ops_unsupported('numpy.dtype of something else'), empty=empty, frombuffer=frombuffer),
                     'util': NS(product=product), 'maxprocs': NS(current=SInt(m)), 'mmap': NS(mmap=mmap_),
                     'int': lambda ctx, x: x}
        S.args = (SInt(dims[0]) if self.rank == 0 else tuple(SInt(d) for d in dims), S.dtype_in)
        return S

    def ensures(self, cx, S, result):
        B = z3.BoolVal
        size = S.item
        for d in S.dims:
            size = size * d
        ok_arr = isinstance(result, ArrV) and result.dtype is S.dtype and isinstance(result.shape, tuple) and len(result.shape) == len(S.dims)
        shape_ok = z3.And(B(bool(ok_arr)), *[zint(a) == d for a, d in zip(result.shape, S.dims)]) if ok_arr else B(False)
        shared = ok_arr and result.buf is not None and len(S.maps) == 1 and result.buf == ('mmap',) + tuple(S.maps[0]) and isinstance(S.maps[0][0], int) and S.maps[0][0] == -1 \
            and len(S.reshapes) == 1
        return [('requested-shape-and-dtype', shape_ok),
                ('shared-anonymous-mapping-when-several-processes-may-run', z3.Implies(z3.And(S.m != 1, size != 0), B(bool(shared)))),
                ('mapping-has-exactly-the-bytes-of-the-array', z3.And(zint(S.maps[0][1]) == size, zint(S.reshapes[0][0][1]) == size) if shared else B(not S.maps))]

    def replay(self, ob):
        return _native('run_shared(%r)' % ob.clause)


def ops_unsupported(msg):
    raise Unsupported(msg)


class Shzeros(InProc, Contract):
    prop = PROP
    fn = 'parallel:shzeros'

    def setup(self, cx):
        S = State(calls=[])
        S.shape, S.dtype = SOpaque('shape'), SOpaque('dtype')

        def shempty(ctx, shape, dtype=None, **k):
            a = ArrV(S, shape, dtype)
            S.calls.append((shape, dtype, k, a))
            return a
        S.reshapes = []
        S.globals = {'shempty': shempty}
        S.args = (S.shape,)
        S.kwargs = {'dtype': S.dtype}
        return S

    def ensures(self, cx, S, result):
        ok = len(S.calls) == 1 and S.calls[0][0] is S.shape and (S.calls[0][1] is S.dtype or S.calls[0][2].get('dtype') is S.dtype) and result is S.calls[0][3]
        zero = ok and len(result.filled) >= 1 and all(isinstance(v, (int, float)) and not isinstance(v, bool) and v == 0 for v in result.filled)
        return [('is-the-shared-array-of-that-shape-and-dtype', z3.BoolVal(bool(ok))), ('zero-initialised', z3.BoolVal(bool(zero)))]

    def replay(self, ob):
        return _native('run_shared(%r)' % ob.clause)


# ------------------------------------------------------------------------------------------------------------ ctxrange

class Ctxrange(InProc, Contract):
    prop = PROP
    fn = 'parallel:ctxrange'

    def __init__(self, block):
        self.block = block
        self.label = 'block-' + block
        self.expect_return = block == 'ok'

    def setup(self, cx):
        S = State(events=[], got=[])
        S.name, S.n = SOpaque('name'), SInt(cx.int('nitems'))

        class CM(Sym):
            def __init__(s, tag, value=None):
                s.tag, s.value = tag, value

            def sym_enter(s, ctx):
                S.events.append(('enter', s.tag))
                return s.value

            def sym_exit(s, ctx):
                S.events.append(('exit', s.tag))

        def range_(ctx, stop):
            S.events.append(('range', stop))
            S.rng = SOpaque('shared-range')
            return S.rng

        def fork(ctx, n=None):
            S.events.append(('fork', n))
            return CM('fork', 0)

        def wrap(ctx, titles, it):
            S.events.append(('wrap', titles, it))
            S.wrapped = SOpaque('wrapped-range')
            return CM('wrap', S.wrapped)
        S.globals = {'range': range_, 'fork': fork, 'treelog': NS(iter=NS(wrap=wrap)), '_pct': lambda ctx, name, n: ('pct', name, n)}
        S.args = (S.name, S.n)
        return S

    def body(self, cx, S, call):
        from pyvc import extract
        f = extract.get(self.fn)
        contract = self

        class Sink:
            n = 0

            def append(s, v):
                s.n += 1
                if s.n > 1:
                    raise PyRaise('RuntimeError', note="generator didn't stop")
                S.got.append(v)
                S.events.append(('block',))
                if contract.block == 'raises':
                    raise PyRaise('BlockError')
        cx.interp.call_function(f.node, S.args, {}, yield_sink=Sink())
        return None

    def facts(self, S):
        ev = S.events
        kinds = [e[0] if e[0] not in ('enter', 'exit') else e[0] + ':' + e[1] for e in ev]
        order = kinds == ['range', 'fork', 'wrap', 'enter:fork', 'enter:wrap', 'block', 'exit:wrap', 'exit:fork'] or \
            kinds == ['range', 'fork', 'enter:fork', 'wrap', 'enter:wrap', 'block', 'exit:wrap', 'exit:fork']
        rng_ok = order and ev[0][1] is S.n and [e for e in ev if e[0] == 'fork'][0][1] is S.n
        w = [e for e in ev if e[0] == 'wrap']
        wrap_ok = order and len(w) == 1 and w[0][2] is S.rng and S.got == [S.wrapped] and w[0][1] == ('pct', S.name, S.n)
        return [('shared-range-created-before-the-fork-and-contexts-nest', z3.BoolVal(bool(order))),
                ('range-and-fork-sized-by-nitems', z3.BoolVal(bool(rng_ok))),
                ('block-receives-the-wrapped-shared-range', z3.BoolVal(bool(wrap_ok)))]

    def ensures(self, cx, S, result):
        return self.facts(S) + [('returns-normally-only-after-a-clean-block', z3.BoolVal(self.block == 'ok'))]

    def raises(self, cx, S, e):
        if e.exc == 'BlockError' and self.block == 'raises':
            return z3.And(*[g for _, g in self.facts(S)])
        return False


def contracts():
    return [Wait()] + [Fork_(role, block) for role in ('parent', 'child1', 'child2') for block in ('ok', 'raises')] + [Fork(True), Fork(False), Maxprocs()] \
        + [Shempty(r) for r in (0, 1, 2)] + [Shzeros(), Ctxrange('ok'), Ctxrange('raises')]


TRUSTED = ['os.fork/os.kill/os._exit/os.waitpid and the status macros os.WIFEXITED/WEXITSTATUS/WIFSIGNALED/WIFSTOPPED are externals: fork returns 0 in the child and the (positive, distinct) child pid in the parent; _exit ends the process at once (no handler, no finally runs); the macros are arbitrary booleans/ints of the status',
           'contextlib.contextmanager: the with-block runs at the single yield of the generator, its exception is raised there (the engine runs the block at the yield point)',
           'mmap.mmap(-1, size): an anonymous mapping of `size` bytes shared with processes forked later; numpy.frombuffer(buf, dtype) is a flat view of all of buf; reshape(shape) needs prod(shape)*itemsize == len(buf); util.product is the product; numpy.dtype(d).itemsize >= 1',
           'treelog.iter.wrap(titles, iterable) is a context manager handing out a wrapper that iterates `iterable`']
ASSUMPTIONS = ['BOUNDED: _fork with nprocs = 3; shempty with a bare int or a shape of rank 1 or 2 (labelled bounded)',
               'maxprocs.current >= 1 (established by parallel.maxprocs, proved here)',
               'the with-block of _fork either completes or raises an ordinary exception in every process; a child that is KILLED is seen by the parent only through _wait (its contract covers killed/stopped children)']
NOT_COVERED = ['scheduling and interleavings of the processes, what the children compute, visibility of the shared mapping (kernel), signals arriving in the parent while it waits',
               'that os._exit is reached in a child for exceptions raised outside _fork\'s try (e.g. inside os.fork itself)']
