"""C10 (kernel) -- structured-axis arithmetic conserves the elements.

For a DimAxis [i, j) (mod = period when periodic), all integers:
  interfaces   intaxis(side=True) and intaxis(side=False) have equal length j-i-1+isperiodic and the n-th entries are
               neighbours: map_False(n) = map_True(n) + 1 (mod period) -- every interior face once, between its two elements
  boundaries   a non-periodic axis has exactly the faces [i, i+1) (left, side False) and [j-1, j) (right, side True);
               a periodic axis has none
  refinement   refined doubles i, j, mod (element e -> children 2e, 2e+1, length doubles); refining a boundary face
               gives the corresponding boundary face of the refined axis (boundaries . refined = refined . boundaries)
  opposite     IntAxis.opposite(ibound) is an involution and shifts the element by one towards the other side
  getitem      a[start:stop] keeps elements i+start .. i+stop-1 and is never periodic
"""
import os
import z3
from pyvc.contract import Contract, State
from pyvc.values import SInt, SBool, SObj, Sym, Unsupported, PyRaise, zint, zbool, pymod
from pyvc.ops import ClassRef
from pyvc import ops

PROP = 'C10'
LEVEL = 'proof'


def mk_dim(ctx, i, j, mod, isperiodic):
    return SObj('DimAxis', attrs=dict(i=i, j=j, mod=mod, isperiodic=isperiodic), classes=('DimAxis', 'Axis'))


def mk_int(ctx, i, j, mod, ibound, side):
    return SObj('IntAxis', attrs=dict(i=i, j=j, mod=mod, ibound=ibound, side=side), classes=('IntAxis', 'Axis'))


GLOBALS = {'DimAxis': ClassRef('DimAxis', construct=lambda ctx, i, j, mod, isperiodic: mk_dim(ctx, i, j, mod, isperiodic)),
           'IntAxis': ClassRef('IntAxis', construct=lambda ctx, i, j, mod, ibound, side: mk_int(ctx, i, j, mod, ibound, side))}


def z(x):
    if isinstance(x, SBool):
        return z3.If(x.b, 1, 0)
    if isinstance(x, bool):
        return z3.IntVal(int(x))
    return zint(x)


def _replay(call):
    import os
    here = os.path.dirname(os.path.dirname(os.path.abspath(__file__)))
    return "import sys; sys.path.insert(0, %r)\nfrom native import c10\nc10.%s\n" % (here, call)


def dimaxis(cx):
    i, j, per = cx.int('i'), cx.int('j'), cx.bool('isperiodic')
    mod = cx.int('mod')
    cx.assume(z3.And(i < j, i >= 0))
    cx.assume(z3.If(per, z3.And(mod == j - i, i == 0), mod >= 0))  # a periodic axis spans exactly one period
    return mk_dim(cx, SInt(i), SInt(j), SInt(mod), SBool(per)), i, j, mod, per


class Interfaces(Contract):
    prop = PROP
    fn = 'transformseq:DimAxis.intaxis'

    def setup(self, cx):
        ax, i, j, mod, per = dimaxis(cx)
        return State(ax=ax, i=i, j=j, mod=mod, per=per, globals=dict(GLOBALS))

    def body(self, cx, S, call):
        return (call(self.fn, S.ax, 0, True), call(self.fn, S.ax, 0, False))

    def ensures(self, cx, S, result):
        T, F = result
        lt, lf = z(T.attrs['j']) - z(T.attrs['i']), z(F.attrs['j']) - z(F.attrs['i'])
        n = z3.Int('n')
        mp = lambda a, k: z3.If(S.mod != 0, pymod(z(a.attrs['i']) + k, z3.If(S.mod == 0, 1, S.mod)), z(a.attrs['i']) + k)
        per = z3.If(S.per, 1, 0)
        nb = z3.ForAll([n], z3.Implies(z3.And(0 <= n, n < lt), z3.If(S.mod != 0, pymod(mp(T, n) + 1 - mp(F, n), z3.If(S.mod == 0, 1, S.mod)) == 0, mp(F, n) == mp(T, n) + 1)))
        return [('equal-lengths', z3.And(lt == lf, lt == S.j - S.i - 1 + per)), ('neighbours', nb),
                ('sides', z3.And(z(T.attrs['side']) == 1, z(F.attrs['side']) == 0))]

    def replay(self, ob):
        return _replay('dimaxis_intaxis(%r)' % (ob.model,))


class Boundaries(Contract):
    prop = PROP
    fn = 'transformseq:DimAxis.boundaries'

    def setup(self, cx):
        ax, i, j, mod, per = dimaxis(cx)
        return State(args=(ax, 3), i=i, j=j, per=per, globals=dict(GLOBALS))

    def ensures(self, cx, S, result):
        if len(result) == 0:
            return [('none-iff-periodic', S.per)]
        if len(result) != 2:
            raise Unsupported('%d boundaries' % len(result))
        a, b = result
        return [('none-iff-periodic', z3.Not(S.per)),
                ('left-face', z3.And(z(a.attrs['i']) == S.i, z(a.attrs['j']) == S.i + 1, z(a.attrs['side']) == 0)),
                ('right-face', z3.And(z(b.attrs['i']) == S.j - 1, z(b.attrs['j']) == S.j, z(b.attrs['side']) == 1))]

    def replay(self, ob):
        return _replay('dimaxis_boundaries(%r)' % (ob.model,))


class Refined(Contract):
    prop = PROP
    fn = 'transformseq:DimAxis.refined'

    def setup(self, cx):
        ax, i, j, mod, per = dimaxis(cx)
        return State(args=(ax,), i=i, j=j, mod=mod, globals=dict(GLOBALS))

    def ensures(self, cx, S, r):
        return [('doubles', z3.And(z(r.attrs['i']) == 2 * S.i, z(r.attrs['j']) == 2 * S.j, z(r.attrs['mod']) == 2 * S.mod,
                                   z(r.attrs['j']) - z(r.attrs['i']) == 2 * (S.j - S.i)))]

    def replay(self, ob):
        return _replay('dimaxis_refined(%r)' % (ob.model,))


class RefinedBoundaries(Contract):
    """boundaries(refined(A)) == refined(boundaries(A)) for the non-periodic axis"""
    prop = PROP
    fn = 'transformseq:IntAxis.refined'

    def setup(self, cx):
        ax, i, j, mod, per = dimaxis(cx)
        cx.assume(z3.Not(per))
        return State(ax=ax, globals=dict(GLOBALS))

    def body(self, cx, S, call):
        fine = call('transformseq:DimAxis.refined', S.ax)
        b_fine = call('transformseq:DimAxis.boundaries', fine, 3)
        b_coarse = call('transformseq:DimAxis.boundaries', S.ax, 3)
        ref = [call('transformseq:IntAxis.refined', b) for b in b_coarse]
        return b_fine, ref

    def ensures(self, cx, S, result):
        b_fine, ref = result
        same = lambda a, b: z3.And(*[z(a.attrs[k]) == z(b.attrs[k]) for k in ('i', 'j', 'mod', 'side', 'ibound')])
        return [('commutes-left', same(b_fine[0], ref[0])), ('commutes-right', same(b_fine[1], ref[1]))]

    def replay(self, ob):
        return _replay('intaxis_refined(%r)' % (ob.model,))


class Opposite(Contract):
    prop = PROP
    fn = 'transformseq:IntAxis.opposite'

    def setup(self, cx):
        i, j, mod, ib = cx.int('i'), cx.int('j'), cx.int('mod'), cx.int('ibound')
        side = cx.bool('side')
        cx.assume(i <= j)
        ax = mk_int(cx, SInt(i), SInt(j), SInt(mod), SInt(ib), SBool(side))
        return State(ax=ax, i=i, j=j, ib=ib, side=side, globals=dict(GLOBALS))

    def body(self, cx, S, call):
        o = call(self.fn, S.ax, SInt(S.ib))
        return o, call(self.fn, o, SInt(S.ib))

    def ensures(self, cx, S, result):
        o, oo = result
        s = z3.If(S.side, 1, 0)
        return [('shifts-to-the-other-side', z3.And(z(o.attrs['i']) == S.i + 2 * s - 1, z(o.attrs['j']) == S.j + 2 * s - 1, z(o.attrs['side']) == 1 - s)),
                ('involution', z3.And(z(oo.attrs['i']) == S.i, z(oo.attrs['j']) == S.j, z(oo.attrs['side']) == s))]

    def replay(self, ob):
        return _replay('intaxis_opposite(%r)' % (ob.model,))


class GetItem(Contract):
    prop = PROP
    fn = 'transformseq:DimAxis.getitem'

    def setup(self, cx):
        ax, i, j, mod, per = dimaxis(cx)
        a, b = cx.int('start'), cx.int('stop')
        cx.assume(z3.And(0 <= a, a < b, b <= j - i))
        return State(args=(ax, slice(SInt(a), SInt(b))), i=i, a=a, b=b, mod=mod, globals=dict(GLOBALS))

    def ensures(self, cx, S, r):
        return [('subrange', z3.And(z(r.attrs['i']) == S.i + S.a, z(r.attrs['j']) == S.i + S.b, z(r.attrs['mod']) == S.mod)),
                ('not-periodic', z3.BoolVal(r.attrs['isperiodic'] is False))]

    def replay(self, ob):
        return _replay('dimaxis_getitem(%r)' % (ob.model,))


def _parked():
    from contracts import c10_subset, c10_tables
    return c10_subset.parked() + c10_tables.parked()


# contracts that FAIL on the unchanged tree because nutils misbehaves (candidate defects, notes/C10-c10.md); kept, not weakened, and
# left out of contracts() until the lead decides fix vs known finding.  `VERIF_C10_PARKED=1 ./check C10 --only nothing-kept` (or `--only two-elements-per-period`) runs them.
PARKED = _parked()


def contracts():
    from contracts import c10_structured, c10_subset, c10_tables
    return [Interfaces(), Boundaries(), Refined(), RefinedBoundaries(), Opposite(), GetItem()] + c10_structured.contracts() + c10_subset.contracts() + c10_tables.contracts() + PARKED  # PARKED: the empty-subset contract (failed on the pinned commit, repaired) and the two-elements-per-period families (recorded known findings)


TRUSTED = ['pyvc symbolic executor; generator DimAxis.boundaries evaluated eagerly; Axis.map as (i + ielem) mod period (proved inverse of unmap in C11)',
           'n-d integer array model (contracts/c10_real.py NdInt, cross-checked against numpy in native/axioms_c10.py): numpy.empty = arbitrary entries; '
           'numpy.arange(N).reshape(shape)[ix] = row-major ravel(ix); basic indexing / stores with integers, constant-bound slices (clamped) and Ellipsis; '
           'a store evaluates its right-hand side first; x.reshape merging consecutive axes: R[ravel(g0), ravel(g1)] = x[g0 ++ g1] (a C-contiguous array, so a view); '
           'numpy.prod(shape, dtype=int) = the product; types.frozenarray(x, copy=False) = x',
           'StructuredTransforms(root, axes, nrefine) is represented by its constructor arguments (todims = root.todims, fromdims = number of dimension axes); its '
           '__init__ (child / edge transform tables) and __getitem__ are not executed; its real __len__ is. The meaning of its element q is the multi-index '
           '(axis_l.map(q_l))_l, q decomposed row-major over the axis lengths (read off StructuredTransforms.__getitem__, not verified here)',
           'References.uniform(ref, n) / element.getsimplex / util.product / util.sum / transformseq.chain reduced to (ndims, length); str.format of concrete arguments evaluated',
           'decorators cached_property / property are transparent (a property is re-evaluated on every read)']
ASSUMPTIONS = ['a periodic DimAxis spans exactly one period starting at 0 (how StructuredTopology builds it)',
               'class invariants of the axes of a StructuredTopology: 0 <= i < j (no empty axis); mod = 0 or j - i <= mod (an axis does not wrap onto itself); '
               'an IntAxis of a StructuredTopology is one element thick (j = i + 1) and the k-th IntAxis carries ibound = k',
               'nrefine >= 0; bnames are the three default pairs; the unlisted bases of the axis classes (types.Singleton, object) define no attribute the code reads '
               '(a missing attribute is an AttributeError)']
NOT_COVERED = ['measures, trimming, hierarchical and unstructured topologies, unions and products, closedness of boundaries (flux identities): '
               'global geometric invariants over histories of operations; outside this family',
               'StructuredTopology with more than 3 axes (bounded), StructuredTransforms.__getitem__/index_with_tail (the transform chains themselves), '
               'interfaces(refined(T)) versus refined(interfaces(T)) (the latter is a generic RefinedTopology), Topology.__getitem__ dispatch (str / tuple items), '
               'basis/spline construction on structured topologies']
