"""C20 (extension) -- the older module nutils.unit: `_Quantity` is (value, powers) with powers a dict base -> non-zero int.

  __pow__     n == 1: the same object; n == 0: the dimensionless 1; otherwise value**n and every exponent times n (no zero
              entry can arise); a non-int exponent is NotImplemented; self is never mutated
  __imul__    in place: value times value, exponents added pointwise, entries that cancel are REMOVED (the class invariant
              "no zeros" is what makes `q.powers != powers` in _Bound.__stringly_loads__ a sound dimension check)
  _Bound.__stringly_loads__   returns the parsed value only if the parsed powers equal the powers of the bound unit
Bounded: two base names, every combination of which of them occur in each operand; exponents and values symbolic.
"""
import os
import z3
from pyvc.contract import Contract, State
from pyvc.values import Sym, SBool, SInt, SReal, SObj, SOpaque, Unsupported, PyRaise, zint
from pyvc.ops import ClassRef
from contracts.C13 import InlineFn

PROP = 'C20'
HERE = os.path.dirname(os.path.dirname(os.path.abspath(__file__)))
BASES = ('m', 's')
SUBSETS = [(), ('m',), ('s',), ('m', 's')]
UPOW = z3.Function('float_int_pow', z3.RealSort(), z3.IntSort(), z3.RealSort())
BOUND = 'two base names, every combination of which bases occur in each operand; exponents and values symbolic'


def native(call):
    return "import sys; sys.path.insert(0, %r)\nfrom native import c20\nc20.%s\n" % (HERE, call)


class RVal(SReal):
    def binop(self, ctx, op, other, reflected):
        if op == '**' and not reflected and isinstance(other, (int, SInt)):
            return RVal(UPOW(self.v, zint(other)))
        return super().binop(ctx, op, other, reflected)


class UQ(SObj):
    def __init__(self, value=None, powers=None):
        super().__init__('_Quantity', attrs={}, classes=('_Quantity',))
        if value is not None:
            self.attrs['value'] = value
            self.attrs['powers'] = powers


def construct(ctx, *args, **kwargs):
    q = UQ()
    InlineFn('unit:_Quantity.__init__')(ctx, q, *args, **kwargs)
    return q


def fresh(cx, name, keys):
    powers = {k: SInt(cx.int('%s.%s' % (name, k))) for k in keys}
    for v in powers.values():
        cx.assume(v.v != 0)  # class invariant (asserted by _Quantity.__init__, kept by __imul__/__pow__)
    return UQ(RVal(cx.real(name + '.value')), powers), dict(powers)


def same_dict(d, want):
    """z3: dict d (concrete keys) has exactly the entries of `want` (key -> z3 Int) whose value is non-zero."""
    if not isinstance(d, dict) or any(k not in want for k in d):
        return z3.BoolVal(False)
    goals = []
    for k, w in want.items():
        if k in d:
            goals += [zint(d[k]) == w, w != 0]
        else:
            goals.append(w == 0)
    return z3.And(*goals) if goals else z3.BoolVal(True)


def unchanged(q, value, powers):
    p = q.attrs['powers']
    ok = q.attrs['value'] is value and isinstance(p, dict) and list(p) == list(powers) and all(p[k] is powers[k] for k in p)
    return z3.BoolVal(bool(ok))


class Pow(Contract):
    prop = PROP
    fn = 'unit:_Quantity.__pow__'
    bounded = BOUND

    def __init__(self, keys, kind='int'):
        self.keys, self.kind = keys, kind
        self.label = 'powers={%s},n=%s' % (','.join(keys), kind)

    def setup(self, cx):
        S = State()
        S.q, S.p0 = fresh(cx, 'self', self.keys)
        S.v0 = S.q.attrs['value']
        S.n = SInt(cx.int('n')) if self.kind == 'int' else SReal(cx.real('n'))
        S.args = (S.q, S.n)
        S.globals = {'_Quantity': ClassRef('_Quantity', construct=construct)}
        return S

    def ensures(self, cx, S, result):
        keep = ('self-not-mutated', unchanged(S.q, S.v0, S.p0))
        if self.kind != 'int':
            return [('non-int-exponent-not-implemented', z3.BoolVal(result is NotImplemented)), keep]
        n = S.n.v
        if result is S.q:
            return [('exponents-scaled-by-n', n == 1), keep]
        if not isinstance(result, UQ):
            return [('exponents-scaled-by-n', z3.BoolVal(False)), keep]
        val = result.attrs['value']
        want = {k: zint(v) * n for k, v in S.p0.items()}
        return [('exponents-scaled-by-n', z3.And(n != 1, same_dict(result.attrs['powers'], want))),
                ('value-to-the-power-n', z3.If(n == 0, val.v == 1, val.v == UPOW(S.v0.v, n)) if isinstance(val, SReal) else z3.BoolVal(val == 1.0 and False) if not isinstance(val, float) else z3.And(n == 0, z3.BoolVal(val == 1.0))),
                keep]

    def replay(self, ob):
        return native('unit_check()')


class IMul(Contract):
    prop = PROP
    fn = 'unit:_Quantity.__imul__'
    bounded = BOUND

    def __init__(self, ka, kb):
        self.ka, self.kb = ka, kb
        self.label = 'self={%s},other={%s}' % (','.join(ka), ','.join(kb))

    def setup(self, cx):
        S = State()
        S.a, S.pa = fresh(cx, 'self', self.ka)
        S.b, S.pb = fresh(cx, 'other', self.kb)
        S.va, S.vb = S.a.attrs['value'], S.b.attrs['value']
        S.args = (S.a, S.b)
        S.globals = {'_Quantity': ClassRef('_Quantity', construct=construct)}
        return S

    def ensures(self, cx, S, result):
        want = {k: (zint(S.pa[k]) if k in S.pa else 0) + (zint(S.pb[k]) if k in S.pb else 0) for k in set(S.pa) | set(S.pb)}
        val = S.a.attrs['value']
        return [('returns-self', z3.BoolVal(result is S.a)),
                ('exponents-add-and-cancelled-entries-are-removed', same_dict(S.a.attrs['powers'], want)),
                ('values-multiply', (val.v == S.va.v * S.vb.v) if isinstance(val, SReal) else z3.BoolVal(False)),
                ('other-not-mutated', unchanged(S.b, S.vb, S.pb))]

    def replay(self, ob):
        return native('unit_check()')


class IMulOther(Contract):
    prop = PROP
    fn = 'unit:_Quantity.__imul__'
    label = 'other-is-not-a-_Quantity'

    def setup(self, cx):
        S = State()
        S.a, S.pa = fresh(cx, 'self', ('m',))
        S.va = S.a.attrs['value']
        S.args = (S.a, SReal(cx.real('other')))
        S.globals = {'_Quantity': ClassRef('_Quantity', construct=construct)}
        return S

    def ensures(self, cx, S, result):
        return [('not-implemented-and-unchanged', z3.And(z3.BoolVal(result is NotImplemented), unchanged(S.a, S.va, S.pa)))]


class Loads(Contract):
    prop = PROP
    fn = 'unit:_Bound.__stringly_loads__'
    bounded = BOUND

    def __init__(self, kq, ku):
        self.kq, self.ku = kq, ku
        self.label = 'parsed={%s},unit={%s}' % (','.join(kq), ','.join(ku))
        self.expect_return = set(kq) == set(ku)

    def setup(self, cx):
        S = State()
        S.q, S.pq = fresh(cx, 'parsed', self.kq)
        S.u, S.pu = fresh(cx, 'unit', self.ku)
        S.s, S.unit = SOpaque('s'), SOpaque('cls._unit')

        def parse(ctx, me, x):
            if x is S.s:
                return S.q
            if x is S.unit:
                return S.u
            raise Unsupported('_parse of something else')
        cls = SObj('_Bound', attrs={'_unit': S.unit}, methods={'_parse': parse})
        S.args = (cls, S.s)
        return S

    def same(self, S):
        if set(S.pq) != set(S.pu):
            return z3.BoolVal(False)
        return z3.And(*[S.pq[k].v == S.pu[k].v for k in S.pq]) if S.pq else z3.BoolVal(True)

    def raises(self, cx, S, e):
        return z3.Not(self.same(S)) if e.exc == 'ValueError' else False

    def ensures(self, cx, S, result):
        return [('value-only-for-the-dimension-of-the-bound-unit', z3.And(self.same(S), z3.BoolVal(result is S.q.attrs['value'])))]

    def replay(self, ob):
        return native('unit_check()')


def contracts():
    cs = [Pow(k) for k in SUBSETS] + [Pow(('m', 's'), 'float')]
    cs += [IMul(a, b) for a in SUBSETS for b in SUBSETS] + [IMulOther()]
    cs += [Loads(a, b) for a in SUBSETS for b in SUBSETS]
    return cs


TRUSTED = ['float ** int in unit._Quantity.__pow__ is an uninterpreted function of (value, n); float products are read as real products']
ASSUMPTIONS = ['unit._Quantity class invariant: powers holds no zero entry (asserted by __init__, shown to be kept by __imul__ and __pow__)']
NOT_COVERED = ['unit._Units.parse / __init__ (regular-expression scanning, dependency-depth ordering), unit.create, _Unbound/_Bound metaclass plumbing, _f2s: not under contract',
               'there is no unit._Quantity.__mul__/__truediv__ in the module (only __pow__ and __imul__ exist)']
