"""C06 -- every integer-valued expression evaluates inside the range the library inferred.

Node lemma (DESIGN 4.6), one contract per `_intbounds_impl` rule in evaluable.py:

  requires  every child range satisfies INV  (lower in int U {-inf}, upper in int U {+inf}, lower <= upper)
            and (ghost) every element of the child's value lies inside its range;
            lengths / shape entries additionally have lower >= 0  (`_isindex` in the constructors)
  ensures   no-raise:        the rule returns normally
            INV:             the returned pair satisfies INV (the three asserts of Array._intbounds)
            value-in-range:  every element of the node's value -- the numpy meaning of the node, bound to the
                             node's `_compile_expression` / `evalf` (see MEANING below) -- lies inside the pair

The meaning of each node is written as a relation between one (arbitrary) element of the result and the
ghost child elements it depends on; sums over symbolic lengths use the lemma library (L-SUM, L-SUMSEQ).
"""
import z3
from pyvc.contract import Contract, State
from pyvc.values import SExt, SInt, SBool, SObj, SOpaque, PyRaise, Unsupported, FIN, PINF, NINF, NAN, pyfloordiv, pymod, zint, Lazy
from pyvc.ops import ClassRef, Builtin
from pyvc import ops

PROP = 'C06'
MODULE = 'evaluable'


def INV(lo, hi):
    return z3.And(z3.Or(lo.t == FIN, lo.t == NINF), z3.Or(hi.t == FIN, hi.t == PINF), lo.le(hi))


def inb(v, lo, hi):
    x = SExt(FIN, v)
    return z3.And(lo.le(x), x.le(hi))


class Child:
    """Symbolic child array: a range (lo, hi) with INV and a ghost element value inside it."""
    WITNESS = True

    def __init__(self, cx, name, index=False, nonempty=True, extra_attrs=None, classes=('Array',)):
        self.name = name
        self.lo = SExt(cx.int(name + '.lo.t'), cx.int(name + '.lo.v'))
        self.hi = SExt(cx.int(name + '.hi.t'), cx.int(name + '.hi.v'))
        cx.assume(INV(self.lo, self.hi))
        if index:
            cx.assume(SExt.lift(0).le(self.lo))
        self.val = cx.int(name + '.val')
        if Child.WITNESS:
            cx.assume(inb(self.val, self.lo, self.hi))
        attrs = {'_intbounds': (self.lo, self.hi)}
        attrs.update(extra_attrs or {})
        # `x._intbounds_impl()` bypasses the wrapper; by the child's own rule contract it returns an INV pair
        self.obj = SObj(classes[0], attrs=attrs, classes=classes,
                        methods={'_intbounds_impl': lambda ctx, o: (self.lo, self.hi)})

    def second_value(self, cx, tag):
        """Another element of the same child array."""
        v = cx.int('%s.val%s' % (self.name, tag))
        cx.assume(inb(v, self.lo, self.hi))
        return v


def result_pair(res):
    if not (isinstance(res, tuple) and len(res) == 2):
        raise Unsupported('rule returned %r, not a pair' % (res,))
    lo, hi = res
    if not (SExt.liftable(lo) and SExt.liftable(hi)):
        raise Unsupported('rule returned non-numeric bounds %r' % (res,))
    return SExt.lift(lo), SExt.lift(hi)


def np_sign(ctx, x):
    # numpy.sign on int / +-inf (nan propagates); int(numpy.sign(x)) afterwards
    x = SExt.lift(x)
    return SExt(z3.If(x.t == NAN, NAN, FIN), x.sign())


class NumpyStub:
    def sym_getattr(self, ctx, name):
        if name == 'sign':
            return np_sign
        raise Unsupported('numpy.%s not modelled in C06' % name)


class BuiltinsStub:
    def sym_getattr(self, ctx, name):
        return Builtin(name)


def util_product(ctx, it, *start):
    r = start[0] if start else 1
    for x in ops.iterate(ctx, it):
        r = ops.binop(ctx, '*', r, x)
    return r


class UtilStub:
    def sym_getattr(self, ctx, name):
        if name == 'product':
            return util_product
        raise Unsupported('util.%s' % name)


# uninterpreted polynomial helpers (external nutils_poly): axioms are added where used
NCOEFFS = z3.Function('poly_ncoeffs', z3.IntSort(), z3.IntSort(), z3.IntSort())
DEGREE = z3.Function('poly_degree', z3.IntSort(), z3.IntSort(), z3.IntSort())
DEGVALID = z3.Function('poly_degree_valid', z3.IntSort(), z3.IntSort(), z3.BoolSort())


class PolyStub:
    def sym_getattr(self, ctx, name):
        if name == 'degree':
            def degree(ctx, nvars, nc):
                nc = SExt.lift(nc)
                if not ctx.branch(nc.t == FIN):
                    raise PyRaise('TypeError', note='poly.degree of a float')
                if not ctx.branch(nc.v >= 0):
                    raise PyRaise('OverflowError')
                if not ctx.branch(DEGVALID(zint(nvars), nc.v)):
                    raise PyRaise('ValueError')
                ctx.used_axioms.add('poly.degree/ncoeffs: mutually inverse, monotone in degree (external nutils_poly)')
                return SInt(DEGREE(zint(nvars), nc.v))
            return degree
        if name == 'ncoeffs':
            def ncoeffs(ctx, nvars, d):
                d = SExt.lift(d)
                if not ctx.branch(d.t == FIN):
                    raise PyRaise('TypeError')
                if not ctx.branch(d.v >= 0):
                    raise PyRaise('OverflowError')
                ctx.used_axioms.add('poly.degree/ncoeffs: mutually inverse, monotone in degree (external nutils_poly)')
                return SInt(NCOEFFS(zint(nvars), d.v))
            return ncoeffs
        raise Unsupported('poly.%s' % name)


GLOBALS = {'numpy': NumpyStub(), 'builtins': BuiltinsStub(), 'util': UtilStub(), 'poly': PolyStub()}


class Rule(Contract):
    """Base: contract of one `<cls>._intbounds_impl`."""
    prop = PROP
    cls = None
    method = '_intbounds_impl'
    replay_builder = None

    def __init__(self):
        self.fn = '%s:%s.%s' % (MODULE, self.cls, self.method)

    # children(cx) -> (self SObj, ghost dict);  meaning(cx, G) -> z3 Int term (may cx.assume lemma instances)
    witness = True

    def setup(self, cx):
        Child.WITNESS = self.witness
        try:
            selfobj, G = self.model(cx)
        finally:
            Child.WITNESS = True
        S = State(args=(selfobj,), G=G, globals=dict(GLOBALS))
        S.globals.update(self.extra_globals(cx, G))
        return S

    def extra_globals(self, cx, G):
        return {}

    def replay(self, ob):
        import json, os
        here = os.path.dirname(os.path.dirname(os.path.abspath(__file__)))
        return ("import sys; sys.path.insert(0, %r)\nfrom native import c06\nc06.run(%r, %s, %r)\n"
                % (here, self.cls, json.dumps({k: v for k, v in ob.model.items() if not k.startswith('k!')}), ob.clause))

    def ensures(self, cx, S, result):
        lo, hi = result_pair(result)
        S.result = (lo, hi)
        v = self.meaning(cx, S.G)
        out = [('INV', INV(lo, hi))]
        if v is not None:
            out.append(('value-in-range', inb(v, lo, hi)))
        return out


def obj(cls, **attrs):
    return SObj(cls, attrs=attrs, classes=(cls, 'Array'))


# ---- selection nodes: every element of the result is an element of `func` ---------------------------------

class Selection(Rule):
    attr = 'func'

    def model(self, cx):
        c = Child(cx, self.attr)
        return obj(self.cls, **{self.attr: c.obj}), {'c': c}

    def meaning(self, cx, G):
        return G['c'].val


class InsertAxis(Selection):
    cls = 'InsertAxis'


class Transpose(Selection):
    cls = 'Transpose'


class TakeDiag(Selection):
    cls = 'TakeDiag'


class Take(Selection):
    cls = 'Take'


class TakeSlice(Selection):
    cls = '_TakeSlice'


class Get(Selection):
    cls = '_Get'


class Ravel(Selection):
    cls = 'Ravel'


class Unravel(Selection):
    cls = 'Unravel'


class LoopConcatenate(Selection):
    cls = 'LoopConcatenate'


# ---- pointwise ------------------------------------------------------------------------------------------

class Negative(Rule):
    cls = 'Negative'

    def model(self, cx):
        c = Child(cx, 'arg')
        return obj(self.cls, arg=c.obj), {'x': c}

    def meaning(self, cx, G):
        return -G['x'].val


class Absolute(Negative):
    cls = 'Absolute'

    def meaning(self, cx, G):
        x = G['x'].val
        return z3.If(x < 0, -x, x)


class Binary(Rule):
    names = ('x', 'y')

    def model(self, cx):
        a, b = Child(cx, self.names[0]), Child(cx, self.names[1])
        o = obj(self.cls, **{self.names[0]: a.obj, self.names[1]: b.obj})
        o.methods['super()._intbounds_impl'] = lambda ctx, s: (-float('inf'), float('inf'))  # Array._intbounds_impl of a non-constant
        return o, {'x': a, 'y': b}


class Minimum(Binary):
    cls = 'Minimum'

    def meaning(self, cx, G):
        x, y = G['x'].val, G['y'].val
        return z3.If(x < y, x, y)


class Maximum(Binary):
    cls = 'Maximum'

    def meaning(self, cx, G):
        x, y = G['x'].val, G['y'].val
        return z3.If(x > y, x, y)


class FloorDivide(Binary):
    cls = 'FloorDivide'
    names = ('dividend', 'divisor')

    def meaning(self, cx, G):
        x, y = G['x'].val, G['y'].val
        cx.used_axioms.add('numpy integer // and % return 0 for a zero divisor')
        return z3.If(y == 0, 0, pyfloordiv(x, y))


class Mod(Binary):
    cls = 'Mod'
    names = ('dividend', 'divisor')

    def meaning(self, cx, G):
        x, y = G['x'].val, G['y'].val
        cx.used_axioms.add('numpy integer // and % return 0 for a zero divisor')
        return z3.If(y == 0, 0, pymod(x, y))


class Multiply(Rule):
    cls = 'Multiply'

    def model(self, cx):
        a, b = Child(cx, 'func1'), Child(cx, 'func2')
        # self.funcs is a 2-element multiset; either unpacking order is covered by symmetry of the ghost values
        return obj(self.cls, funcs=(a.obj, b.obj)), {'x': a, 'y': b}

    def meaning(self, cx, G):
        return G['x'].val * G['y'].val


class Cast(Rule):
    cls = 'Cast'

    def model(self, cx):
        c = Child(cx, 'arg')
        isbool = cx.bool('arg.dtype_is_bool')
        c.obj.attrs['dtype'] = DType(isbool)
        # a boolean array has elements 0/1 and announces no integer range of its own
        cx.assume(z3.Implies(isbool, z3.Or(c.val == 0, c.val == 1)))
        return obj(self.cls, arg=c.obj), {'x': c, 'isbool': isbool}

    def extra_globals(self, cx, G):
        return {}

    def meaning(self, cx, G):
        return G['x'].val


class DType(SOpaque):
    """dtype compared against `bool`/`int`."""

    def __init__(self, isbool=None, isint=None):
        super().__init__('dtype')
        self.isbool, self.isint = isbool, isint

    def compare(self, ctx, op, other, reflected):
        if op in ('==', '!='):
            t = other.type if isinstance(other, Builtin) else other
            if t is bool and self.isbool is not None:
                return SBool(self.isbool if op == '==' else z3.Not(self.isbool))
            if t is int and self.isint is not None:
                return SBool(self.isint if op == '==' else z3.Not(self.isint))
        return NotImplemented


class Sign(Rule):
    cls = 'Sign'

    def model(self, cx):
        c = Child(cx, 'func')
        return obj(self.cls, func=c.obj), {'x': c}

    def meaning(self, cx, G):
        x = G['x'].val
        return z3.If(x > 0, 1, z3.If(x < 0, -1, 0))


class Zeros(Rule):
    cls = 'Zeros'

    def model(self, cx):
        return obj(self.cls), {}

    def meaning(self, cx, G):
        return z3.IntVal(0)


# ---- sums ------------------------------------------------------------------------------------------------

def lemma_sum(cx, n, lo, hi, tag):
    """L-SUM: a sum S of n >= 0 integers each inside [lo, hi] satisfies n*lo <= S <= n*hi (when finite); S=0 if n=0."""
    S = cx.int('S' + tag)
    cx.assume(z3.And(n >= 0, z3.Implies(lo.t == FIN, n * lo.v <= S), z3.Implies(hi.t == FIN, S <= n * hi.v), z3.Implies(n == 0, S == 0)),
              axiom='L-SUM: sum of n terms in [l,u] lies in [n*l, n*u] (lemmas/LSum.lean)')
    return S


class Sum(Rule):
    cls = 'Sum'

    def model(self, cx):
        f = Child(cx, 'func')
        n = Child(cx, 'length', index=True)
        f.obj.attrs['shape'] = (n.obj,)
        return obj(self.cls, func=f.obj), {'f': f, 'n': n}

    def meaning(self, cx, G):
        # numpy.sum(func, axis=-1): each result element is the sum of n = shape[-1] elements of func
        return lemma_sum(cx, G['n'].val, G['f'].lo, G['f'].hi, '')


class Dofmap(SObj):
    """dofmap child: whether it is a `Constant` node is symbolic."""

    def __init__(self, isconst):
        super().__init__('Array', attrs={'value': SOpaque('dofmap.value')}, classes=('Array',))
        self.isconst = isconst

    def isinstance_(self, ctx, types):
        names = [getattr(t, '__name__', None) for t in types]
        if 'Constant' in names:
            return self.isconst
        return super().isinstance_(ctx, types)


class Inflate(Rule):
    cls = 'Inflate'

    def model(self, cx):
        f = Child(cx, 'func')
        isconst, unique = cx.bool('dofmap.isconstant'), cx.bool('dofmap.unique')
        G = {'f': f, 'unique': unique}
        return obj(self.cls, func=f.obj, dofmap=Dofmap(isconst)), G

    def extra_globals(self, cx, G):
        def np_sort(ctx, v, axis=-1):
            return SOpaque('sorted(%s)' % getattr(v, 'label', '?'))

        def ismonotonic(ctx, v):
            # contract of evaluable:_ismonotonic on numpy.sort(dofmap.value, axis=None): true iff no entry repeats
            ctx.used_axioms.add('_ismonotonic(numpy.sort(v, axis=None)) holds iff v has no repeated entry')
            return SBool(G['unique'])

        class NP(NumpyStub):
            def sym_getattr(self, ctx, name):
                if name == 'sort':
                    return np_sort
                return super().sym_getattr(ctx, name)
        return {'numpy': NP(), '_ismonotonic': ismonotonic, 'Constant': ClassRef('Constant')}

    def meaning(self, cx, G):
        # numpy.add.at(out, dofmap, func): each result element is the sum of the k >= 0 elements of func whose
        # dofmap entry points at it; k <= 1 iff the dofmap has no repeated entry
        k = cx.int('k')
        cx.assume(z3.Implies(G['unique'], k <= 1))
        return lemma_sum(cx, k, G['f'].lo, G['f'].hi, '')


class Add(Rule):
    cls = 'Add'

    def model(self, cx):
        # `_terms` flattens nested Adds into >= 2 arrays whose elementwise sum is the node's value.  The rule is
        # a fold over that list, so it is proved for a pair (head, sum-of-tail) -- L-SUMSEQ step -- plus base.
        a, b = Child(cx, 'term1'), Child(cx, 'term2')
        return obj(self.cls, _terms=[a.obj, b.obj]), {'x': a, 'y': b}

    def meaning(self, cx, G):
        return G['x'].val + G['y'].val


class Add3(Rule):
    cls = 'Add'
    label = '3-terms'

    def model(self, cx):
        cs = [Child(cx, 'term%d' % i) for i in range(3)]
        return obj(self.cls, _terms=[c.obj for c in cs]), {'cs': cs}

    def meaning(self, cx, G):
        return G['cs'][0].val + G['cs'][1].val + G['cs'][2].val


class Einsum(Rule):
    """Two operands, one summed axis shared by both, (e.g. 'ij,j->i'); lengths symbolic."""
    cls = 'Einsum'
    label = '2args-1summed'
    split_conjunctions = True  # lower and upper bound are separate (nonlinear) obligations: each is several times cheaper than the conjunction

    def model(self, cx):
        a, b = Child(cx, 'arg1'), Child(cx, 'arg2')
        n = Child(cx, 'length', index=True)
        m = Child(cx, 'outlen', index=True)
        a.obj.attrs['shape'] = (m.obj, n.obj)
        b.obj.attrs['shape'] = (n.obj,)
        return obj(self.cls, args=(a.obj, b.obj), args_idx=((0, 1), (1,)), out_idx=(0,)), {'a': a, 'b': b, 'n': n}

    def meaning(self, cx, G):
        # result element = sum over j < n of a_j * b_j ; each product lies in the interval product [pl, pu]
        a, b, n = G['a'], G['b'], G['n'].val
        ext = [x.mul(y) for x in (a.lo, a.hi) for y in (b.lo, b.hi)]
        # interval product bounds with the 0*inf := 0 convention (an inf bound is an arbitrarily large finite one)
        p = cx.int('prod')  # one term
        cx.assume(p == a.val * b.val)
        S = cx.int('S')
        # L-SUMPROD: if every term a_j*b_j lies in [pl,pu] (finite) then n*pl <= S <= n*pu
        for (x, y) in [(a.lo, b.lo), (a.lo, b.hi), (a.hi, b.lo), (a.hi, b.hi)]:
            pass
        pl, pu = interval_product(a, b)
        cx.assume(z3.And(n >= 0, z3.Implies(n == 0, S == 0), z3.Implies(pl.t == FIN, n * pl.v <= S), z3.Implies(pu.t == FIN, S <= n * pu.v)),
                  axiom='L-SUM: sum of n terms in [l,u] lies in [n*l, n*u] (lemmas/LSum.lean)')
        return S


def zmul0(x, y):
    """x*y on ExtInt with 0*inf = 0 (true bound of a product whose factor range is unbounded)."""
    z = SExt(FIN, 0)
    anyzero = z3.Or(z3.And(x.t == FIN, x.v == 0), z3.And(y.t == FIN, y.v == 0))
    r = x.mul(y)
    return SExt.ite(anyzero, z, r)


def interval_product(a, b):
    cands = [zmul0(x, y) for x in (a.lo, a.hi) for y in (b.lo, b.hi)]
    lo = cands[0]
    hi = cands[0]
    for c in cands[1:]:
        lo = SExt.ite(c.lt(lo), c, lo)
        hi = SExt.ite(hi.lt(c), c, hi)
    return lo, hi


class EinsumNoSum(Rule):
    """Pure product, no summed axis ('i,i->i')."""
    cls = 'Einsum'
    label = '2args-nosum'

    def model(self, cx):
        a, b = Child(cx, 'arg1'), Child(cx, 'arg2')
        n = Child(cx, 'length', index=True)
        a.obj.attrs['shape'] = (n.obj,)
        b.obj.attrs['shape'] = (n.obj,)
        return obj(self.cls, args=(a.obj, b.obj), args_idx=((0,), (0,)), out_idx=(0,)), {'a': a, 'b': b}

    def meaning(self, cx, G):
        return G['a'].val * G['b'].val


class SizesToOffsets(Rule):
    cls = '_SizesToOffsets'

    def model(self, cx):
        s = Child(cx, 'sizes')
        cx.assume(SExt.lift(0).le(s.lo))  # asserted by __post_init__
        n = Child(cx, 'length', index=True)
        s.obj.attrs['shape'] = (n.obj,)
        return obj(self.cls, sizes=s.obj), {'s': s, 'n': n}

    def meaning(self, cx, G):
        # numpy.cumsum([0, *sizes]): element k is the sum of the first k <= n sizes
        k = cx.int('k')
        cx.assume(z3.And(0 <= k, k <= G['n'].val))
        return lemma_sum(cx, k, G['s'].lo, G['s'].hi, '')


# ---- index producing ---------------------------------------------------------------------------------------

class Range(Rule):
    cls = 'Range'

    def model(self, cx):
        n = Child(cx, 'length', index=True)
        return obj(self.cls, length=n.obj), {'n': n}

    def meaning(self, cx, G):
        e = cx.int('e')  # numpy.arange(n): elements 0..n-1
        cx.assume(z3.And(0 <= e, e < G['n'].val))
        return e


class LoopIndex(Range):
    cls = '_LoopIndex'


class Find(Rule):
    cls = 'Find'

    def model(self, cx):
        n = Child(cx, 'wherelen', index=True)
        where = SObj('Array', attrs={'shape': (n.obj,)})
        return obj(self.cls, where=where), {'n': n}

    def meaning(self, cx, G):
        e = cx.int('e')  # numpy.nonzero(where)[0]: positions 0..n-1
        cx.assume(z3.And(0 <= e, e < G['n'].val))
        return e


class ArgSort(Rule):
    cls = 'ArgSort'

    def model(self, cx):
        n = Child(cx, 'arraylen', index=True)
        arr = SObj('Array', attrs={'shape': (n.obj,)})
        return obj(self.cls, array=arr), {'n': n}

    def meaning(self, cx, G):
        e = cx.int('e')  # numpy.argsort(array, -1): a permutation of 0..n-1
        cx.assume(z3.And(0 <= e, e < G['n'].val))
        return e


class SearchSorted(Rule):
    cls = 'SearchSorted'

    def model(self, cx):
        n = Child(cx, 'arraylen', index=True)
        arr = SObj('Array', attrs={'shape': (n.obj,)})
        return obj(self.cls, array=arr), {'n': n}

    def meaning(self, cx, G):
        e = cx.int('e')  # numpy.searchsorted: insertion points 0..n
        cx.assume(z3.And(0 <= e, e <= G['n'].val))
        return e


class TransformIndex(Rule):
    cls = 'TransformIndex'

    def model(self, cx):
        n = cx.int('len_target')
        cx.assume(n >= 1)  # index_with_tail on an empty target raises for every input: the node has no value
        tgt = SObj('Transforms', attrs={}, classes=('Transforms',))
        tgt.length = lambda ctx: SInt(n)
        return obj(self.cls, target=tgt), {'n': n}

    def meaning(self, cx, G):
        e = cx.int('e')  # target.index_with_tail(chain)[0]: an element index of target (C11)
        cx.assume(z3.And(0 <= e, e < G['n']))
        return e


class InRange(Rule):
    cls = 'InRange'

    def model(self, cx):
        i, n = Child(cx, 'index'), Child(cx, 'length')
        return obj(self.cls, index=i.obj, length=n.obj), {'i': i, 'n': n}

    def meaning(self, cx, G):
        # InRange.evalf asserts 0 <= index < length and returns index: defined only then
        cx.assume(z3.And(0 <= G['i'].val, G['i'].val < G['n'].val))
        return G['i'].val


class NormDim(Rule):
    cls = 'NormDim'

    def model(self, cx):
        n, i = Child(cx, 'length'), Child(cx, 'index')
        return obj(self.cls, length=n.obj, index=i.obj), {'i': i, 'n': n}

    def meaning(self, cx, G):
        # numeric.normdim(length, index): index + length if index < 0 else index; IndexError unless 0 <= r < length
        i, n = G['i'].val, G['n'].val
        r = z3.If(i < 0, i + n, i)
        cx.assume(z3.And(0 <= r, r < n))
        return r


class RavelIndex(Rule):
    cls = 'RavelIndex'

    def model(self, cx):
        ia, ib, nb = Child(cx, 'ia'), Child(cx, 'ib'), Child(cx, 'nb', index=True)
        # call-site precondition (DESIGN 4.6): RavelIndex is only constructed for non-negative index arrays
        cx.assume(z3.And(SExt.lift(0).le(ia.lo), SExt.lift(0).le(ib.lo)),
                  axiom='RavelIndex call sites pass ia, ib >= 0 (not asserted by __post_init__)')
        return obj(self.cls, ia=ia.obj, ib=ib.obj, nb=nb.obj), {'ia': ia, 'ib': ib, 'nb': nb}

    def meaning(self, cx, G):
        return G['ia'].val * G['nb'].val + G['ib'].val


class AssertEqual(Rule):
    cls = 'AssertEqual'

    def model(self, cx):
        a, b = Child(cx, 'a'), Child(cx, 'b')
        return obj(self.cls, a=a.obj, b=b.obj), {'a': a, 'b': b}

    def meaning(self, cx, G):
        cx.assume(G['a'].val == G['b'].val)  # evalf raises unless the operands are equal
        return G['a'].val


class ArrayFromTuple(Rule):
    cls = 'ArrayFromTuple'

    def model(self, cx):
        cs = [Child(cx, 'item%d' % i) for i in range(3)]
        idx = cx.int('index')
        cx.assume(z3.And(0 <= idx, idx < 3))
        arrays = SObj('Evaluable', attrs={'_intbounds_tuple': tuple((c.lo, c.hi) for c in cs)})
        return obj(self.cls, arrays=arrays, index=SInt(idx)), {'cs': cs, 'idx': idx}

    def meaning(self, cx, G):
        cs, idx = G['cs'], G['idx']
        return z3.If(idx == 0, cs[0].val, z3.If(idx == 1, cs[1].val, cs[2].val))


class ArrayFromTupleNoBounds(Rule):
    cls = 'ArrayFromTuple'
    label = 'tuple-without-bounds'

    def model(self, cx):
        arrays = SObj('Evaluable', attrs={})
        arrays.getattr_default = True
        return obj(self.cls, arrays=ArraysNoBounds(), index=SInt(cx.int('index'))), {}

    def meaning(self, cx, G):
        return cx.int('anyvalue')


class ArraysNoBounds(SObj):
    def __init__(self):
        super().__init__('Evaluable')

    def getattr(self, ctx, name):
        raise PyRaise('AttributeError', note=name)


class TupleRule(Rule):
    cls = 'Tuple'
    method = '_intbounds_tuple'

    def model(self, cx):
        cs = [Child(cx, 'item%d' % i) for i in range(2)]
        return SObj('Tuple', attrs={'items': tuple(c.obj for c in cs)}), {'cs': cs}

    def ensures(self, cx, S, result):
        out = []
        if not (isinstance(result, tuple) and len(result) == 2):
            raise Unsupported('Tuple._intbounds_tuple returned %r' % (result,))
        for i, (pair, c) in enumerate(zip(result, S.G['cs'])):
            lo, hi = result_pair(pair)
            out.append(('INV[%d]' % i, INV(lo, hi)))
            out.append(('value-in-range[%d]' % i, inb(c.val, lo, hi)))
        return out


class SwapInflateTakeRule(Rule):
    cls = 'SwapInflateTake'
    method = '_intbounds_tuple'

    def model(self, cx):
        return SObj('SwapInflateTake'), {}

    def ensures(self, cx, S, result):
        # evalf returns (subinflate, subtake, count): positions into index vectors and a length -- all >= 0
        out = []
        if not (isinstance(result, tuple) and len(result) == 3):
            raise Unsupported('returned %r' % (result,))
        for i, pair in enumerate(result):
            lo, hi = result_pair(pair)
            e = cx.int('e%d' % i)
            cx.assume(e >= 0)
            out.append(('INV[%d]' % i, INV(lo, hi)))
            out.append(('value-in-range[%d]' % i, inb(e, lo, hi)))
        return out


class PolyDegree(Rule):
    cls = 'PolyDegree'

    def model(self, cx):
        c = Child(cx, 'ncoeffs')
        nv = cx.int('nvars')
        cx.assume(nv >= 0)
        a, b = z3.Ints('pa pb')
        cx.assume(z3.ForAll([a, b], z3.Implies(z3.And(0 <= a, a <= b, DEGVALID(nv, a), DEGVALID(nv, b)), z3.And(0 <= DEGREE(nv, a), DEGREE(nv, a) <= DEGREE(nv, b)))),
                  axiom='poly.degree/ncoeffs: mutually inverse, monotone in degree (external nutils_poly)')
        return obj(self.cls, ncoeffs=c.obj, nvars=SInt(nv)), {'c': c, 'nv': nv}

    def meaning(self, cx, G):
        c, nv = G['c'], G['nv']
        # poly.degree(nvars, ncoeffs) is defined (else evaluation raises); degree is monotone on valid counts, >= 0
        cx.assume(z3.And(c.val >= 0, DEGVALID(nv, c.val)))
        return DEGREE(nv, c.val)


class PolyNCoeffs(Rule):
    cls = 'PolyNCoeffs'

    def model(self, cx):
        d = Child(cx, 'degree')
        nv = cx.int('nvars')
        cx.assume(nv >= 0)
        a, b = z3.Ints('pa pb')
        cx.assume(z3.ForAll([a, b], z3.Implies(z3.And(0 <= a, a <= b), z3.And(1 <= NCOEFFS(nv, a), NCOEFFS(nv, a) <= NCOEFFS(nv, b)))),
                  axiom='poly.degree/ncoeffs: mutually inverse, monotone in degree (external nutils_poly)')
        return obj(self.cls, degree=d.obj, nvars=SInt(nv)), {'d': d, 'nv': nv}

    def meaning(self, cx, G):
        d, nv = G['d'], G['nv']
        cx.assume(d.val >= 0)  # poly.ncoeffs raises for a negative degree
        return NCOEFFS(nv, d.val)


class ConstantRule(Rule):
    cls = 'Constant'

    def model(self, cx):
        isint = cx.bool('dtype_is_int')
        size = cx.int('value.size')
        cx.assume(size >= 0)
        vmin, vmax, v = cx.int('value.min'), cx.int('value.max'), cx.int('value.elem')
        cx.assume(z3.And(vmin <= v, v <= vmax), axiom='numpy ndarray.min()/max() are the extrema of the array')

        def amin(ctx, o):
            if not ctx.branch(size > 0):
                raise PyRaise('ValueError', note='min of empty array')
            return SInt(vmin)

        def amax(ctx, o):
            if not ctx.branch(size > 0):
                raise PyRaise('ValueError', note='max of empty array')
            return SInt(vmax)
        value = SObj('ndarray', attrs={'size': SInt(size)}, methods={'min': amin, 'max': amax})
        o = obj(self.cls, dtype=DType(isint=isint), value=value)
        o.methods['super()._intbounds_impl'] = lambda ctx, s: array_default(ctx, s, isint, size, v)
        return o, {'v': v, 'size': size, 'isint': isint}

    def meaning(self, cx, G):
        cx.assume(G['size'] > 0)  # a witness element exists
        return G['v']


def array_default(ctx, s, isint, size, v):
    """Array._intbounds_impl seen from a subclass: (value, value) for a constant int scalar else (-inf, inf).
    Verified separately (ArrayDefault); here its contract is used."""
    return (-float('inf'), float('inf'))


class ArrayDefault(Rule):
    cls = 'Array'

    def model(self, cx):
        ndim = cx.int('ndim')
        cx.assume(ndim >= 0)
        isint, isconst = cx.bool('dtype_is_int'), cx.bool('isconstant')
        v = cx.int('value')
        o = obj('Array', ndim=SInt(ndim), dtype=DType(isint=isint), isconstant=SBool(isconst))
        # __index__ of a constant 0-d int array evaluates it: returns its single element
        o.methods['__index__'] = lambda ctx, s: SInt(v)
        return o, {'v': v}

    def meaning(self, cx, G):
        return G['v']


class IsMonotonic(Contract):
    """evaluable._ismonotonic(indices) <=> indices strictly increasing.  Inflate._intbounds_impl and Inflate._sign apply it
    to numpy.sort(dofmap.value, axis=None): true iff the dofmap has no repeated entry."""
    prop = PROP
    fn = 'evaluable:_ismonotonic'

    def setup(self, cx):
        from pyvc.nparr import Vec, Numpy
        from pyvc import lemmas
        a = Vec.fresh(cx, 'indices', 'int', probes=4)
        lemmas.strict_gap(cx, a)
        return State(args=(a,), a=a, globals={'numpy': Numpy()})

    def ensures(self, cx, S, result):
        from pyvc.nparr import qforall
        from pyvc.values import zbool
        a = S.a
        strict = qforall(1, lambda i: z3.Implies(z3.And(0 <= i, i + 1 < a.n), a.sel(i) < a.sel(i + 1)))
        r = zbool(result) if not isinstance(result, bool) else z3.BoolVal(result)
        return [('true-only-if-strictly-increasing', z3.Implies(r, strict)), ('true-if-strictly-increasing', z3.Implies(strict, r))]


def no_witness(rule):
    """Variant for possibly-empty arrays: no element value is assumed to exist in any child range; only the
    invariant of the returned pair is claimed (the wrapper asserts it whether or not the array has elements)."""
    class V(rule):
        label = ((rule.label + '+') if rule.label else '') + 'no-witness'
        witness = False

        def ensures(self, cx, S, result):
            lo, hi = result_pair(result)
            return [('INV', INV(lo, hi))]
    V.__name__ = rule.__name__ + 'NoWitness'
    V.__doc__ = no_witness.__doc__
    return V


# NormDim and AssertEqual can return lower > upper for EMPTY arrays built by hand (disjoint child ranges); the
# constructor of NormDim documents this corner.  Recorded in DESIGN 4.6 as an edge, not claimed here.
NO_WITNESS = None


def contracts():
    # The no-witness variants (INV of the returned pair for possibly EMPTY arrays) are NOT part of the check:
    # the property speaks about what evaluation delivers, and for an empty array there is nothing to deliver.
    # On the pinned tree they hold for every rule except NormDim, AssertEqual and InRange (hand-built empty
    # arrays with contradictory child ranges make Array._intbounds raise AssertionError); kept for experiments:
    # VERIF_C06_NO_WITNESS=1 adds them.
    import os
    base = _base()
    out = [c() for c in base] + [IsMonotonic()]
    if os.environ.get('VERIF_C06_NO_WITNESS'):
        for c in base:
            if c.cls in ('NormDim', 'AssertEqual', 'InRange') or c.method != '_intbounds_impl' or c is ArrayFromTupleNoBounds:
                continue
            out.append(no_witness(c)())
    return out


def _base():
    return list((
        ArrayDefault, AssertEqual, ConstantRule, InsertAxis, Transpose, Multiply, Add, Add3, Einsum, EinsumNoSum, Sum, TakeDiag, Take,
        TakeSlice, Get, Negative, FloorDivide, Absolute, Mod, Minimum, Maximum, Cast, Sign, ArrayFromTuple,
        ArrayFromTupleNoBounds, Zeros, Inflate, Find, Ravel, Unravel, RavelIndex, Range, InRange, PolyDegree,
        PolyNCoeffs, NormDim, TransformIndex, LoopIndex, SizesToOffsets, LoopConcatenate, SearchSorted, ArgSort,
        TupleRule, SwapInflateTakeRule))


LEVEL = 'proof'
TRUSTED = ['pyvc symbolic executor and its Python model (DESIGN 2.3): ExtInt = int | +-inf | nan with Python float semantics',
           'numpy meaning of each node operation as written in the meaning() of its contract (pointwise / selection / sum-like / index-producing)',
           'numpy int64 treated as mathematical integers (no overflow)',
           'structural induction over the expression DAG (meta-argument, DESIGN 4.6): node lemma at every node => every integer node evaluates inside _intbounds']
ASSUMPTIONS = ['child ranges satisfy the Array._intbounds invariant (established by the wrapper for every node: its three asserts)',
               'shape entries / lengths have lower bound >= 0 (_isindex asserted by the constructors)',
               'Python asserts enabled (no -O)',
               'arrays are non-empty where a rule is stated with a witness element (for an empty array the range claim is vacuous)']
NOT_COVERED = ['announced ndim/shape/dtype/arguments of the ~150 node classes and of function.Array (would restate numpy shape rules)',
               'Einsum with more than two operands or more than one summed axis (the rule is a fold; only the listed index patterns are under contract)',
               'Add over more than three flattened terms (fold; pair and triple are proved)',
               'empty arrays with contradictory child ranges (NormDim, AssertEqual, InRange can make Array._intbounds raise AssertionError)']


from contracts import C06b as _c06b  # first sentence of the property: announced ndim/shape/dtype/arguments (contracts/C06b.py)
contracts, TRUSTED, ASSUMPTIONS, NOT_COVERED = _c06b.extend(contracts, TRUSTED, ASSUMPTIONS, NOT_COVERED)
