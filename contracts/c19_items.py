"""C19 -- parse_item and parse_power of expression_v2._Parser (BOUNDED structure, symbolic characters / lengths / facts).

Same set-up as c19_parser (abstract backend, abstract sub-results satisfying R, opaque substrings), but the characters the functions
look at are symbolic code points: the first character of the item, the bracket characters reported by partition_scope, and every
character after the underscore (`name_<generated indices>`).  Index characters are code points here (sub-results carry lowercase letters).

parse_item    numerals select elements (get_element on the axis that follows the letters seen so far) and do not become axes; letters become
              indices; anything else is an ExpressionSyntaxError; an out-of-range numeral is an ExpressionSyntaxError; repeated letters are traced
              (real `_trace` body); numbers only where allowed; brackets must close and match; nothing may follow a scope; only `(`, `[`, `{`
              group; a name followed by a bracket other than `(` is rejected.
parse_power   at most one `^`, no whitespace around it, the exponent is a parenthesised expression or a signed integer and has dimension zero;
              summed indices of base and exponent must not collide with each other nor with the free indices.
"""
import itertools
import z3
from pyvc.contract import Contract, State
from pyvc.values import SInt, SBool, SObj, SOpaque, Sym, Unsupported, PyRaise, zint, zbool
from pyvc.small import SmallSet, IdxStr
from pyvc.ops import ClassRef
from contracts.c19_text import Char, MOD, OPEN, CLOSE
from contracts.c19_parser import PWorld, ASub, ParseContract, TermSpec, R_holds, set_equals, eq_any, Matcher, native, PROP

# Char behaves as an index character in IdxStr / SmallSet / the spec helpers
Char.term = property(lambda self: self.code)
Char.as_idx_chars = lambda self: [self]


def _char_binop(self, ctx, op, other, reflected):
    if op == '+':
        o = IdxStr.chars_of(other)
        if o is not None:
            return IdxStr(tuple(o) + (self,) if reflected else (self,) + tuple(o))
    return NotImplemented


Char.binop = _char_binop


class CRes:
    """abstract parse result whose index characters are lowercase-letter code points (satisfies R)"""

    def __init__(self, cx, tag, rank, nsummed=1):
        self.tag = tag
        self.chars = [Char(cx.int('%s.idx%d' % (tag, k))) for k in range(rank)]
        self.lens = [SInt(cx.int('%s.len%d' % (tag, k))) for k in range(rank)]
        self.summed = [Char(cx.int('%s.summed%d' % (tag, k))) for k in range(nsummed)]
        allc = [c.code for c in self.chars + self.summed]
        for c in allc:
            cx.assume(z3.And(97 <= c, c <= 122))
        if len(allc) > 1:
            cx.assume(z3.Distinct(*allc))
        self.array = SOpaque(tag)

    def value(self):
        return (self.array, tuple(self.lens), IdxStr(self.chars), SmallSet(list(self.summed), frozen=True))


class IWorld(PWorld):
    """PWorld whose substrings answer `x in s` with a symbolic fact only when asked to (it only feeds an error-message hint)"""

    def __init__(self, cx, contains_facts):
        super().__init__(cx)
        self.contains_facts = contains_facts

    def fact(self, ctx, name):
        if ':contains ' in name and not self.contains_facts:
            return False
        r = super().fact(ctx, name)
        return SBool(r) if ':contains ' in name else r


def pair_of(oc):
    """closing bracket that belongs to an opening bracket"""
    r = z3.IntVal(-1)
    for o, c in zip(OPEN, CLOSE):
        r = z3.If(oc == o, c, r)
    return r


class MaskedSpec(TermSpec):
    """TermSpec where only the positions with mask[k] are axes (the others are numerals that selected an element)"""

    def __init__(self, chars, lens, parts, mask):
        super().__init__(chars, lens, parts)
        self.mask = mask

    def count(self, k):
        return sum([z3.If(z3.And(self.mask[m], self.chars[k].term == c.term), 1, 0) for m, c in enumerate(self.chars)])

    def must_reject(self):
        cs = []
        allsum = [x for p in self.parts for x in p]
        for k in range(self.n):
            cs.append(z3.And(self.mask[k], z3.Or(self.count(k) >= 3, eq_any(self.chars[k], allsum))))
            for m in range(k + 1, self.n):
                cs.append(z3.And(self.mask[k], self.mask[m], self.chars[k].term == self.chars[m].term, zint(self.lens[k]) != zint(self.lens[m])))
        return z3.Or(*cs) if cs else z3.BoolVal(False)

    def clauses(self, shape, indices, summed, ntraces):
        out_chars = list(indices.chars)
        once = [z3.And(self.mask[k], self.count(k) == 1) for k in range(self.n)]
        n_out = len(out_chars)
        goal = [sum([z3.If(o, 1, 0) for o in once]) == n_out if self.n else z3.BoolVal(n_out == 0), z3.BoolVal(len(shape) == n_out)]
        for p in range(min(n_out, len(shape))):
            alts = []
            for k in range(self.n):
                before = sum([z3.If(once[m], 1, 0) for m in range(k)]) if k else z3.IntVal(0)
                alts.append(z3.And(once[k], before == p, out_chars[p].term == self.chars[k].term, zint(shape[p]) == zint(self.lens[k])))
            goal.append(z3.Or(*alts))
        sel = summed.elems if isinstance(summed, SmallSet) else list(summed)
        allsum = [x for p in self.parts for x in p]
        g2 = [eq_any(x, sel) for x in allsum]
        for k in range(self.n):
            g2.append(z3.Implies(z3.And(self.mask[k], self.count(k) == 2), eq_any(self.chars[k], sel)))
        for x in sel:
            g2.append(z3.Or(eq_any(x, allsum), *[z3.And(self.mask[k], x.term == self.chars[k].term, self.count(k) == 2) for k in range(self.n)]))
        return [('free-indices-are-the-letters-occurring-once-in-order (numerals are not axes)', z3.And(*goal)),
                ('summed-gains-exactly-the-repeated-letters', z3.And(*g2) if g2 else z3.BoolVal(True)),
                ('one-trace-per-repeated-letter', (sum([z3.If(z3.And(self.mask[k], self.count(k) == 2), 1, 0) for k in range(self.n)]) == 2 * ntraces) if self.n else z3.BoolVal(ntraces == 0))]


class ParseItem(ParseContract):
    """parse_item on one scenario (see module docstring)."""
    fn = MOD + ':_Parser.parse_item'
    bounded = 'at most 3 characters after the underscore, argument / group rank <= 2, one summed index in the argument; all characters, lengths and yes/no facts symbolic'

    def __init__(self, kind, g=0, r=0):
        self.kind, self.g, self.r = kind, g, r
        self.label = {'blank': 'blank', 'number': 'starts with a digit or dot', 'variable': 'variable with %d index characters' % g,
                      'novar': 'unknown variable / wrong dimension', 'call': 'name(argument of rank %d) with %d generated index characters' % (r, g),
                      'group': 'bracketed expression of rank %d' % r}[kind]
        self.expect_return = kind not in ('blank', 'novar')

    def setup(self, cx):
        kind = self.kind
        P = IWorld(cx, kind == 'blank')
        S = State(P=P)
        S.allow = cx.bool('allow_number') if kind in ('blank', 'number') else False
        s = ASub(P, 's')
        st = s.derived(None, 'trim', nonempty=(kind != 'blank'))
        S.first = cx.int('first-character')
        isnum = z3.Or(z3.And(48 <= S.first, S.first <= 57), S.first == 46)
        if kind == 'number':
            cx.assume(isnum)
        elif kind != 'blank':
            cx.assume(z3.Not(isnum))
        # generated index characters and the axis lengths the backend reports for them
        S.gen = [Char(cx.int('index-character%d' % k)) for k in range(self.g)]
        S.genlens = [SInt(cx.int('axis-length%d' % k)) for k in range(self.g)]
        S.arg = CRes(cx, 'argument', self.r) if kind in ('call', 'group') else None
        S.isint, S.isfloat = cx.bool('text-is-an-int'), cx.bool('text-is-a-float')
        S.number = CRes(cx, 'number', 0, 0)
        # partition_scope facts
        S.oc, S.cc = cx.int('opening-bracket'), cx.int('closing-bracket')
        cx.assume(z3.Or(*[S.oc == o for o in OPEN]))
        cx.assume(z3.Or(*[S.cc == c for c in CLOSE]))
        if kind == 'variable' or kind == 'novar':
            has_open = has_close = has_tail = False
            has_head = True
        elif kind == 'call':
            has_open, has_head = True, True
            has_close, has_tail = cx.bool('has-closing-bracket'), cx.bool('text-after-closing-bracket')
            cx.assume(z3.Implies(has_tail, has_close), axiom='contract of partition_scope (c19_scope): nothing follows a missing closing bracket')
        elif kind == 'group':
            has_head = False
            has_open, has_close, has_tail = cx.bool('has-opening-bracket'), cx.bool('has-closing-bracket'), cx.bool('text-after-closing-bracket')
            cx.assume(z3.And(z3.Implies(has_close, has_open), z3.Implies(has_tail, has_close)), axiom='contract of partition_scope (c19_scope): closing bracket only after an opening one, tail only after a closing one')
        else:
            has_open = has_close = has_tail = has_head = False
        S.has = dict(open=has_open, close=has_close, tail=has_tail, head=has_head)
        pieces = dict(head=ASub(P, 'head', nonempty=has_head), open=ASub(P, 'open', nonempty=has_open), scope=ASub(P, 'scope'),
                      close=ASub(P, 'close', nonempty=has_close), tail=ASub(P, 'tail', nonempty=has_tail))
        S.pieces = pieces
        name, under = ASub(P, 'name'), ASub(P, 'underscore')
        gen = ASub(P, 'generated', text=S.gen, nonempty=bool(S.gen))
        genchars = [ASub(P, 'generated[%d]' % k, nonempty=True) for k in range(self.g)]
        firstsub = ASub(P, 'first', nonempty=True)

        def sub_getitem(ctx, sub, idx):
            if sub is st and idx == 0 and isinstance(idx, int):
                if not ctx.branch(zbool(sub.truth(ctx))):
                    raise PyRaise('AssertionError', note='_Substring.__getitem__: 0 <= item < len(self)')
                return firstsub
            raise Unsupported('subscript %r of %s' % (idx, sub.tag))

        def sub_str(ctx, sub):
            if sub is firstsub:
                return Char(S.first)
            for k, gc in enumerate(genchars):
                if sub is gc:
                    return S.gen[k]
            for nm, code in (('open', S.oc), ('close', S.cc)):
                if sub is pieces[nm]:
                    return Char(code) if ctx.branch(zbool(sub.truth(ctx))) else ''
            return SOpaque('str')

        def sub_iter(ctx, sub):
            if sub is gen:
                return list(genchars)
            raise Unsupported('iteration over %s' % sub.tag)

        def partition_scope(ctx, sub):
            if sub is not st:
                raise Unsupported('partition_scope on %s' % sub.tag)
            return (pieces['head'], pieces['open'], pieces['scope'], pieces['close'], pieces['tail'])

        def partition(ctx, sub, *matchers):
            S.partition_args = (sub, matchers)
            return (name, under, gen)
        P.sub_methods.update({'__getitem__': sub_getitem, '__str__': sub_str, '__iter__': sub_iter, 'partition_scope': partition_scope, 'partition': partition})

        def parse_number(which):
            def f(ctx, me, sub):
                P.log.append((which, sub is st))
                if ctx.branch(S.isint if which == 'parse_unsigned_int' else S.isfloat):
                    return S.number.value()
                raise PyRaise('ExpressionSyntaxError', note='mocked ' + which)
            return f
        P.parser.methods['parse_unsigned_int'] = parse_number('parse_unsigned_int')
        P.parser.methods['parse_unsigned_float'] = parse_number('parse_unsigned_float')

        def parse_expression(ctx, me, sub):
            P.log.append(('parse_expression', sub is pieces['scope']))
            return S.arg.value()
        P.parser.methods['parse_expression'] = parse_expression
        S.variable = SOpaque('variable')
        S.called = SOpaque('called')

        def get_variable(ctx, nm, ndim):
            if kind == 'novar':
                S.novar = cx.bool('no-such-variable')
                if ctx.branch(S.novar):
                    return None
                return SObj('_InvalidDimension', attrs=dict(actual_ndim=SInt(ctx.int('actual_ndim'))), classes=('_InvalidDimension',))
            return (S.variable, tuple(S.genlens))

        def call(ctx, nm, ngen, arg):
            S.call_args = (ngen, arg)
            return (S.called, tuple(S.genlens))
        P.backend.results.update(get_variable=get_variable, call=call)
        S.args = (P.parser, s)
        S.kwargs = {'allow_number': SBool(S.allow) if not isinstance(S.allow, bool) else S.allow}
        S.globals = dict(P.globals)
        S.globals['_InvalidDimension'] = ClassRef('_InvalidDimension')
        S.s, S.st = s, st
        # specification of the index bookkeeping
        letters = [z3.And(97 <= c.code, c.code <= 122) for c in S.gen]
        S.letters, S.digits = letters, [z3.And(48 <= c.code, c.code <= 57) for c in S.gen]
        if kind == 'call':
            S.spec = MaskedSpec(S.arg.chars + S.gen, S.arg.lens + S.genlens, [S.arg.summed], [z3.BoolVal(True)] * self.r + letters)
        else:
            S.spec = MaskedSpec(list(S.gen), list(S.genlens), [], letters)
        return S

    def index_reject(self, S):
        cs = [z3.And(z3.Not(l), z3.Not(d)) for l, d in zip(S.letters, S.digits)]
        cs += [z3.And(d, c.code - 48 >= zint(n)) for d, c, n in zip(S.digits, S.gen, S.genlens)]
        return z3.Or(S.spec.must_reject(), *cs)

    def must_reject(self, cx, S):
        kind, H = self.kind, S.has
        if kind == 'blank':
            return z3.BoolVal(True)
        if kind == 'number':
            return z3.Or(z3.Not(zbool(S.allow)), z3.And(z3.Not(S.isint), z3.Not(S.isfloat)))
        if kind == 'novar':
            return z3.BoolVal(True)
        if kind == 'variable':
            return self.index_reject(S)
        mismatch = S.cc != pair_of(S.oc)
        if kind == 'call':
            return z3.Or(z3.Not(zbool(H['close'])), mismatch, zbool(H['tail']), S.oc != 40, self.index_reject(S))
        return z3.Or(z3.Not(zbool(H['open'])), z3.Not(zbool(H['close'])), mismatch, zbool(H['tail']), S.oc == 60)

    def ensures(self, cx, S, result):
        P = S.P
        arr, shape, indices, summed = result
        kind = self.kind
        out = [('accepted-only-if-valid', z3.Not(self.must_reject(cx, S)))]
        if kind == 'number':
            ints = [x for x in P.log if x[0] == 'parse_unsigned_int']
            out.append(('a-number-is-parsed-as-int-then-float', z3.BoolVal(arr is S.number.array and P.log and all(x[1] for x in P.log) and P.log[0][0] == 'parse_unsigned_int' and not P.backend.log)))
            out.append(('result-invariant-R', R_holds(shape, indices, summed)))
            return out
        if kind == 'group':
            f = [x for x in P.backend.log]
            ok = len(f) == 1 and f[0][0] in ('scope', 'mean', 'jump') and f[0][1][0] is S.arg.array and arr is f[0][2] and P.log == [('parse_expression', True)]
            out.append(('one-of-scope/mean/jump-applied-to-the-bracketed-expression', z3.BoolVal(bool(ok))))
            if ok:
                out.append(('bracket-kind-selects-the-operation', S.oc == {'scope': 40, 'jump': 91, 'mean': 123}[f[0][0]]))
            out.append(('indices-shape-summed-unchanged', z3.And(z3.BoolVal(isinstance(indices, IdxStr) and list(indices.chars) == S.arg.chars and list(shape) == S.arg.lens), set_equals(summed, [S.arg.summed]))))
            out.append(('result-invariant-R', R_holds(shape, indices, summed)))
            return out
        # variable / call: the generated index characters
        if not isinstance(indices, IdxStr):
            indices = IdxStr(IdxStr.chars_of(indices))
        src = S.variable if kind == 'variable' else S.called
        gets = P.backend.calls('get_element')
        traces = P.backend.calls('trace')
        chain_ok = True
        cur = src
        for a, r in gets:
            chain_ok = chain_ok and a[0] is cur
            cur = r
        for a, r in traces:
            chain_ok = chain_ok and a[0] is cur
            cur = r
        out.append(('element-selections-then-traces-applied-to-the-variable-in-sequence', z3.BoolVal(bool(chain_ok and arr is cur))))
        base = self.r if kind == 'call' else 0
        g = []
        ndig = sum([z3.If(d, 1, 0) for d in S.digits]) if S.digits else z3.IntVal(0)
        g.append(ndig == len(gets))
        for p, (a, r) in enumerate(gets):
            alts = []
            for k in range(self.g):
                dig_before = sum([z3.If(S.digits[m], 1, 0) for m in range(k)]) if k else z3.IntVal(0)
                let_before = sum([z3.If(S.letters[m], 1, 0) for m in range(k)]) if k else z3.IntVal(0)
                alts.append(z3.And(S.digits[k], dig_before == p, zint(a[1]) == base + let_before, zint(a[2]) == S.gen[k].code - 48, zint(a[2]) < zint(S.genlens[k])))
            g.append(z3.Or(*alts) if alts else z3.BoolVal(False))
        out.append(('each-numeral-selects-its-element-on-the-axis-after-the-letters-before-it', z3.And(*g)))
        out += S.spec.clauses(shape, indices, summed, len(traces))
        if kind == 'call':
            out.append(('function-called-with-the-parsed-argument-and-the-number-of-index-characters', z3.BoolVal(S.call_args[0] == self.g and S.call_args[1] is S.arg.array and P.log == [('parse_expression', True)])))
        out.append(('name-and-indices-split-at-the-underscore', z3.BoolVal(S.partition_args[0] is S.pieces['head'] and tuple(S.partition_args[1]) == (Matcher('_'),))))
        out.append(('result-invariant-R', R_holds(shape, indices, summed)))
        return out


def contracts():
    cs = [ParseItem('blank'), ParseItem('number'), ParseItem('novar', 1)]
    cs += [ParseItem('variable', g) for g in (0, 1, 2, 3)]
    cs += [ParseItem('call', g, r) for g, r in ((0, 0), (1, 1), (1, 2))]
    cs += [ParseItem('group', 0, r) for r in (0, 2)]
    return cs


TRUSTED = ['parse_item/parse_power: what the functions learn from the text are symbolic facts (emptiness, first character, bracket characters, characters after the underscore)']
ASSUMPTIONS = ['parse_item uses partition_scope by its contract (proved in c19_scope.PartitionScope): the open/close pieces are empty or one bracket character of the respective kind; a closing bracket only after an opening one; a tail only after a closing bracket',
               'sub-results in parse_item carry lowercase letters as indices (established by parse_item itself: only `a`..`z` become indices)',
               'the backend returns a shape whose length is the number of index characters it was asked for (the protocol of _ArrayOps; the code asserts it)',
               'the hint about `+ - /` in the error message (s_trimmed.__contains__) is only explored for the blank item']
NOT_COVERED = ['parse_signed_int / parse_unsigned_int / parse_unsigned_float (int()/float() of the text)']
