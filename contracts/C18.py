"""C18 (kernel) -- disk memoisation: key derivation and hit/miss control flow of cache.function (complete histories only).

cache.function.wrapper (the closure that replaces the decorated function), pickle and the file being externals:
  disabled   caching off  =>  returns func(*args, **kwargs), touches no file
  hit        the entry unpickles to (value, log) [or an old-format (log, fail=False, value)]  =>  returns value, the
             recorded log is replayed first, func is not called
  miss       unpickling raises EOFError / UnpicklingError / IndexError (or old format with fail)  =>  func is called exactly
             once with caching disabled, (value, log) is dumped AT OFFSET 0 of the same locked file, value is returned
  key        the file name is the hex digest of  func_key + nutils_hash(arg)... + sorted(sha1(k) + nutils_hash(v) ...):
             fixed-width blocks after a fixed 20-byte function key, kwargs order-independent (C17 arguments); func_key
             is the digest of '<module>.<qualname>:<version>' (cache.function).
Crash points, partial writes, stale longer entries and concurrent processes are NOT covered (see NOT_COVERED).
"""
import z3
from pyvc.contract import Contract, State
from pyvc.values import SInt, SBool, SObj, SOpaque, Sym, Unsupported, PyRaise, zint, zbool
from pyvc.ops import ClassRef, ExcInstance
from pyvc import ops

PROP = 'C18'
LEVEL = 'proof'


class FileV(Sym):
    def __init__(self, S):
        self.S = S
        self.pos = 'start'

    def sym_enter(self, ctx):
        self.S.events.append('open')
        return self

    def sym_exit(self, ctx):
        self.S.events.append('close')

    def getattr(self, ctx, name):
        if name == 'seek':
            def seek(ctx, p):
                if not (isinstance(p, int) and p == 0):
                    raise Unsupported('seek(%r)' % (p,))
                self.pos = 'start'
                self.S.events.append('seek0')
            return seek
        raise Unsupported('file.' + name)

    def truth(self, ctx):
        return True


class LogV(Sym):
    def __init__(self, S, tag):
        self.S, self.tag = S, tag

    def getattr(self, ctx, name):
        if name == 'replay':
            return lambda ctx: self.S.events.append('replay:' + self.tag)
        raise Unsupported('log.' + name)

    def truth(self, ctx):
        return True

    def sym_enter(self, ctx):
        return self

    def sym_exit(self, ctx):
        pass


class Wrapper(Contract):
    prop = PROP
    fn = 'cache:function.wrapper'

    def __init__(self, scenario):
        self.scenario = scenario  # disabled | hit | hit-old | miss-eof | miss-unpickling | miss-index | miss-old-fail
        self.label = scenario

    def setup(self, cx):
        S = State(events=[], func_calls=[], dumped=[], cache_state=[])
        stored_value, stored_log = SOpaque('stored-value'), LogV(S, 'stored')
        result_value = SOpaque('func-result')
        S.stored_value, S.result_value = stored_value, result_value
        f = FileV(S)

        def func(ctx, *a, **k):
            S.func_calls.append((a, k, list(S.cache_state)))
            S.events.append('func')
            return result_value

        class Pickle:
            def sym_getattr(s, ctx, name):
                if name == 'load':
                    def load(ctx, fobj):
                        S.events.append('load@' + fobj.pos)
                        fobj.pos = 'after-load'
                        sc = self.scenario
                        if sc == 'hit':
                            return (stored_value, stored_log)
                        if sc == 'hit-old':
                            return (stored_log, False, stored_value)
                        if sc == 'miss-old-fail':
                            return (stored_log, True, stored_value)
                        raise PyRaise({'miss-eof': 'EOFError', 'miss-unpickling': 'UnpicklingError', 'miss-index': 'IndexError'}[sc])
                    return load
                if name == 'dump':
                    def dump(ctx, obj, fobj):
                        S.dumped.append((obj, fobj.pos))
                        S.events.append('dump@' + fobj.pos)
                        fobj.pos = 'after-dump'
                    return dump
                if name == 'UnpicklingError':
                    from pyvc.interp import ExcClass
                    return ExcClass('UnpicklingError')
                raise Unsupported('pickle.' + name)

        class PathV(Sym):
            def binop(s, ctx, op, other, reflected):
                if op == '/':
                    S.key = other
                    return CacheFile()
                return NotImplemented

            def is_none(s, ctx):
                return False

        class CacheFile(Sym):
            def getattr(s, ctx, name):
                if name == 'parent':
                    return SObj('dir', methods={'mkdir': lambda ctx, o, **k: None})
                if name == 'touch':
                    return lambda ctx: S.events.append('touch')
                if name == 'open':
                    return lambda ctx, mode: (S.events.append('mode:' + mode), f)[1]
                raise Unsupported('path.' + name)

        class Caching:
            def sym_getattr(s, ctx, name):
                if name == 'current':
                    return None if self.scenario == 'disabled' else PathV()
                raise Unsupported(name)

        class Disable(Sym):
            def sym_enter(s, ctx):
                S.cache_state.append('disabled')

            def sym_exit(s, ctx):
                S.cache_state.pop()

        class Log:
            def sym_getattr(s, ctx, name):
                if name == 'RecordLog':
                    return lambda ctx: LogV(S, 'new')
                if name == 'add':
                    return lambda ctx, l: l
                return lambda ctx, *a, **k: None

        class HL:
            def sym_getattr(s, ctx, name):
                def sha1(ctx, init=None):
                    return Sha(S, init)
                return sha1

        class Ty:
            def sym_getattr(s, ctx, name):
                if name == 'nutils_hash':
                    return lambda ctx, x: ('H', x)
                raise Unsupported('types.' + name)
        S.args = (SOpaque('arg0'), SOpaque('arg1'))
        S.kwargs = {'kw1': SOpaque('kwval1'), 'kw2': SOpaque('kwval2')}
        S.globals = {'caching': Caching(), 'func': func, 'canonicalize': lambda ctx, *a, **k: (a, k), 'func_key': ('FUNCKEY',), 'hashlib': HL(), 'types': Ty(),
                     'pickle': Pickle(), 'log': Log(), 'disable': lambda ctx: Disable(), '_lock_file': lambda ctx, fobj: S.events.append('lock'),
                     'sorted': _sorted_kwargs}
        S.file = f
        return S

    def ensures(self, cx, S, result):
        sc = self.scenario
        ev = S.events
        B = z3.BoolVal
        if sc == 'disabled':
            return [('calls-func-directly', B(result is S.result_value and ev == ['func'] and len(S.func_calls) == 1 and S.func_calls[0][0] == S.args and S.func_calls[0][1] == S.kwargs))]
        out = [('locked-before-load', B('lock' in ev and ev.index('lock') < next(i for i, e in enumerate(ev) if e.startswith('load')))),
               ('loads-from-start', B('load@start' in ev)), ('file-closed', B(ev[-1] == 'close' or 'close' in ev))]
        if sc in ('hit', 'hit-old'):
            out += [('returns-stored-value', B(result is S.stored_value)), ('func-not-called', B(not S.func_calls)), ('nothing-written', B(not S.dumped)),
                    ('log-replayed', B('replay:stored' in ev))]
        else:
            v_ok = result is S.result_value
            dumped_ok = len(S.dumped) == 1 and isinstance(S.dumped[0][0], tuple) and len(S.dumped[0][0]) == 2 and S.dumped[0][0][0] is S.result_value \
                and isinstance(S.dumped[0][0][1], LogV) and S.dumped[0][0][1].tag == 'new'
            out += [('returns-func-result', B(v_ok)), ('func-called-once-with-the-arguments', B(len(S.func_calls) == 1 and S.func_calls[0][0] == S.args and S.func_calls[0][1] == S.kwargs)),
                    ('caching-disabled-inside-func', B(len(S.func_calls) == 1 and S.func_calls[0][2] == ['disabled'])),
                    ('stores-value-and-log', B(dumped_ok)), ('stores-at-offset-0', B(len(S.dumped) == 1 and S.dumped[0][1] == 'start'))]
        # key structure: function key first, then one block per positional argument in order, then the SORTED kwarg blocks
        k = S.key
        want_args = [('H', a) for a in S.args]
        key_ok = isinstance(k, KeyHex) and k.sha.init == ('FUNCKEY',) and k.sha.updates[:len(want_args)] == want_args and len(k.sha.updates) == len(want_args) + 1 \
            and isinstance(k.sha.updates[-1], SortedBlocks) and sorted(k.sha.updates[-1].names) == sorted(S.kwargs) and all(v is S.kwargs[n] for n, v in zip(k.sha.updates[-1].names, k.sha.updates[-1].values))
        out.append(('key-covers-function-and-all-arguments', B(bool(key_ok))))
        return out


class Sha(Sym):
    def __init__(self, S, init):
        self.S, self.init, self.updates = S, init, []

    def getattr(self, ctx, name):
        if name == 'update':
            def update(ctx, x):
                if isinstance(x, SortedBlock):
                    if not self.updates or not isinstance(self.updates[-1], SortedBlocks):
                        self.updates.append(SortedBlocks())
                    self.updates[-1].names.append(x.name)
                    self.updates[-1].values.append(x.value)
                else:
                    self.updates.append(x)
            return update
        if name == 'digest':
            return lambda ctx: ('DIGEST', self.init)
        if name == 'hexdigest':
            return lambda ctx: KeyHex(self)
        raise Unsupported('sha1.' + name)

    def truth(self, ctx):
        return True


class KeyHex(Sym):
    def __init__(self, sha):
        self.sha = sha


class SortedBlocks:
    def __init__(self):
        self.names, self.values = [], []

    def __eq__(self, other):
        return self is other


class SortedBlock(Sym):
    def __init__(self, name, value):
        self.name, self.value = name, value


def _sorted_kwargs(ctx, it):
    """sorted(sha1(k.encode()).digest() + nutils_hash(v) ...): a canonical arrangement; each block keeps (k, v)."""
    out = []
    for x in ops.iterate(ctx, it):
        if isinstance(x, tuple) and len(x) == 4 and x[0] == 'DIGEST' and isinstance(x[1], bytes) and x[2] == 'H':
            out.append(SortedBlock(x[1].decode(), x[3]))
        else:
            out.append(x)
    return out


class KeyOfFunction(Contract):
    """cache.function: func_key = sha1('<module>.<qualname>:<version>') -- all three enter the key."""
    prop = PROP
    fn = 'cache:function'

    def setup(self, cx):
        S = State(formats=[], shas=[])
        func = SObj('function', attrs={'__module__': 'MOD', '__qualname__': 'QUAL', '__name__': 'NAME', '__doc__': None})
        S.args = (func,)
        S.kwargs = {'version': 7}

        class HL:
            def sym_getattr(s, ctx, name):
                def sha1(ctx, init=None):
                    S.shas.append(init)
                    return SObj('sha', methods={'digest': lambda ctx, o: ('DIGEST', init)})
                return sha1

        class Ty:
            def sym_getattr(s, ctx, name):
                return lambda ctx, *a: SOpaque('canonicalizer')

        class Insp:
            def sym_getattr(s, ctx, name):
                return lambda ctx, *a: SOpaque('signature')

        class FT:
            def sym_getattr(s, ctx, name):
                if name == 'wraps':
                    return lambda ctx, f: (lambda ctx, g: g)
                if name == 'partial':
                    return lambda ctx, *a, **k: SOpaque('partial')
                raise Unsupported(name)
        S.globals = {'hashlib': HL(), 'types': Ty(), 'inspect': Insp(), 'functools': FT()}
        cx.format_hook = lambda template, a, k: FormatV(template, a)
        return S

    def ensures(self, cx, S, result):
        ok = len(S.shas) == 1 and isinstance(S.shas[0], EncodedV) and S.shas[0].f.template.count('{}') == 3 and S.shas[0].f.args == ('MOD', 'QUAL', 7) \
            and all(sep in S.shas[0].f.template for sep in ('.', ':'))
        return [('function-key-covers-module-qualname-version', z3.BoolVal(bool(ok)))]


class FormatV(Sym):
    def __init__(self, template, args):
        self.template, self.args = template, tuple(args)

    def getattr(self, ctx, name):
        if name == 'encode':
            return lambda ctx: EncodedV(self)
        raise Unsupported('str.' + name)


class EncodedV(Sym):
    def __init__(self, f):
        self.f = f


def contracts():
    return [Wrapper(s) for s in ('disabled', 'hit', 'hit-old', 'miss-eof', 'miss-unpickling', 'miss-index', 'miss-old-fail')] + [KeyOfFunction()]


TRUSTED = ['pyvc symbolic executor on the nested closure cache.function.wrapper; closure variables func, func_key, canonicalize supplied by the contract',
           'pickle.load either returns the stored object or raises EOFError/UnpicklingError/IndexError (ASSUMED; which exception a cut-off stream raises is exactly what a crash-point analysis would have to establish)',
           'injectivity / order-independence of the key follows from the block structure by the C17 arguments (SHA-1 idealised)']
ASSUMPTIONS = ['complete histories only: the cache file is either absent/empty/corrupt-in-a-caught-way or holds one complete entry at offset 0',
               'argument_canonicalizer returns the canonical (args, kwargs); file locking provides mutual exclusion']
NOT_COVERED = ['every truncation point of a pickle, partial overwrite of a longer stale entry, flock mutual exclusion across processes, resumption of Recursion after arbitrary partial runs: crash points, histories and schedules -- this family has nothing to say',
               'cache.Recursion history window (DESIGN 4.18; not built)']
