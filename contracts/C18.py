"""C18 (kernel) -- disk memoisation: key derivation and hit/miss control flow of cache.function (complete histories only).

cache.function.wrapper (the closure that replaces the decorated function), pickle and the file being externals:
  disabled   caching off  =>  returns func(*args, **kwargs), touches no file
  hit        the entry unpickles to (value, log) [or an old-format (log, fail=False, value)]  =>  returns value, the
             recorded log is replayed first, func is not called
  miss       unpickling raises EOFError / UnpicklingError / IndexError (or old format with fail)  =>  func is called exactly
             once with caching disabled, (value, log) is dumped AT OFFSET 0 of the same locked file, value is returned
  key        the file name is the hex digest of  func_key + nutils_hash(arg)... + sorted(sha1(k) + nutils_hash(v) ...):
             fixed-width blocks after a fixed 20-byte function key, kwargs order-independent (C17 arguments); func_key
             is the digest of '<module>.<qualname>:<version>' (cache.function).
Crash points, partial writes, stale longer entries and concurrent processes are NOT covered (see NOT_COVERED).
"""
import z3
from pyvc.contract import Contract, State
from pyvc.values import SInt, SBool, SObj, SOpaque, Sym, Unsupported, PyRaise, zint, zbool
from pyvc.ops import ClassRef, ExcInstance
from pyvc import ops

PROP = 'C18'
LEVEL = 'proof'


def _native(call):
    import os
    here = os.path.dirname(os.path.dirname(os.path.abspath(__file__)))
    return "import sys; sys.path.insert(0, %r)\nfrom native import c18\nc18.%s\n" % (here, call)


from pyvc.inproc import InProc  # noqa: E402  (obligations are ground / tiny QF queries: decided in-process)


class FileV(Sym):
    def __init__(self, S):
        self.S = S
        self.pos = 'start'

    def sym_enter(self, ctx):
        self.S.events.append('open')
        return self

    def sym_exit(self, ctx):
        self.S.events.append('close')

    def getattr(self, ctx, name):
        if name == 'seek':
            def seek(ctx, p, whence=0):
                if not (isinstance(p, int) and p == 0 and whence in (0, 2)):
                    raise Unsupported('seek(%r, %r)' % (p, whence))
                self.pos = 'start' if whence == 0 else 'end'
                self.S.events.append('seek0' if whence == 0 else 'seek-end')
            return seek
        raise Unsupported('file.' + name)

    def truth(self, ctx):
        return True


class LogV(Sym):
    def __init__(self, S, tag):
        self.S, self.tag = S, tag

    def getattr(self, ctx, name):
        if name == 'replay':
            def replay(ctx):
                if hasattr(self.S, 'replays'):
                    self.S.replays.append(self.tag)
                else:
                    self.S.events.append('replay:' + self.tag)
            return replay
        raise Unsupported('log.' + name)

    def truth(self, ctx):
        return True

    def sym_enter(self, ctx):
        return self

    def sym_exit(self, ctx):
        pass


INITIAL = {}


class Wrapper(InProc, Contract):
    prop = PROP
    fn = 'cache:function.wrapper'

    def __init__(self, scenario):
        self.scenario = scenario  # disabled | hit | hit-old | miss-eof | miss-unpickling | miss-index | miss-old-fail [+func-raises]
        self.label = scenario
        self.expect_return = '+func-raises' not in scenario

    def setup(self, cx):
        S = State(events=[], func_calls=[], dumped=[], cache_state=[])
        stored_value, stored_log = SOpaque('stored-value'), LogV(S, 'stored')
        result_value = SOpaque('func-result')
        S.stored_value, S.result_value = stored_value, result_value
        sc0 = INITIAL.get(self.scenario, self.scenario)
        S.func_raises = sc0.endswith('+func-raises')
        sc0 = sc0.replace('+func-raises', '')
        S.content = {'disabled': [], 'hit': [('record', (stored_value, stored_log))], 'hit-old': [('record', (stored_log, False, stored_value))],
                     'miss-old-fail': [('record', (stored_log, True, stored_value))], 'miss-eof': [], 'miss-unpickling': [('garbage', 'UnpicklingError')],
                     'miss-index': [('garbage', 'IndexError')]}[sc0]

        def func(ctx, *a, **k):
            S.func_calls.append((a, k, list(S.cache_state)))
            S.events.append('func')
            if S.func_raises:
                raise PyRaise('RuntimeError', note='the wrapped function raises')
            return result_value

        class Pickle:
            def sym_getattr(s, ctx, name):
                if name == 'load':
                    def load(ctx, fobj):
                        # external contract of pickle.load on a file positioned at the START of a pickle: it returns
                        # that object and reads no further than its STOP opcode (whatever follows is not looked at);
                        # on an empty file EOFError; on bytes that are no pickle one of the classes the code catches
                        # (ASSUMED, see TRUSTED).  At any other position nothing is promised.
                        S.events.append('load@' + fobj.pos)
                        at_start = fobj.pos == 'start'
                        fobj.pos = 'after-load'
                        if not at_start and not S.content:
                            raise PyRaise('EOFError')
                        first = S.content[0] if S.content else None
                        if first is None:
                            raise PyRaise('EOFError')
                        if first[0] == 'record':
                            return first[1]
                        raise PyRaise(first[1])
                    return load
                if name == 'dump':
                    def dump(ctx, obj, fobj):
                        # external contract of pickle.dump: writes one complete pickle at the current position and does
                        # NOT truncate: bytes of an older, longer entry beyond it stay in the file (the 'stale-tail')
                        S.dumped.append((obj, fobj.pos))
                        S.events.append('dump@' + fobj.pos)
                        if fobj.pos == 'start':
                            S.content[:] = [('record', obj)] + ([('stale-tail',)] if S.content else [])
                        elif fobj.pos in ('after-load', 'end'):
                            S.content.append(('record', obj))
                        else:
                            raise Unsupported('dump at position %s' % fobj.pos)
                        fobj.pos = 'after-dump'
                    return dump
                if name == 'UnpicklingError':
                    from pyvc.interp import ExcClass
                    return ExcClass('UnpicklingError')
                raise Unsupported('pickle.' + name)

        class PathV(Sym):
            def binop(s, ctx, op, other, reflected):
                if op == '/':
                    S.key = other
                    return CacheFile()
                return NotImplemented

            def is_none(s, ctx):
                return False

        class CacheFile(Sym):
            def getattr(s, ctx, name):
                if name == 'parent':
                    return SObj('dir', methods={'mkdir': lambda ctx, o, **k: None})
                if name == 'touch':
                    return lambda ctx: S.events.append('touch')
                if name == 'open':
                    def open_(ctx, mode):
                        if mode != 'r+b':
                            raise Unsupported('open mode %r' % (mode,))
                        S.events.append('mode:' + mode)
                        S.file = FileV(S)
                        return S.file
                    return open_
                if name in ('unlink', 'rename', 'replace', 'write_bytes', 'write_text', 'rmdir', 'chmod', 'symlink_to', 'hardlink_to'):
                    # any other effect on the entry's path is recorded; the contract's frame clause forbids them (the lock is tied to the
                    # file the path names: removing or replacing the entry while processes may wait on it breaks their mutual exclusion)
                    return lambda ctx, *a, **k: S.events.append('fs:' + name)
                raise Unsupported('path.' + name)

        class Caching:
            def sym_getattr(s, ctx, name):
                if name == 'current':
                    return None if self.scenario == 'disabled' else PathV()
                raise Unsupported(name)

        class Disable(Sym):
            def sym_enter(s, ctx):
                S.cache_state.append('disabled')

            def sym_exit(s, ctx):
                S.cache_state.pop()

        class Log:
            def sym_getattr(s, ctx, name):
                if name == 'RecordLog':
                    return lambda ctx: LogV(S, 'new')
                if name == 'add':
                    return lambda ctx, l: l
                return lambda ctx, *a, **k: None

        class HL:
            def sym_getattr(s, ctx, name):
                def sha1(ctx, init=None):
                    return Sha(S, init)
                return sha1

        class Ty:
            def sym_getattr(s, ctx, name):
                if name == 'nutils_hash':
                    return lambda ctx, x: ('H', x)
                raise Unsupported('types.' + name)
        S.args = (SOpaque('arg0'), SOpaque('arg1'))
        S.kwargs = {'kw1': SOpaque('kwval1'), 'kw2': SOpaque('kwval2')}
        S.globals = {'caching': Caching(), 'func': func, 'canonicalize': lambda ctx, *a, **k: (a, k), 'func_key': ('FUNCKEY',), 'hashlib': HL(), 'types': Ty(),
                     'pickle': Pickle(), 'log': Log(), 'disable': lambda ctx: Disable(), '_lock_file': lambda ctx, fobj: S.events.append('lock'),
                     'sorted': _sorted_kwargs}
        return S

    def replay(self, ob):
        if not self.replay_once(ob):
            return None
        if '+func-raises' in self.scenario or 'entry-path' in (ob.clause or ''):
            return _native('run_function_raises(%r)' % (ob.clause,))
        return _native('run_function_twice(%r, %r)' % (self.scenario if self.scenario in INITIAL else None, ob.clause))

    def raises(self, cx, S, e):
        # an exception of the wrapped function propagates unchanged: nothing is stored, the entry's path is left alone (frame), caching is
        # re-enabled and the file is closed (lock released)
        if getattr(S, 'func_raises', False) and e.exc.split(':')[0] == 'RuntimeError':
            ev = S.events
            return z3.BoolVal(len(S.func_calls) == 1 and not S.dumped and not any(x.startswith('fs:') for x in ev) and 'close' in ev and not S.cache_state
                              and S.func_calls[0][2] == ['disabled'])
        return False

    def ensures(self, cx, S, result):
        sc = self.scenario
        ev = S.events
        B = z3.BoolVal
        if getattr(S, 'func_raises', False):
            return [('exception-of-func-propagates', B(False))]
        if sc == 'disabled':
            return [('calls-func-directly', B(result is S.result_value and ev == ['func'] and len(S.func_calls) == 1 and S.func_calls[0][0] == S.args and S.func_calls[0][1] == S.kwargs))]
        out = [('locked-before-load', B('lock' in ev and ev.index('lock') < next(i for i, e in enumerate(ev) if e.startswith('load')))),
               ('loads-from-start', B('load@start' in ev)), ('file-closed', B(ev[-1] == 'close' or 'close' in ev))]
        if sc in ('hit', 'hit-old'):
            out += [('returns-stored-value', B(result is S.stored_value)), ('func-not-called', B(not S.func_calls)), ('nothing-written', B(not S.dumped)),
                    ('log-replayed', B('replay:stored' in ev))]
        else:
            v_ok = result is S.result_value
            dumped_ok = len(S.dumped) == 1 and isinstance(S.dumped[0][0], tuple) and len(S.dumped[0][0]) == 2 and S.dumped[0][0][0] is S.result_value \
                and isinstance(S.dumped[0][0][1], LogV) and S.dumped[0][0][1].tag == 'new'
            out += [('returns-func-result', B(v_ok)), ('func-called-once-with-the-arguments', B(len(S.func_calls) == 1 and S.func_calls[0][0] == S.args and S.func_calls[0][1] == S.kwargs)),
                    ('caching-disabled-inside-func', B(len(S.func_calls) == 1 and S.func_calls[0][2] == ['disabled'])),
                    ('stores-value-and-log', B(dumped_ok)), ('stores-at-offset-0', B(len(S.dumped) == 1 and S.dumped[0][1] == 'start'))]
        # key structure: function key first, then one block per positional argument in order, then the SORTED kwarg blocks
        k = S.key
        want_args = [('H', a) for a in S.args]
        key_ok = isinstance(k, KeyHex) and k.sha.init == ('FUNCKEY',) and k.sha.updates[:len(want_args)] == want_args and len(k.sha.updates) == len(want_args) + 1 \
            and isinstance(k.sha.updates[-1], SortedBlocks) and sorted(k.sha.updates[-1].names) == sorted(S.kwargs) and all(v is S.kwargs[n] for n, v in zip(k.sha.updates[-1].names, k.sha.updates[-1].values))
        out.append(('key-covers-function-and-all-arguments', B(bool(key_ok))))
        out.append(('entry-path-neither-removed-nor-replaced', B(not any(x.startswith('fs:') for x in ev))))
        return out


class WrapperTwice(Wrapper):
    """Two consecutive calls of cache.function.wrapper with the same arguments on one cache file whose initial content is a
    LONGER stale entry (old-format entry flagged `fail`, or bytes that do not unpickle) or nothing.  The first call
    recomputes and dumps at offset 0 WITHOUT truncating (the file then holds the new pickle followed by the tail of the
    stale one); the second call must be served from that entry: same value, recorded log replayed, func not run again,
    nothing written.  Relies only on: pickle.load at the start of a pickle returns it and ignores what follows."""
    fn = 'cache:function.wrapper'

    def __init__(self, scenario):
        self.scenario = scenario
        self.label = 'twice-' + scenario

    def body(self, cx, S, call):
        r1 = call(self.fn, *S.args, **S.kwargs)
        S.mark = (len(S.events), len(S.func_calls), len(S.dumped))
        S.first_result = r1
        S.first_key = S.key
        return call(self.fn, *S.args, **S.kwargs)

    def ensures(self, cx, S, result):
        B = z3.BoolVal
        ne, nf, nd = S.mark
        ev2 = S.events[ne:]
        rec = S.content[0] if S.content else None
        entry_ok = rec is not None and rec[0] == 'record' and isinstance(rec[1], tuple) and len(rec[1]) == 2 and rec[1][0] is S.result_value \
            and isinstance(rec[1][1], LogV) and rec[1][1].tag == 'new'
        tail_ok = S.content[1:] == ([('stale-tail',)] if INITIAL[self.scenario] != 'miss-eof' else [])
        return [('first-call-computes', B(S.first_result is S.result_value and nf == 1 and nd == 1)),
                ('new-entry-at-offset-0-stale-tail-left-behind', B(bool(entry_ok and tail_ok))),
                ('second-call-returns-the-same-value', B(result is S.result_value)),
                ('second-call-does-not-run-func', B(len(S.func_calls) == 1)),
                ('second-call-replays-recorded-log', B('replay:new' in ev2)),
                ('second-call-writes-nothing', B(len(S.dumped) == 1)),
                ('second-call-uses-the-same-file', B(S.key is not None and isinstance(S.first_key, KeyHex) and isinstance(S.key, KeyHex)
                                                     and S.key.sha.init == S.first_key.sha.init and len(S.key.sha.updates) == len(S.first_key.sha.updates)))]


INITIAL.update({'over-longer-old-format-entry': 'miss-old-fail', 'over-longer-garbage': 'miss-unpickling', 'into-empty-file': 'miss-eof'})


class Sha(Sym):
    def __init__(self, S, init):
        self.S, self.init, self.updates = S, init, []

    def getattr(self, ctx, name):
        if name == 'update':
            def update(ctx, x):
                if isinstance(x, SortedBlock):
                    if not self.updates or not isinstance(self.updates[-1], SortedBlocks):
                        self.updates.append(SortedBlocks())
                    self.updates[-1].names.append(x.name)
                    self.updates[-1].values.append(x.value)
                else:
                    self.updates.append(x)
            return update
        if name == 'digest':
            return lambda ctx: ('DIGEST', self.init)
        if name == 'hexdigest':
            return lambda ctx: KeyHex(self)
        raise Unsupported('sha1.' + name)

    def truth(self, ctx):
        return True


class KeyHex(Sym):
    def __init__(self, sha):
        self.sha = sha


class SortedBlocks:
    def __init__(self):
        self.names, self.values = [], []

    def __eq__(self, other):
        return self is other


class SortedBlock(Sym):
    def __init__(self, name, value):
        self.name, self.value = name, value


def _sorted_kwargs(ctx, it):
    """sorted(sha1(k.encode()).digest() + nutils_hash(v) ...): a canonical arrangement; each block keeps (k, v)."""
    out = []
    for x in ops.iterate(ctx, it):
        if isinstance(x, tuple) and len(x) == 4 and x[0] == 'DIGEST' and isinstance(x[1], bytes) and x[2] == 'H':
            out.append(SortedBlock(x[1].decode(), x[3]))
        else:
            out.append(x)
    return out


class KeyOfFunction(InProc, Contract):
    """cache.function: func_key = sha1('<module>.<qualname>:<version>') -- all three enter the key."""
    prop = PROP
    fn = 'cache:function'

    def setup(self, cx):
        S = State(formats=[], shas=[])
        func = SObj('function', attrs={'__module__': 'MOD', '__qualname__': 'QUAL', '__name__': 'NAME', '__doc__': None})
        S.args = (func,)
        S.kwargs = {'version': 7}

        class HL:
            def sym_getattr(s, ctx, name):
                def sha1(ctx, init=None):
                    S.shas.append(init)
                    return SObj('sha', methods={'digest': lambda ctx, o: ('DIGEST', init)})
                return sha1

        class Ty:
            def sym_getattr(s, ctx, name):
                return lambda ctx, *a: SOpaque('canonicalizer')

        class Insp:
            def sym_getattr(s, ctx, name):
                return lambda ctx, *a: SOpaque('signature')

        class FT:
            def sym_getattr(s, ctx, name):
                if name == 'wraps':
                    return lambda ctx, f: (lambda ctx, g: g)
                if name == 'partial':
                    return lambda ctx, *a, **k: SOpaque('partial')
                raise Unsupported(name)
        S.globals = {'hashlib': HL(), 'types': Ty(), 'inspect': Insp(), 'functools': FT()}
        cx.format_hook = lambda template, a, k: FormatV(template, a)
        return S

    def ensures(self, cx, S, result):
        ok = len(S.shas) == 1 and isinstance(S.shas[0], EncodedV) and S.shas[0].f.template.count('{}') == 3 and S.shas[0].f.args == ('MOD', 'QUAL', 7) \
            and all(sep in S.shas[0].f.template for sep in ('.', ':'))
        return [('function-key-covers-module-qualname-version', z3.BoolVal(bool(ok)))]


class FormatV(Sym):
    def __init__(self, template, args):
        self.template, self.args = template, tuple(args)

    def getattr(self, ctx, name):
        if name == 'encode':
            return lambda ctx: EncodedV(self)
        raise Unsupported('str.' + name)


class EncodedV(Sym):
    def __init__(self, f):
        self.f = f


# ------------------------------------------------------------------------------------------------ Recursion.__iter__

K_ITEMS = 4  # the consumer takes at most this many items and then abandons the iterator (bounded)
MISSING, EMPTY, TRUNC_UNPICKLING, TRUNC_INDEX, STOPMARK, STALE_VALID = 0, 1, 2, 3, 4, 5


class ItemHandle(Sym):
    """An open item file (one per `open`); position is 'start' | 'after-load' | 'after-dump'."""

    def __init__(self, S, index):
        self.S, self.index, self.pos = S, index, 'start'

    def sym_enter(self, ctx):
        self.S.events.append(('enter', self.index))
        return self

    def sym_exit(self, ctx):
        self.S.events.append(('close', self.index))

    def getattr(self, ctx, name):
        if name == 'seek':
            def seek(ctx, p, whence=0):
                if not (isinstance(p, int) and p == 0 and whence == 0):
                    raise Unsupported('seek(%r, %r)' % (p, whence))
                self.pos = 'start'
                self.S.events.append(('seek0', self.index))
            return seek
        raise Unsupported('file.' + name)

    def truth(self, ctx):
        return True


class GenV(Sym):
    """The generator `resume_index(history, index)` returns.  ASSUMPTION (the docstring's requirement on subclasses): given the
    last min(index, length) values x[index-h..index) it continues the sequence x[index], x[index+1], ... that the recursion
    yields from scratch, ends (StopIteration) or raises (GenError) at position T.  Given any OTHER history it yields
    different values."""

    def __init__(self, S, start, faithful):
        self.S, self.pos, self.faithful, self.done = S, start, faithful, False

    def sym_next(self, ctx):
        S = self.S
        p = self.pos
        if self.done:
            S.nexts.append((p, list(S.cache_state), 'after-end'))
            raise PyRaise('StopIteration')
        if ctx.branch(p < S.T):
            self.pos += 1
            S.nexts.append((p, list(S.cache_state), 'value'))
            return S.x(p) if self.faithful else S.wrong(p)
        self.done = True
        if ctx.branch(S.gen_raises):
            S.nexts.append((p, list(S.cache_state), 'raise'))
            raise PyRaise('GenError', note='the wrapped generator raises at position %d' % p)
        S.nexts.append((p, list(S.cache_state), 'stop'))
        raise PyRaise('StopIteration')

    def iterate(self, ctx):
        out = []
        for _ in range(K_ITEMS):  # the consumer abandons after K_ITEMS
            try:
                out.append(self.sym_next(ctx))
            except PyRaise as e:
                if e.exc == 'StopIteration':
                    break
                e.partial_yields = out
                raise
        return out

    def truth(self, ctx):
        return True


class RecursionIter(InProc, Contract):
    """cache.Recursion.__iter__ against a file system holding a COMPLETE or CLEANLY INTERRUPTED history of an earlier run:
    item files 0..n-1 hold (log, False, x_i) -- the values the recursion yields with caching disabled --, item file n is
    missing | empty | cut off (unpickling raises UnpicklingError or IndexError) | the stop marker (then the recursion ends
    at n), later files are arbitrary stale material.  n, the tail state, the recursion length, the position T at which the
    recursion ends and whether it ends by StopIteration or by raising are symbolic; the consumer takes at most K_ITEMS
    items (the `for i in itertools.count()` loop is unrolled that far).

      yields        the values yielded are x_0, x_1, ... -- the uncached sequence --, min(T, K_ITEMS) of them
      resume        the generator is resumed at most once, exactly when a load fails (never after a stop marker), at the
                    index of the failing file, with history == the last min(index, length) cached values in order
      exception     an exception of the generator escapes after exactly T correct values (same position as uncached)
      store         every computed item p is dumped as (log, False, x_p) at offset 0 of item file p, the end of the
                    recursion as (log, True, None); cached files are not rewritten; caching is disabled while the generator
                    runs; recorded logs of cached items are replayed; each file is locked before it is read or written
    """
    prop = PROP
    fn = 'cache:Recursion.__iter__'
    bounded = 'at most %d items consumed (the loop over items is unrolled %d times); number of cached items, tail state, recursion length, generator length symbolic' % (K_ITEMS, K_ITEMS)
    max_paths = 3000

    def __init__(self, scenario):
        self.scenario = scenario  # enabled | disabled
        self.label = scenario

    def setup(self, cx):
        S = State(events=[], resumes=[], dumps=[], loads=[], replays=[], cache_state=[], nexts=[], touched=set(), opened=[], xs={}, wrongs={}, stale={}, dirs=[])
        length, n, T, tail = cx.int('length'), cx.int('ncached'), cx.int('T'), cx.int('tail')
        gen_raises = cx.bool('gen_raises')
        cx.assume(length >= 0)
        cx.assume(n >= 0)
        cx.assume(T >= n)  # the history was written by an earlier run of the same recursion: it yields at least the n cached items
        cx.assume(z3.And(tail >= MISSING, tail <= STOPMARK))
        cx.assume(z3.Implies(tail == STOPMARK, z3.And(T == n, z3.Not(gen_raises))))  # a stop marker is only ever written where the recursion ends
        S.length, S.n, S.T, S.tail, S.gen_raises = length, n, T, tail, gen_raises

        def x(p):
            if p not in S.xs:
                S.xs[p] = SOpaque('x%d' % p)
            return S.xs[p]

        def wrong(p):
            if p not in S.wrongs:
                S.wrongs[p] = SOpaque('not-x%d' % p)
            return S.wrongs[p]
        S.x, S.wrong = x, wrong

        def kind_of(ctx, i):
            """symbolic state of item file i as a z3 Int"""
            if i not in S.stale:
                k = ctx.int('stale%d' % i)
                ctx.assume(z3.And(k >= MISSING, k <= STALE_VALID))
                S.stale[i] = k
            return z3.If(i < n, z3.IntVal(STALE_VALID + 1), z3.If(n == i, tail, S.stale[i]))
        S.truncated = set()

        class ItemFile(Sym):
            def __init__(s, index):
                s.index = index

            def getattr(s, ctx, name):
                if name == 'touch':
                    return lambda ctx, **k: (S.touched.add(s.index), S.events.append(('touch', s.index)))[1]
                if name == 'open':
                    def open_(ctx, mode='r'):
                        if mode not in ('r+b', 'rb+', 'w+b', 'wb+', 'wb', 'rb'):
                            raise Unsupported('open mode %r' % (mode,))
                        if s.index not in S.touched and not mode.startswith('w'):
                            if ctx.branch(kind_of(ctx, s.index) == MISSING):
                                raise PyRaise('OSError', note='FileNotFoundError: item file %d does not exist' % s.index)
                        if mode.startswith('w'):
                            S.truncated.add(s.index)  # opening for writing empties the file
                        S.events.append(('open', s.index, mode))
                        S.opened.append(s.index)
                        return ItemHandle(S, s.index)
                    return open_
                raise Unsupported('path.' + name)

        class DirV(Sym):
            def __init__(s, key):
                s.key = key

            def getattr(s, ctx, name):
                if name == 'mkdir':
                    return lambda ctx, **k: S.events.append(('mkdir',))
                raise Unsupported('path.' + name)

            def binop(s, ctx, op, other, reflected):
                if op == '/' and not reflected and isinstance(other, FormatV) and other.template.count('{') == 1 and len(other.args) == 1 and isinstance(other.args[0], int):
                    return ItemFile(other.args[0])
                if op == '/':
                    raise Unsupported('item file name %r' % (other,))
                return NotImplemented

        class RootV(Sym):
            def binop(s, ctx, op, other, reflected):
                if op == '/' and not reflected:
                    S.dirs.append(other)
                    return DirV(other)
                return NotImplemented

            def is_none(s, ctx):
                return False

        class Caching:
            def sym_getattr(s, ctx, name):
                if name == 'current':
                    return None if self.scenario == 'disabled' else RootV()
                raise Unsupported(name)

        class Pickle:
            def sym_getattr(s, ctx, name):
                if name == 'load':
                    def load(ctx, f):
                        i = f.index
                        if f.pos != 'start':
                            raise Unsupported('pickle.load at position %s' % f.pos)
                        f.pos = 'after-load'
                        if i in S.truncated:
                            S.loads.append((i, 'fail'))
                            raise PyRaise('EOFError')
                        k = kind_of(ctx, i)
                        if ctx.branch(k == STALE_VALID + 1):
                            S.loads.append((i, 'ok'))
                            return (LogV(S, 'stored%d' % i), False, x(i))
                        if ctx.branch(k <= EMPTY):
                            S.loads.append((i, 'fail'))
                            raise PyRaise('EOFError')
                        if ctx.branch(k == TRUNC_UNPICKLING):
                            S.loads.append((i, 'fail'))
                            raise PyRaise('UnpicklingError')
                        if ctx.branch(k == TRUNC_INDEX):
                            S.loads.append((i, 'fail'))
                            raise PyRaise('IndexError')
                        if ctx.branch(k == STOPMARK):
                            S.loads.append((i, 'stop'))
                            return (LogV(S, 'stored%d' % i), True, None)
                        S.loads.append((i, 'stale'))
                        return (LogV(S, 'stale%d' % i), False, SOpaque('stale-value%d' % i))
                    return load
                if name == 'dump':
                    def dump(ctx, obj, f):
                        S.dumps.append((f.index, f.pos, obj))
                        f.pos = 'after-dump'
                    return dump
                if name == 'UnpicklingError':
                    from pyvc.interp import ExcClass
                    return ExcClass('UnpicklingError')
                raise Unsupported('pickle.' + name)

        class Disable(Sym):
            def sym_enter(s, ctx):
                S.cache_state.append('disabled')

            def sym_exit(s, ctx):
                S.cache_state.pop()

        class Log:
            def sym_getattr(s, ctx, name):
                if name == 'RecordLog':
                    return lambda ctx: LogV(S, 'new')
                if name == 'add':
                    return lambda ctx, l: l
                return lambda ctx, *a, **k: None

        class Itertools:
            def sym_getattr(s, ctx, name):
                if name == 'count':
                    return lambda ctx: list(range(K_ITEMS))
                raise Unsupported('itertools.' + name)

        def resume_index(ctx, o, history, index):
            snap = list(history) if isinstance(history, (list, tuple)) else history
            S.resumes.append((snap, index, type(history).__name__))
            return GenV(S, index if isinstance(index, int) else 0, self.history_ok(S, snap, index) is True)

        class SelfV(SObj):
            def pytype(s, ctx):
                return SObj('RecursionSubclass', attrs={'length': SInt(length)})
        S.HKEY = SOpaque('hex-of-nutils-hash')
        S.self = SelfV('Recursion', attrs={'__nutils_hash__': SObj('bytes', methods={'hex': lambda ctx, o: S.HKEY})}, methods={'resume_index': resume_index})
        S.args = (S.self,)
        S.globals = {'caching': Caching(), 'pickle': Pickle(), 'log': Log(), 'disable': lambda ctx: Disable(), 'itertools': Itertools(),
                     '_lock_file': lambda ctx, f: S.events.append(('lock', f.index))}
        cx.format_hook = lambda template, a, k: FormatV(template, a)
        return S

    def replay(self, ob):
        import json
        if not self.replay_once(ob):
            return None
        return _native('run_recursion(%s, %r)' % (json.dumps({k: str(v) for k, v in (ob.model or {}).items() if not k.startswith('k!')}), ob.clause))

    @staticmethod
    def history_ok(S, snap, index):
        """ground part: `snap` is a list of the h values x[index-h..index) in order (h <= index)"""
        if not isinstance(snap, list) or not isinstance(index, int):
            return False
        h = len(snap)
        return h <= index and all(v is S.x(index - h + j) for j, v in enumerate(snap))

    def facts(self, cx, S, yields):
        """(clause, formula) pairs that hold on every path, returning or raising"""
        B = z3.BoolVal
        K = K_ITEMS
        out = []
        ys = list(yields) if isinstance(yields, (list, tuple)) else None
        out.append(('yields-are-the-uncached-values-in-order', B(ys is not None and all(v is S.x(p) for p, v in enumerate(ys)))))
        if self.scenario == 'disabled':
            out.append(('disabled-resumes-from-scratch-and-touches-no-file', B(len(S.resumes) == 1 and S.resumes[0][0] == [] and S.resumes[0][1] == 0 and not S.events and not S.loads and not S.dumps)))
            return out, ys
        fails = [i for i, r in S.loads if r == 'fail']
        oks = [i for i, r in S.loads if r in ('ok', 'stop')]
        first_fail = fails[0] if fails else None
        out.append(('resumed-at-most-once', B(len(S.resumes) <= 1)))
        exp_res = first_fail is not None
        res_ok = (len(S.resumes) == 1) == exp_res and all(r[1] == first_fail for r in S.resumes) and not any(r == 'stale' for _, r in S.loads) \
            and S.loads == [(i, 'ok') for i in range(len(S.loads) - 1)] + [(len(S.loads) - 1, S.loads[-1][1])] if S.loads else not S.resumes
        out.append(('resumed-exactly-when-a-load-fails-at-that-index', B(bool(res_ok))))
        if S.resumes:
            snap, idx, tname = S.resumes[0]
            out.append(('resume-history-holds-the-last-cached-values-in-order', B(tname == 'list' and self.history_ok(S, snap, idx) is True)))
            if isinstance(snap, list) and isinstance(idx, int):
                out.append(('resume-history-has-min-index-length-items', z3.IntVal(len(snap)) == z3.If(idx < S.length, z3.IntVal(idx), S.length)))
        out.append(('cached-logs-replayed-in-order', B(S.replays == ['stored%d' % i for i in oks])))
        # what must have been stored: one record per generator step, at offset 0 of the file with the step's index
        exp, ok_steps = [], True
        for p, cs, what in S.nexts:
            if what == 'value':
                exp.append((p, 'start', False, S.x(p)))
            elif what == 'stop':
                exp.append((p, 'start', True, None))
            elif what == 'after-end':
                ok_steps = False
        got = []
        for i, pos, obj in S.dumps:
            if isinstance(obj, tuple) and len(obj) == 3 and isinstance(obj[0], LogV) and obj[0].tag == 'new' and isinstance(obj[1], bool):
                got.append((i, pos, obj[1], obj[2]))
            else:
                got.append((i, pos, 'malformed', obj))
        same = len(got) == len(exp) and all(g[:3] == e[:3] and g[3] is e[3] for g, e in zip(got, exp))
        steps_consecutive = [p for p, _, _ in S.nexts] == list(range(first_fail, first_fail + len(S.nexts))) if first_fail is not None else not S.nexts
        out.append(('computed-items-stored-at-offset-0-of-their-own-file', B(bool(same and ok_steps and steps_consecutive))))
        out.append(('caching-disabled-while-the-generator-runs', B(all(cs == ['disabled'] for _, cs, _ in S.nexts))))
        # per file: touch/open, lock, then load/dump, then close; files 0,1,2,... each opened once
        locked = True
        for i in set(S.opened):
            ev = [e for e in S.events if len(e) > 1 and e[1] == i]
            kinds = [e[0] for e in ev]
            locked = locked and 'lock' in kinds and 'enter' in kinds and kinds.index('enter') < kinds.index('lock') and kinds[-1] == 'close' and kinds.count('open') == 1
        first_access = {}
        order = [('lock', e[1]) for e in S.events if e[0] == 'lock']
        acc = [i for i, _ in S.loads] + [i for i, _, _ in S.dumps]
        locked = locked and all(('lock', i) in order for i in acc)
        out.append(('each-item-file-locked-before-use-and-closed', B(bool(locked and S.opened == list(range(len(S.opened)))))))
        out.append(('one-directory-keyed-by-the-object-hash', B(len(S.dirs) == 1 and S.dirs[0] is S.HKEY)))
        return out, ys

    def ensures(self, cx, S, result):
        out, ys = self.facts(cx, S, result)
        K = z3.IntVal(K_ITEMS)
        out.append(('yields-min-T-K-items', z3.IntVal(len(ys) if ys is not None else -1) == z3.If(S.T < K, S.T, K)))
        out.append(('returns-normally-only-if-the-recursion-does', z3.Or(z3.Not(S.gen_raises), S.T >= K)))
        return out

    def raises(self, cx, S, e):
        if e.exc != 'GenError':
            return False
        ys = getattr(e, 'partial_yields', None)
        out, ys = self.facts(cx, S, ys)
        conj = [g if not isinstance(g, bool) else z3.BoolVal(g) for _, g in out]
        return z3.And(S.gen_raises, S.T < K_ITEMS, z3.IntVal(len(ys) if ys is not None else -1) == S.T, *conj)


class ResumeIndex(InProc, Contract):
    """Recursion.resume_index (default): hands the SAME history to self.resume and returns its generator."""
    prop = PROP
    fn = 'cache:Recursion.resume_index'

    def setup(self, cx):
        S = State(calls=[])
        S.hist = [SOpaque('h0'), SOpaque('h1')]
        S.gen = SOpaque('generator')

        def resume(ctx, o, history):
            S.calls.append((history, list(history) if isinstance(history, list) else None))
            return S.gen
        S.args = (SObj('Recursion', methods={'resume': resume}), S.hist, 2)
        return S

    def ensures(self, cx, S, result):
        ok = result is S.gen and len(S.calls) == 1 and S.calls[0][0] is S.hist and S.calls[0][1] is not None and len(S.calls[0][1]) == 2 \
            and all(a is b for a, b in zip(S.calls[0][1], S.hist))
        return [('resumes-with-the-history-it-was-given', z3.BoolVal(bool(ok)))]


def _context_contracts():
    from contracts import c18_contexts
    return c18_contexts.contracts()


def contracts():
    return [Wrapper(s) for s in ('disabled', 'hit', 'hit-old', 'miss-eof', 'miss-unpickling', 'miss-index', 'miss-old-fail',
                                 'miss-eof+func-raises', 'miss-unpickling+func-raises', 'miss-old-fail+func-raises')] + [KeyOfFunction()] \
        + [WrapperTwice(s) for s in ('over-longer-old-format-entry', 'over-longer-garbage', 'into-empty-file')] \
        + [RecursionIter('enabled'), RecursionIter('disabled'), ResumeIndex()] + _context_contracts()


TRUSTED = ['pyvc symbolic executor on the nested closure cache.function.wrapper; closure variables func, func_key, canonicalize supplied by the contract',
           'pickle.load on a file positioned at the start of a pickle returns that object and reads nothing beyond its STOP opcode (trailing bytes of an older, longer entry are never looked at); on an empty file it raises EOFError; pickle.dump writes one complete pickle at the current position and does not truncate (cross-checked natively on random entries, native/axioms.py)',
           'ASSUMED: a cut-off (truncated) or otherwise unreadable entry makes pickle.load raise EOFError, UnpicklingError or IndexError -- the classes the code catches.  Cross-checked for EVERY truncation point of random entries (native/axioms.py: only EOFError/UnpicklingError occur with the C unpickler); NOT true for arbitrary corrupt bytes (notes/C18-c18.md)',
           'file system as a state machine per item file: missing | empty | cut-off | complete entry | stop marker; touch() creates a missing file empty; open("r+b") of a missing file raises OSError; open for writing empties it; seek(0) returns to offset 0',
           'contextlib.contextmanager: the with-block runs at the single yield of the generator and its exception is raised there (pyvc runs the block at the yield point); functools.wraps and util.defaults_from_env return the function unchanged (no NUTILS_CACHE* environment variables); pathlib.Path(x).expanduser() is Path(x)',
           'fcntl.flock(f, LOCK_EX) blocks until it holds an exclusive lock tied to the open file description (mutual exclusion itself is the kernel\'s and is ASSUMED)',
           'injectivity / order-independence of the key follows from the block structure by the C17 arguments (SHA-1 idealised)']
ASSUMPTIONS = ['histories are COMPLETE or CLEANLY INTERRUPTED: a cache.function file is absent/empty/unreadable-in-a-caught-way or holds one complete entry at offset 0 (possibly followed by the tail of an older longer entry); a Recursion directory holds n complete items written by an earlier run of the same recursion, then a missing/empty/cut-off item or the stop marker, then arbitrary stale files',
               'the wrapped function / recursion is deterministic (the docstrings\' requirement): resume_index(history, index) given the last min(index, length) values continues the sequence that the recursion yields from scratch; given another history it yields something else',
               'BOUNDED: the consumer of Recursion.__iter__ takes at most 4 items (loop over item files unrolled); number of cached items, recursion length, position and manner of the recursion\'s end are symbolic',
               'argument_canonicalizer returns the canonical (args, kwargs); file locking provides mutual exclusion; type(self).length >= 0']
NOT_COVERED = ['being KILLED at an arbitrary byte while OVERWRITING a longer stale entry (prefix of the new pickle followed by old bytes), arbitrary corrupt bytes (pickle.load can then raise ValueError/TypeError/UnicodeDecodeError/... or return a wrong object), flock mutual exclusion across processes and concurrent callers: crash points and schedules -- this family has nothing to say',
               'Recursion beyond 4 consumed items (no loop invariant over the item loop; the engine evaluates generators eagerly)',
               'msvcrt locking (Windows), the retry loop of _lock_file_msvcrt']
