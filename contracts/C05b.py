"""C05 (extension) -- the flat-index merge of `Array.assparse`, the `_assparse` rules of the node classes, CSR composition.

Array.assparse (evaluable.py:588)   ranks 0..3, 0..2 chunks of rank 1, SYMBOLIC axis lengths / chunk lengths / indices / values.
    The real body is executed on positional array models (contracts/c05_arr.py): the flat index it builds is the
    row-major ravel of the chunk's index tuple; `unique(.., return_inverse=True)` is replaced by its contract (proved from
    the real body of evaluable.unique by the `Unique` harness below); the divmod chain unravels.  Postcondition, from the
    property statement:
      index-in-shape          every returned index lies inside the announced shape
      lexicographic-strict    consecutive returned index tuples increase strictly in lexicographic order (unique + ordered)
      entry-lands-on-its-index  values = sum over the chunks of Inflate(chunk values, dofmap_c, len(flatindex)) where for EVERY
                              position p of chunk c the slot dofmap_c[p] is in range and carries exactly the index tuple of p;
                              by linearity of scatter-add, scattering the result equals scattering the chunks.
evaluable.unique (5656)             harness: real body on the meanings of ArgSort/Take/UniqueMask/Find/UniqueInverse (the two
                                    evalf contracts of C05.py), with the induction `sorted[find[rank(k)]] = sorted[k]` as explicit
                                    base/step lemmas.
"""
import itertools
import z3
from pyvc.contract import Contract, State
from pyvc.values import SInt, SBool, SObj, Unsupported, PyRaise, zint, Lazy
from pyvc.nparr import qforall
from pyvc.native import NativeBounded
from pyvc.ops import Builtin
from pyvc import ops, extract
from contracts import c05_arr as A
from contracts.c05_arr import PA, INT, FLOAT, zi

PROP = 'C05'


# ------------------------------------------------------------------------------------------ contract of evaluable.unique

def unique_spec(arr_at, N, U, n_out, INV, W, forall=None):
    """Clauses relating the input vector (arr_at, length N) to unique values U[0:n_out], inverse INV[0:N], witness W[0:n_out].
    `forall(body)`: a universal quantifier when the clauses are ASSUMED (callers); the instance at a fresh constant when they are
    PROVED (generalisation), so both readings are the same statement."""
    forall = forall or (lambda body: qforall(1, body))
    return [
        ('count', z3.And(0 <= n_out, (n_out == 0) == (N == 0))),
        ('strictly-increasing', forall(lambda u: z3.Implies(z3.And(0 <= u, u + 1 < n_out), U(u) < U(u + 1)))),
        ('inverse-maps-to-own-value', forall(lambda k: z3.Implies(z3.And(0 <= k, k < N), z3.And(0 <= INV(k), INV(k) < n_out, U(INV(k)) == arr_at(k))))),
        ('every-unique-value-occurs', forall(lambda u: z3.Implies(z3.And(0 <= u, u < n_out), z3.And(0 <= W(u), W(u) < N, arr_at(W(u)) == U(u))))),
    ]


def unique_by_contract(ctx, array, return_index=False, return_inverse=False):
    if return_index or not return_inverse:
        raise Unsupported('unique() is modelled for return_inverse=True only')
    array = A.asarray(ctx, array)
    if array.ndim != 1 or array.dtype != INT:
        raise Unsupported('unique of a non-vector')
    N = array.dims[0]
    n_out = length(ctx, 'len(unique)', report=False)
    U = z3.Function(ctx.name('unique'), z3.IntSort(), z3.IntSort())
    INV = z3.Function(ctx.name('inverse'), z3.IntSort(), z3.IntSort())
    W = z3.Function(ctx.name('witness'), z3.IntSort(), z3.IntSort())
    for name, f in unique_spec(lambda k: array.at((k,)), N, U, n_out, INV, W):
        ctx.assume(f, axiom='contract of evaluable.unique, clause %s (proved from its real body: C05 evaluable:unique harness)' % name)
    ctx.unique_model = dict(U=U, INV=INV, W=W, n_out=n_out, N=N, array=array)
    return PA((n_out,), lambda pos: U(pos[0]), INT, name='unique'), PA((N,), lambda pos: INV(pos[0]), INT, name='inverse')


def length(cx, name, report=True):
    """A symbolic length >= 0; in the bounded refutation mode (nparr.BOUND) it is kept inside the range over which index
    quantifiers are expanded, like Vec.fresh does -- otherwise a bounded `sat` could be spurious."""
    from pyvc import nparr
    n = cx.int(name, report=report)
    cx.assume(n >= 0)
    if nparr.BOUND is not None:
        cx.assume(n <= nparr.BOUND)
    return n


def pure_lemma(cx, clause, hyps, goal):
    """A fact proved from the listed hypotheses ALONE (its own small obligation), then assumed as  hyps => goal."""
    cx.obligations.append(('lemma:' + clause, [z3.BoolVal(True)] + list(hyps), goal, 'lemma', None, None))
    cx.assume(z3.Implies(z3.And(*hyps), goal) if hyps else goal)


class Schema:
    """A lemma schema over integer variables: proved ONCE on fresh constants (its own small obligation, no other
    hypotheses), then instantiated by substitution with the terms at hand (instances of a valid formula are valid)."""

    def __init__(self, cx, clause, nvars, build):
        self.cx, self.build = cx, build
        vs = [z3.Int(cx.name('%s!v%d' % (clause, i))) for i in range(nvars)]
        hyps, goal = build(*vs)
        cx.obligations.append(('lemma:' + clause, [z3.BoolVal(True)] + list(hyps), goal, 'lemma', None, None))

    def instance(self, *terms):
        hyps, goal = self.build(*terms)
        self.cx.assume(z3.Implies(z3.And(*hyps), goal))


def l_divmod(q, rem, nn, x):
    """L-DIVMOD: x = q*n + rem with 0 <= rem < n  =>  x % n = rem and x // n = q  (Python floor semantics)"""
    return [0 <= rem, rem < nn, x == q * nn + rem], z3.And(A.pymod(x, nn) == rem, A.pyfloordiv(x, nn) == q)


def l_lex(r):
    """L-LEX (rank r): for tuples a, b inside the shape n, row-major(a) < row-major(b) => a < b lexicographically"""
    def build(*v):
        a, b, n = v[:r], v[r:2 * r], v[2 * r:]
        fa, fb = a[0], b[0]
        for k in range(1, r):
            fa, fb = fa * n[k] + a[k], fb * n[k] + b[k]
        lex = z3.BoolVal(False)
        for k in range(r - 1, -1, -1):
            lex = z3.Or(a[k] < b[k], z3.And(a[k] == b[k], lex))
        return [z3.And(0 <= x[k], x[k] < n[k]) for x in (a, b) for k in range(r)] + [fa < fb], lex
    return build


# ------------------------------------------------------------------------------------------ Array.assparse

class Assparse(Contract):
    prop = PROP
    fn = 'evaluable:Array.assparse'

    def __init__(self, rank, nchunks):
        self.rank, self.nchunks = rank, nchunks
        self.label = 'ndim=%d,chunks=%d' % (rank, nchunks)
        self.bounded = 'rank %d, %d sparse chunks of rank 1; axis lengths, chunk lengths, indices and values symbolic' % (rank, nchunks)

    def setup(self, cx):
        r = self.rank
        n = [length(cx, 'shape%d' % k) for k in range(r)]
        chunks, lens = [], []
        for j in range(self.nchunks if r else 0):
            m = length(cx, 'len(chunk%d)' % j)
            idx = [A.fresh(cx, 'chunk%d.index%d' % (j, k), (m,), INT) for k in range(r)]
            val = A.fresh(cx, 'chunk%d.values' % j, (m,), FLOAT)
            for k in range(r):
                cx.assume(qforall(1, lambda p, k=k: z3.Implies(z3.And(0 <= p, p < m), z3.And(0 <= idx[k].at((p,)), idx[k].at((p,)) < n[k]))))
            chunks.append((*idx, val))
            lens.append(m)
        dense = A.fresh(cx, 'self', n, FLOAT, report=False)
        if r == 0:
            chunks = SObj('unused')  # the scalar branch does not read _assparse
        else:
            chunks = tuple(chunks)
        dense.attrs['_assparse'] = chunks
        # ghost positions (free constants = universally quantified in every obligation)
        p = [cx.int('p%d' % j) for j in range(len(lens))]
        u = cx.int('u')
        return State(args=(dense,), me=dense, n=n, chunks=chunks, lens=lens, p=p, u=u, globals=A.ir_globals(unique=unique_by_contract))

    def body(self, cx, S, call):
        result = call(self.fn, S.me)
        S.hints_ok = self.hints(cx, S, result)
        return result

    def hints(self, cx, S, result):
        """Intermediate facts, each PROVED as its own obligation from the range hypotheses alone and then available:
        the flat index of an entry is the Horner (row-major) form of its index tuple; L-DIVMOD per unravel step; L-LEX."""
        r = self.rank
        um = getattr(cx, 'unique_model', None)
        if r == 0 or not S.chunks or um is None:
            return False
        n, W, arr = S.n, um['W'], um['array']
        offs = [z3.IntVal(0)]
        for m in S.lens:
            offs.append(offs[-1] + m)
        S.offs = offs

        def horner(I, upto):
            acc = I[0]
            for k in range(1, upto + 1):
                acc = acc * n[k] + I[k]
            return acc
        u = S.u
        U, INV = um['U'], um['INV']
        divmod_schema = Schema(cx, 'L-DIVMOD', 4, l_divmod) if r > 1 else None
        lex_schema = Schema(cx, 'L-LEX', 3 * r, l_lex(r))
        sites = []  # (tag, chunk, position term, the unique value that is claimed to be this entry's flat index)
        for j in range(len(S.chunks)):
            sites.append(('p', j, S.p[j], U(INV(S.p[j] + offs[j]))))
            sites.append(('w', j, W(u) - offs[j], U(u)))
            sites.append(('w1', j, W(u + 1) - offs[j], U(u + 1)))
        S.sites = {}
        for tag, j, pos, x in sites:
            ch = S.chunks[j]
            I = [ch[k].at((pos,)) for k in range(r)]
            rng = z3.And(0 <= pos, pos < S.lens[j])
            inr = z3.And(*[z3.And(0 <= I[k], I[k] < n[k]) for k in range(r)])
            # the precondition instantiated at this position (a plain instance of a hypothesis)
            cx.lemma('hint:%s%d:indices-in-range' % (tag, j), z3.Implies(rng, inr))
            pure_lemma(cx, 'hint:%s%d:flat-index-is-row-major' % (tag, j), [rng], arr.at((pos + offs[j],)) == horner(I, r - 1))
            xk = x
            for k in range(r - 1, 0, -1):
                divmod_schema.instance(horner(I, k - 1), I[k], n[k], xk)
                xk = A.pyfloordiv(xk, n[k])
            S.sites[tag, j] = (pos, I, rng, horner(I, r - 1))
        # L-LEX: for in-range tuples, a smaller row-major index means a lexicographically smaller tuple
        for j in range(len(S.chunks)):
            for j2 in range(len(S.chunks)):
                _, Ia, ra, fa = S.sites['w', j]
                _, Ib, rb, fb = S.sites['w1', j2]
                lex_schema.instance(*Ia, *Ib, *n)
        return True

    def ensures(self, cx, S, result):
        r = self.rank
        if not (isinstance(result, tuple) and len(result) == 3):
            raise Unsupported('result %r' % (result,))
        values, indices, shape = result
        ok = isinstance(values, PA) and isinstance(indices, tuple) and len(indices) == r and all(isinstance(i, PA) and i.ndim == 1 and i.dtype == INT for i in indices) \
            and isinstance(shape, tuple) and len(shape) == r and values.ndim == 1
        if not ok:
            return [('result-structure', z3.BoolVal(False))]
        out = [('announced-shape', z3.And(*[zi(s) == x for s, x in zip(shape, S.n)]) if r else z3.BoolVal(True))]
        if r == 0:
            out.append(('scalar-value', z3.And(values.dims[0] == 1, values.at((0,)) == S.me.at(()))))
            return out
        n_out = values.dims[0]
        out.append(('equal-lengths', z3.And(*[i.dims[0] == n_out for i in indices])))
        if not S.chunks:
            out.append(('no-chunks-no-entries', n_out == 0))
            return out
        # --- structure of the value vector: one Inflate term per chunk, scattering that chunk's values
        terms = A._terms(values)
        good = len(terms) == len(S.chunks) and all(t.form and t.form[0] == 'Inflate' for t in terms)
        if good:
            for t, ch in zip(terms, S.chunks):
                good = good and t.form[1] is ch[-1]
        if not good:
            return out + [('values-are-one-inflation-per-chunk', z3.BoolVal(False))]
        out.append(('values-are-one-inflation-per-chunk', z3.And(*[t.form[3] == n_out for t in terms])))
        # L-DIVMOD instances for the unravel chain (proved, then available): one per axis step and flat index read
        lands = []
        for j, (t, ch) in enumerate(zip(terms, S.chunks)):
            p = S.p[j]
            slot = t.form[2].at((p,))
            conj = [0 <= slot, slot < n_out] + [indices[k].at((slot,)) == ch[k].at((p,)) for k in range(r)]
            lands.append(z3.Implies(z3.And(0 <= p, p < S.lens[j]), z3.And(*conj)))
        for j, f in enumerate(lands):
            out.append(('entry-lands-on-its-index#chunk%d' % j, f))
        u = S.u
        tup = lambda v: [indices[k].at((v,)) for k in range(r)]
        out.append(('index-in-shape', z3.Implies(z3.And(0 <= u, u < n_out), z3.And(*[z3.And(0 <= x, x < S.n[k]) for k, x in enumerate(tup(u))]))))
        a, b = tup(u), tup(u + 1)
        lex = z3.BoolVal(False)
        for k in range(r - 1, -1, -1):
            lex = z3.Or(a[k] < b[k], z3.And(a[k] == b[k], lex))
        out.append(('lexicographic-strict', z3.Implies(z3.And(0 <= u, u + 1 < n_out), lex)))
        return out

    def replay(self, ob):
        return NativeBounded.script_for('c05b', 'assparse()')


# ------------------------------------------------------------------------------------------ evaluable.unique

def induction(cx, name, N, P, k):
    """forall 0 <= k < N: P(k), by explicit base and step obligations (DESIGN 2.6, third route); `k` is a fresh constant."""
    cx.oblige('lemma:induction:%s:base' % name, z3.Implies(N > 0, P(z3.IntVal(0))), kind='lemma')
    cx.oblige('lemma:induction:%s:step' % name, z3.Implies(z3.And(1 <= k, k < N, P(k - 1)), P(k)), kind='lemma')
    cx.assume(qforall(1, lambda i: z3.Implies(z3.And(0 <= i, i < N), P(i))),
              axiom='induction over the position k for %s (base and step are discharged as obligations of this contract)' % name)


class Unique(Contract):
    """evaluable.unique(array, return_inverse=True): the real body, composed of ArgSort / Take / UniqueMask / Find / UniqueInverse,
    establishes the contract `unique_spec` that Array.assparse relies on."""
    prop = PROP
    fn = 'evaluable:unique'
    label = 'return_inverse'

    def setup(self, cx):
        N = length(cx, 'len(array)')
        arr = A.fresh(cx, 'array', (N,), INT, report=False)
        S = State(args=(arr,), kwargs={'return_inverse': True}, N=N, arr=arr, k=cx.int('k'), m=cx.int('m'), made={})
        I = z3.IntSort()

        def ArgSort(ctx, a):
            if a is not arr:
                raise Unsupported('ArgSort of another array')
            srt, rnk = z3.Function(ctx.name('sorter'), I, I), z3.Function(ctx.name('rank'), I, I)
            ax = 'numpy.argsort(kind=stable): a permutation of range(n) (with inverse `rank`) that sorts the array (transitive form)'
            ctx.assume(qforall(1, lambda i: z3.Implies(z3.And(0 <= i, i < N), z3.And(0 <= srt(i), srt(i) < N, rnk(srt(i)) == i))), axiom=ax)
            ctx.assume(qforall(1, lambda m: z3.Implies(z3.And(0 <= m, m < N), z3.And(0 <= rnk(m), rnk(m) < N, srt(rnk(m)) == m))), axiom=ax)
            ctx.assume(qforall(2, lambda i, j: z3.Implies(z3.And(0 <= i, i <= j, j < N), arr.at((srt(i),)) <= arr.at((srt(j),)))), axiom=ax)
            S.made['sorter'] = p = PA((N,), lambda pos: srt(pos[0]), INT, name='sorter')
            S.srt, S.rnk = srt, rnk
            return p

        def UniqueMask(ctx, sorted_array):
            # contract of UniqueMask.evalf (C05: first-is-true, marks-changes), as a definition
            S.made['sorted'] = sorted_array
            S.made['mask'] = m = PA(sorted_array.dims, lambda pos: z3.Or(pos[0] == 0, sorted_array.at(pos) != sorted_array.at((pos[0] - 1,))), 'bool', name='mask')
            return m

        def b(i):
            return z3.If(S.made['mask'].at((i,)), 1, 0)
        S.b = b

        def Find(ctx, mask):
            if mask is not S.made.get('mask'):
                raise Unsupported('Find of another array')
            cnt, F = z3.Function(ctx.name('count'), I, I), z3.Function(ctx.name('find'), I, I)
            c = length(ctx, 'len(find)', report=False)
            ax = ('numpy.nonzero of a bool vector: with count(k) = number of True in mask[0..k] (recurrence), the result has count(n-1) entries, '
                  'is strictly increasing, lists only True positions, and a True position i is entry number count(i)-1')
            ctx.assume(z3.Implies(N > 0, cnt(0) == b(z3.IntVal(0))), axiom=ax)
            ctx.assume(qforall(1, lambda i: z3.Implies(z3.And(1 <= i, i < N), cnt(i) == cnt(i - 1) + b(i))), axiom=ax)
            ctx.assume(c == z3.If(N > 0, cnt(N - 1), 0), axiom=ax)
            ctx.assume(qforall(1, lambda j: z3.Implies(z3.And(0 <= j, j < c), z3.And(0 <= F(j), F(j) < N, mask.at((F(j),))))), axiom=ax)
            ctx.assume(qforall(1, lambda j: z3.Implies(z3.And(0 <= j, j + 1 < c), F(j) < F(j + 1))), axiom=ax)
            ctx.assume(qforall(1, lambda i: z3.Implies(z3.And(0 <= i, i < N, mask.at((i,))), F(cnt(i) - 1) == i)), axiom=ax)
            # L-MONO for the counting function (adjacent-monotone by the recurrence)
            ctx.assume(qforall(2, lambda i, j: z3.Implies(z3.And(0 <= i, i <= j, j < N), cnt(i) <= cnt(j))),
                       axiom='L-MONO: count(k) is adjacent-monotone (recurrence with increments 0/1), hence monotone (lemmas/LMono.lean)')
            S.cnt, S.F, S.c = cnt, F, c
            S.made['find'] = p = PA((c,), lambda pos: F(pos[0]), INT, name='find')
            return p

        def UniqueInverse(ctx, mask, sorter):
            if mask is not S.made.get('mask') or sorter is not S.made.get('sorter'):
                raise Unsupported('UniqueInverse of other arrays')
            inv = z3.Function(ctx.name('inverse'), I, I)
            ax = 'contract of UniqueInverse.evalf (C05: first, step) for a permutation sorter'
            ctx.assume(z3.Implies(N > 0, inv(S.srt(0)) == b(z3.IntVal(0)) - 1), axiom=ax)
            ctx.assume(qforall(1, lambda i: z3.Implies(z3.And(1 <= i, i < N), inv(S.srt(i)) == inv(S.srt(i - 1)) + b(i))), axiom=ax)
            S.inv = inv
            S.made['inverse'] = p = PA((N,), lambda pos: inv(pos[0]), INT, name='inverse')
            return p
        S.globals = A.ir_globals(ArgSort=ArgSort, UniqueMask=UniqueMask, Find=Find, UniqueInverse=UniqueInverse)
        return S

    def body(self, cx, S, call):
        result = call(self.fn, *S.args, **S.kwargs)
        if not all(x in S.made for x in ('sorter', 'sorted', 'mask', 'find', 'inverse')):
            return result  # some stage is missing: the postcondition will not be provable
        N, k, cnt, F, inv, srt = S.N, S.k, S.cnt, S.F, S.inv, S.srt
        srtd = lambda i: S.made['sorted'].at((i,))
        induction(cx, 'inverse[sorter[k]]=count(k)-1', N, lambda i: inv(srt(i)) == cnt(i) - 1, k)
        induction(cx, 'sorted[find[count(k)-1]]=sorted[k]', N, lambda i: z3.And(cnt(i) >= 1, srtd(F(cnt(i) - 1)) == srtd(i)), k)
        # the generic position m of the input is sorter[rank[m]] (instance of the argsort axiom, restated so that the term exists)
        m, rnk = S.m, S.rnk
        cx.lemma('hint:m-is-sorter-of-its-rank', z3.Implies(z3.And(0 <= m, m < N), z3.And(0 <= rnk(m), rnk(m) < N, srt(rnk(m)) == m)))
        cx.lemma('hint:count-at-most-total', z3.Implies(z3.And(0 <= m, m < N), cnt(rnk(m)) <= cnt(N - 1)))
        return result

    def ensures(self, cx, S, result):
        if not (isinstance(result, tuple) and len(result) == 2 and all(isinstance(x, PA) and x.ndim == 1 for x in result)):
            raise Unsupported('result %r' % (result,))
        uniq, inverse = result
        if 'find' not in S.made:
            return [('result-structure', z3.BoolVal(False))]
        W = lambda u: S.srt(S.F(u))
        out = [('inverse-length', inverse.dims[0] == S.N)]
        for name, f in unique_spec(lambda i: S.arr.at((i,)), S.N, lambda u: uniq.at((u,)), uniq.dims[0], lambda m: inverse.at((m,)), W, forall=lambda body: body(S.m)):
            out.append((name, f))
        return out

    def replay(self, ob):
        return NativeBounded.script_for('c05b', 'unique()')


# ------------------------------------------------------------------------------------------ _assparse of the node classes

NODE_BOUND = ('fixed rank (<= 3) and axis lengths (2, 3, 4); a child is given either by 2 sparse chunks of 2 entries each (symbolic '
              'in-range indices, symbolic real values) or by the dense default chunk of an array of symbolic reals')


def sparse_child(cx, name, dims, nchunks=2, length=2):
    """An array DEFINED as the scatter of its chunks (so the chunks denote it), indices assumed inside its shape."""
    chunks = []
    for j in range(nchunks):
        idx = [A.fresh(cx, '%s.chunk%d.index%d' % (name, j, k), (length,), INT) for k in range(len(dims))]
        val = A.fresh(cx, '%s.chunk%d.values' % (name, j), (length,), FLOAT)
        for k, i in enumerate(idx):
            for p in range(length):
                cx.assume(z3.And(0 <= i.at((p,)), i.at((p,)) < dims[k]))
        chunks.append((*idx, val))
    return PA(dims, A.scatter(chunks, len(dims)), FLOAT, name=name, attrs={'_assparse': tuple(chunks)})


def dense_child(cx, name, dims):
    """An array of symbolic reals; its chunks are whatever the default rule (real body of Array._assparse) yields."""
    return A.fresh(cx, name, dims, FLOAT)


def transposed_dense_child(cx, name, dims):
    """An array of symbolic reals whose single chunk is laid out with the position axes REVERSED relative to the array axes
    (chunk arrays of shape dims[::-1]; index k reads position axis ndim-1-k): a valid denotation that a child may deliver."""
    f = A.fresh(cx, name, dims, FLOAT)
    r = len(dims)
    rev = lambda pos: tuple(pos[::-1])
    idx = []
    for k in range(r):
        base = A.Range(cx, dims[k])
        idx.append(PA(tuple(dims[::-1]), (lambda pos, k=k: pos[r - 1 - k]), INT, name='%s.index%d' % (name, k), unaligned=(base, (r - 1 - k,))))
    val = PA(tuple(dims[::-1]), lambda pos: f.at(rev(pos)), FLOAT, name=name + '.T')
    f.attrs['_assparse'] = ((*idx, val),)
    return f


def child(cx, kind, name, dims, **kw):
    if kind == 'denseT':
        return transposed_dense_child(cx, name, dims)
    return sparse_child(cx, name, dims, **kw) if kind == 'sparse' else dense_child(cx, name, dims)


class NumpyConcrete:
    """numpy on small concrete integer vectors, as far as Multiply._assparse uses it."""

    def sym_getattr(self, ctx, name):
        ints = lambda x: [int(i) for i in ops.iterate(ctx, x)]
        if name == 'union1d':
            return lambda ctx, a, b: tuple(sorted(set(ints(a)) | set(ints(b))))
        if name == 'searchsorted':
            import bisect
            return lambda ctx, a, v: tuple(bisect.bisect_left(ints(a), x) for x in ints(v))
        if name == 'arange':
            return lambda ctx, *a: tuple(range(*[int(x) for x in a]))
        if name == 'argsort':
            return lambda ctx, a: tuple(sorted(range(len(ints(a))), key=ints(a).__getitem__))
        raise Unsupported('numpy.' + name)


def _real(ref):
    return lambda ctx, *a, **k: ctx.interp.call_function(extract.get(ref).node, a, k)


class NodeAssparse(Contract):
    """<Class>._assparse: given children whose chunks denote them, scattering the returned chunks into zeros gives the node's
    dense value (meaning table in the scenario builders below = the evalf of the class), with every index inside the shape."""
    prop = PROP
    bounded = NODE_BOUND

    def __init__(self, cls, label, build):
        self.fn = 'evaluable:%s._assparse' % cls
        self.cls, self.label, self.build = cls, label, build

    def setup(self, cx):
        node = self.build(cx)
        g = A.ir_globals(numpy=NumpyConcrete(), _gathersparsechunks=_real('evaluable:_gathersparsechunks'))
        return State(args=(node,), node=node, globals=g)

    def ensures(self, cx, S, result):
        node = S.node
        dims = node.concrete_dims()
        if not isinstance(result, tuple) or not all(isinstance(c, tuple) and len(c) == node.ndim + 1 and all(isinstance(x, PA) for x in c) for c in result):
            return [('chunk-structure', z3.BoolVal(False))]
        shapes_ok, inside = [], []
        for *idx, val in result:
            vd = val.concrete_dims()
            if vd is None or any(i.concrete_dims() != vd or i.dtype != INT for i in idx):
                return [('chunk-structure', z3.BoolVal(False))]
            for p in val.positions():
                for k, i in enumerate(idx):
                    inside.append(z3.And(0 <= i.at(p), i.at(p) < dims[k]))
        if node.ndim == 0 and len(result) > 1:
            return [('chunk-structure', z3.BoolVal(False))]
        sc = A.scatter(result, node.ndim)
        eqs = [(J, sc(tuple(z3.IntVal(x) for x in J)) == A.elem(FLOAT, node.at(J))) for J in node.positions()]
        out = [('chunk-structure', z3.BoolVal(True)), ('index-in-shape', z3.And(*inside) if inside else z3.BoolVal(True))]
        if self.cls == 'Multiply':
            # products of symbolic reals: both sides are expanded into monomials over the value atoms (c05_arr.poly); the
            # obligation is the equality of the indicator coefficients, monomial by monomial (linear arithmetic over the indices)
            eqs = [A.poly_equal(e.arg(0), e.arg(1)) for _, e in eqs]
            return out + [('scatter-equals-dense', z3.And(*eqs))]
        return out + [('scatter-equals-dense', z3.And(*[e for _, e in eqs]) if eqs else z3.BoolVal(True))]

    def replay(self, ob):
        return NativeBounded.script_for('c05b', 'node_assparse()')


def node(cls, dims, at, **attrs):
    n = PA(dims, at, FLOAT, name=cls, attrs=attrs, classes=(cls, 'Array'))
    n.attrs['super()._assparse'] = Lazy(lambda ctx: ctx.interp.call_function(extract.get('evaluable:Array._assparse').node, (n,), {}))
    return n


def _scenarios():
    out = []
    add = lambda cls, label, build: out.append(NodeAssparse(cls, label, build))
    for kind in ('sparse', 'dense'):
        # default rule: the node is its own value
        for dims in ((3,), (2, 3), (2, 3, 2)):
            if kind == 'dense':
                add('Array', 'shape=%s' % (dims,), lambda cx, dims=dims: A.fresh(cx, 'self', dims, FLOAT))
        for dims, n in (((3,), 2), ((2, 3), 2), ((), 3)):
            def b(cx, dims=dims, n=n, kind=kind):
                f = child(cx, kind, 'func', dims)
                return node('InsertAxis', dims + (n,), lambda J: f.at(J[:-1]), func=f, length=A.scalar(n))
            add('InsertAxis', 'func=%s%s,length=%d' % (kind, dims, n), b)
        for dims, axes in (((2, 3), (1, 0)), ((2, 3, 4), (2, 0, 1)), ((2, 3, 4), (1, 2, 0))):
            def b(cx, dims=dims, axes=axes, kind=kind):
                f = child(cx, kind, 'func', dims)
                return node('Transpose', tuple(dims[a] for a in axes), lambda J: f.at(tuple(J[axes.index(j)] for j in range(len(dims)))), func=f, axes=axes)
            if kind == 'sparse' or len(dims) == 2:
                add('Transpose', 'func=%s%s,axes=%s' % (kind, dims, axes), b)
        for dims in ((3,), (2, 3)):
            def b(cx, dims=dims, kind=kind):
                f = child(cx, kind, 'func', dims)
                return node('Diagonalize', dims + dims[-1:], lambda J: z3.If(J[-1] == J[-2], f.at(J[:-1]), z3.RealVal(0)), func=f)
            add('Diagonalize', 'func=%s%s' % (kind, dims), b)
        for dims in ((2, 3), (3, 2), (2, 2, 3)):
            def b(cx, dims=dims, kind=kind):
                f = child(cx, kind, 'func', dims)
                n1 = dims[-1]
                return node('Ravel', dims[:-2] + (dims[-2] * n1,), lambda J: f.at(J[:-1] + (J[-1] / n1, J[-1] % n1)), func=f)
            if kind == 'sparse' or len(dims) == 2:
                add('Ravel', 'func=%s%s' % (kind, dims), b)
        for dims, sh in (((6,), (2, 3)), ((6,), (3, 2)), ((2, 6), (3, 2))):
            def b(cx, dims=dims, sh=sh, kind=kind):
                f = child(cx, kind, 'func', dims)
                return node('Unravel', dims[:-1] + sh, lambda J: f.at(J[:-2] + (J[-2] * sh[1] + J[-1],)), func=f, sh1=A.scalar(sh[0]), sh2=A.scalar(sh[1]))
            if kind == 'sparse' or len(dims) == 1:
                add('Unravel', 'func=%s%s,shape=%s' % (kind, dims, sh), b)
        for dims in ((3,), (2, 3), (2, 3, 2)):
            def b(cx, dims=dims, kind=kind):
                f = child(cx, kind, 'func', dims)
                n = dims[-1]

                def at(J):
                    r = z3.RealVal(0)
                    for j in range(n):
                        r = r + f.at(J + (z3.IntVal(j),))
                    return r
                return node('Sum', dims[:-1], at, func=f)
            add('Sum', 'func=%s%s' % (kind, dims), b)
    for dims in ((2, 3), (2, 3, 2)):
        def b(cx, dims=dims):
            f = child(cx, 'denseT', 'func', dims)
            n = dims[-1]

            def at(J):
                r = z3.RealVal(0)
                for j in range(n):
                    r = r + f.at(J + (z3.IntVal(j),))
                return r
            return node('Sum', dims[:-1], at, func=f)
        add('Sum', 'func=dense%s,chunk-axes-reversed' % (dims,), b)

    def shared(cx):
        f1 = sparse_child(cx, 'func1', (2, 3))
        chunks = tuple((*ch[:-1], A.fresh(cx, 'func2.chunk%d.values' % j, (2,), FLOAT)) for j, ch in enumerate(f1.attrs['_assparse']))
        f2 = PA((2, 3), A.scatter(chunks, 2), FLOAT, name='func2', attrs={'_assparse': chunks})
        return node('Add', (2, 3), lambda J: f1.at(J) + f2.at(J), funcs=(f1, f2), _terms=(f1, f2))
    add('Add', 'terms=sparse+sparse-with-the-same-index-arrays,shape=(2, 3)', shared)
    for dims in ((3,), (2, 3)):
        add('Zeros', 'shape=%s' % (dims,), lambda cx, dims=dims: node('Zeros', dims, lambda J: z3.RealVal(0)))
    for kinds in (('sparse', 'sparse'), ('sparse', 'dense'), ('dense', 'dense')):
        for dims in ((3,), (2, 3)):
            def b(cx, dims=dims, kinds=kinds):
                f1, f2 = child(cx, kinds[0], 'func1', dims), child(cx, kinds[1], 'func2', dims)
                return node('Add', dims, lambda J: f1.at(J) + f2.at(J), funcs=(f1, f2), _terms=(f1, f2))
            add('Add', 'terms=%s,shape=%s' % ('+'.join(kinds), dims), b)
    # Multiply: factors are aligned (inserted-axes) views of lower-rank arrays; `wheres` = the axes each factor really has
    for dims, wheres, kinds in (((2, 3), ((0,), (1,)), ('sparse', 'sparse')), ((2, 3), ((1,), (0,)), ('sparse', 'dense')),
                                ((2, 3), ((0,), (0, 1)), ('sparse', 'dense')), ((2, 3, 2), ((0, 2), (1,)), ('sparse', 'sparse')),
                                ((2, 3, 2), ((2,), (0, 1)), ('sparse', 'dense')), ((2, 2, 3), ((1, 0), (2,)), ('dense', 'sparse')),
                                ((2, 3), ((0,), (1,), (0,)), ('sparse', 'sparse', 'dense')), ((2, 3, 2), ((2,), (0,), (1,)), ('sparse', 'sparse', 'sparse')),
                                ((3,), ((0,), (0,)), ('sparse', 'sparse')),
                                # a factor that BRIDGES two clusters that were disjoint until it arrived: (a_i b_j) c_ij
                                ((2, 3), ((0,), (1,), (0, 1)), ('sparse', 'sparse', 'dense')), ((2, 2), ((0,), (1,), (0, 1)), ('sparse', 'sparse', 'sparse')),
                                ((2, 3), ((0, 1), (0,), (1,)), ('dense', 'sparse', 'sparse'))):
        def b(cx, dims=dims, wheres=wheres, kinds=kinds):
            fs = []
            for n, (w, kind) in enumerate(zip(wheres, kinds)):
                u = child(cx, kind, 'factor%d' % n, tuple(dims[i] for i in w), nchunks=2, length=1)
                fs.append(A.align(cx, u, w, dims))

            def at(J):
                r = z3.RealVal(1)
                for f in fs:
                    r = r * f.at(J)
                return r
            return node('Multiply', dims, at, funcs=tuple(fs[:2]), _factors=tuple(fs))
        add('Multiply', 'shape=%s,factor-axes=%s,%s' % (dims, list(wheres), '*'.join(kinds)), b)
    return out


# ------------------------------------------------------------------------------------------ CSR composition

class AsCsr(Contract):
    """evaluable.as_csr: COO data as guaranteed by Array.assparse (indices inside the shape, consecutive index pairs strictly
    increasing lexicographically) + the contract of numeric.compress_indices (what CompressIndices evaluates) give CSR data: the
    precondition of compress_indices holds (row indices in range and monotone), and within a row the column indices strictly increase."""
    prop = PROP
    fn = 'evaluable:as_csr'

    def setup(self, cx):
        n, nrows, ncols = length(cx, 'len(values)'), length(cx, 'nrows'), length(cx, 'ncols')
        row, col = A.fresh(cx, 'rowidx', (n,), INT, report=False), A.fresh(cx, 'colidx', (n,), INT, report=False)
        val = A.fresh(cx, 'values', (n,), FLOAT, report=False)
        R, C = (lambda u: row.at((u,))), (lambda u: col.at((u,)))
        ax = 'contract of Array.assparse (C05: index-in-shape, lexicographic-strict) for rank 2'
        cx.assume(qforall(1, lambda u: z3.Implies(z3.And(0 <= u, u < n), z3.And(0 <= R(u), R(u) < nrows, 0 <= C(u), C(u) < ncols))), axiom=ax)
        cx.assume(qforall(1, lambda u: z3.Implies(z3.And(0 <= u, u + 1 < n), z3.Or(R(u) < R(u + 1), z3.And(R(u) == R(u + 1), C(u) < C(u + 1))))), axiom=ax)
        sh = (A.scalar(nrows), A.scalar(ncols))
        simplified = SObj('Array', attrs={'assparse': (val, (row, col), sh)})
        array = SObj('Array', attrs={'ndim': 2, 'simplified': simplified})
        S = State(args=(array,), n=n, nrows=nrows, ncols=ncols, row=row, col=col, val=val, sh=sh, R=R, C=C, u=cx.int('u'), r=cx.int('r'), ci=None)

        def CompressIndices(ctx, indices, length):
            if indices is not row:
                return PA((zi(length) + 1,), None, INT, name='CompressIndices(?)')
            L = zi(length)
            # precondition of numeric.compress_indices (else it raises ValueError at evaluation time): in range and monotone
            ctx.oblige('compress-indices-precondition:in-range', qforall(1, lambda k: z3.Implies(z3.And(0 <= k, k < n), z3.And(0 <= R(k), R(k) < L))), kind='safety')
            ctx.oblige('compress-indices-precondition:monotone', qforall(1, lambda k: z3.Implies(z3.And(0 <= k, k + 1 < n), R(k) <= R(k + 1))), kind='safety')
            P = z3.Function(ctx.name('rowptr'), z3.IntSort(), z3.IntSort())
            ax = 'contract of numeric.compress_indices (C05): row pointer from 0 to len(indices), monotone, rowptr[i] <= k < rowptr[i+1] <=> indices[k] = i'
            ctx.assume(z3.And(P(0) == 0, P(L) == n), axiom=ax)
            ctx.assume(qforall(1, lambda i: z3.Implies(z3.And(0 <= i, i < L), P(i) <= P(i + 1))), axiom=ax)
            ctx.assume(qforall(1, lambda i: z3.Implies(z3.And(0 <= i, i <= L), z3.And(0 <= P(i), P(i) <= n))),
                       axiom='L-MONO: a monotone row pointer from 0 to n stays inside [0, n] (lemmas/LMono.lean)')
            ctx.assume(qforall(2, lambda i, k: z3.Implies(z3.And(0 <= i, i < L, 0 <= k, k < n), z3.And(P(i) <= k, k < P(i + 1)) == (R(k) == i))), axiom=ax)
            S.P, S.L = P, L
            S.ci = PA((L + 1,), lambda pos: P(pos[0]), INT, name='CompressIndices')
            return S.ci
        S.globals = {'CompressIndices': CompressIndices}
        return S

    def ensures(self, cx, S, result):
        if not (isinstance(result, tuple) and len(result) == 4):
            return [('result-structure', z3.BoolVal(False))]
        values, rowptr, colidx, ncols = result
        if values is not S.val or colidx is not S.col or rowptr is not S.ci or rowptr is None or not isinstance(ncols, PA):
            return [('result-structure', z3.BoolVal(False))]
        P, u, r, n = S.P, S.u, S.r, S.n
        inrow = z3.And(0 <= r, r < S.nrows, P(r) <= u, u + 1 < P(r + 1), 0 <= u)
        return [('result-structure', z3.BoolVal(True)),
                ('row-pointer-spans-the-rows', z3.And(rowptr.dims[0] == S.nrows + 1, zi(ncols) == S.ncols)),
                ('row-pointers-monotone', z3.Implies(z3.And(0 <= r, r < S.nrows), z3.And(0 <= P(r), P(r) <= P(r + 1), P(r + 1) <= n))),
                ('entries-of-a-row-carry-that-row-index', z3.Implies(z3.And(0 <= r, r < S.nrows, P(r) <= u, u < P(r + 1), 0 <= u, u < n), S.R(u) == r)),
                ('columns-strictly-increase-within-a-row', z3.Implies(inrow, S.C(u) < S.C(u + 1)))]

    def replay(self, ob):
        return NativeBounded.script_for('c05b', 'as_csr()')


class FunctionAsCoo(Contract):
    """function.as_coo hands out exactly the COO data of the simplified evaluable array: (values, *indices)."""
    prop = PROP
    fn = 'function:as_coo'

    def setup(self, cx):
        from pyvc.values import SOpaque
        v, i0, i1, sh = SOpaque('values'), SOpaque('index0'), SOpaque('index1'), SOpaque('shape')
        arr = SObj('Array', attrs={'as_evaluable_array': SObj('evaluable.Array', attrs={'simplified': SObj('evaluable.Array', attrs={'assparse': (v, (i0, i1), sh)})})})
        return State(args=(arr,), want=(v, i0, i1))

    def ensures(self, cx, S, result):
        ok = isinstance(result, tuple) and len(result) == 3 and all(a is b for a, b in zip(result, S.want))
        return [('values-then-indices', z3.BoolVal(ok))]

    def replay(self, ob):
        return NativeBounded.script_for('c05b', 'function_coo_csr()')


class FunctionAsCsr(Contract):
    """function.as_csr: ValueError unless the array has two axes; otherwise (values, rowptr, colidx) of evaluable.as_csr."""
    prop = PROP
    fn = 'function:as_csr'

    def __init__(self, ndim):
        self.ndim = ndim
        self.label = 'ndim=%d' % ndim
        self.expect_return = ndim == 2

    def setup(self, cx):
        from pyvc.values import SOpaque
        ev = SObj('evaluable.Array')
        arr = SObj('Array', attrs={'ndim': self.ndim, 'as_evaluable_array': ev})
        S = State(args=(arr,), want=(SOpaque('values'), SOpaque('rowptr'), SOpaque('colidx')), called=[])

        def as_csr(ctx, a):
            S.called.append(a is ev)
            return (*S.want, SOpaque('ncols'))

        class Ev:
            def sym_getattr(self, ctx, name):
                if name == 'as_csr':
                    return as_csr
                raise Unsupported('evaluable.' + name)
        S.globals = {'evaluable': Ev()}
        return S

    def ensures(self, cx, S, result):
        ok = self.ndim == 2 and S.called == [True] and isinstance(result, tuple) and len(result) == 3 and all(a is b for a, b in zip(result, S.want))
        return [('csr-of-the-evaluable-array', z3.BoolVal(ok))]

    def raises(self, cx, S, e):
        return e.exc == 'ValueError' and self.ndim != 2

    def replay(self, ob):
        return NativeBounded.script_for('c05b', 'function_coo_csr()')


class Accumulate(NativeBounded):
    prop = PROP
    fn = 'numeric:accumulate'
    bounded = ('exhaustive native enumeration: shapes of rank 0..3 with axis lengths <= 3, up to 3 entries, every index combination, data = distinct '
               'powers of two (float and int), index given as arrays (bincount branch) and with a slice item (add.at branch)')
    module = 'c05b'
    call = 'accumulate_bounded()'
    clauses = ('equals-docstring-loop', 'shape-and-dtype')


def contracts():
    cs = [Unique(), Assparse(0, 0)]
    for r in (1, 2, 3):
        for c in (0, 1, 2):
            cs.append(Assparse(r, c))
    return cs + _scenarios() + [AsCsr(), FunctionAsCoo(), FunctionAsCsr(2), FunctionAsCsr(1), FunctionAsCsr(3), Accumulate()]


TRUSTED = ['dense (evalf) meanings of the IR constructors in contracts/c05_arr.py: InsertAxis, Transpose/transpose, Range, prependaxes, appendaxes, Take, elementwise + - *, '
           'divmod, concatenate, Sum, Inflate, zeros, constant, Guard, _flat, multiply, align, unalign (by its docstring, on inserted-axis bookkeeping), '
           'and of the node classes whose _assparse is under contract (InsertAxis, Transpose, Diagonalize, Ravel, Unravel, Sum, Zeros, Add, Multiply): '
           'cross-checked against the real nutils evaluation on random small inputs (native/axioms_c05.py:run_ir)',
           'numpy.argsort(kind=stable): a permutation with inverse that sorts (transitive form); numpy.nonzero of a bool vector stated through the '
           'counting function count(k) (recurrence): entries strictly increasing, only True positions, True position i is entry count(i)-1, length count(n-1) '
           '(native/axioms_c05.py:run)',
           'L-MONO instances: count(k) monotone; a monotone row pointer from 0 to n stays in [0, n]',
           'induction over the vector position with explicit base and step obligations (unique harness: two inductions)',
           'lemma schemas L-DIVMOD and L-LEX are PROVED once per contract on fresh constants and then instantiated by substitution',
           'Multiply._assparse: both sides of scatter = dense are expanded into monomials over the symbolic value atoms by contracts/c05_arr.py:poly '
           '(distributivity applied by the checker); the solver compares the indicator coefficients monomial by monomial (a sufficient condition)',
           'util.sum / util.cumsum / util.gather (group by identical key, insertion order), itertools.chain / product, numpy.union1d / searchsorted / arange on '
           'concrete axis tuples: modelled directly; _gathersparsechunks is executed from its real body',
           'scatter-add is linear: "every entry of every chunk lands in a slot carrying exactly its index tuple, the values are one Inflate per chunk" implies '
           'that scattering the merged COO data equals scattering the chunks (meta-argument for Array.assparse, not an SMT obligation)']
ASSUMPTIONS = ['Array.assparse: the chunks of self._assparse have in-range indices (0 <= index_k < shape_k) -- the invariant the _assparse contracts establish -- '
               'are of rank 1 (after _flat) and there are at most 2 of them; ranks 0..3',
               'Array.assparse uses evaluable.unique through its contract (count, strictly-increasing, inverse-maps-to-own-value, every-unique-value-occurs), '
               'which the evaluable:unique harness proves for return_inverse=True from the real body',
               'unique harness: UniqueMask / UniqueInverse nodes evaluate to what their evalf contracts (C05.py) state; ArgSort / Find / Take evaluate to the numpy calls they compile to',
               '_assparse rules (bounded): children are given by chunks that denote them (2 sparse chunks of 2 entries, or the default dense chunk, or a dense chunk with '
               'reversed axes); Add._terms / Multiply._factors list the operands; an array without declared chunks delivers the chunks of the default rule',
               'evaluable.as_csr: array.simplified.assparse satisfies the Array.assparse contract for rank 2; CompressIndices evaluates numeric.compress_indices, used through '
               'its contract (its precondition -- indices in range and monotone -- is an obligation here)',
               'function.as_coo / as_csr: pass-through composition only (as_evaluable_array / simplified are not under contract)',
               'numeric.accumulate is only checked up to the stated bound (bounded native stand-in, not a proof)',
               'float values are exact reals; int64 as mathematical integers']
NOT_COVERED = ['LoopSum._assparse, LoopConcatenate._assparse (need loop semantics)',
               'Array.assparse for more than 2 chunks / chunks of rank > 1 / rank > 3; `unique` with return_index',
               '_assparse rules beyond the stated sizes; that Array.simplified preserves the value (C01); Multiply/Add/Sum with dtype bool beyond falling back to the default rule',
               'global (non-adjacent) uniqueness of the COO index tuples is stated for consecutive entries (strict lexicographic increase); the transitive form is L-MONO',
               'numpy.take / Inflate index-range errors at evaluation time (indices are shown in range only for the final COO/CSR data)',
               'numeric.accumulate beyond the enumeration bound; bincount/add.at floating-point summation order']
