"""C05 (extension) -- the flat-index merge of `Array.assparse`, the `_assparse` rules of the node classes, CSR composition.

Array.assparse (evaluable.py:588)   ranks 0..3, 0..2 chunks of rank 1, SYMBOLIC axis lengths / chunk lengths / indices / values.
    The real body is executed on positional array models (contracts/c05_arr.py): the flat index it builds is the
    row-major ravel of the chunk's index tuple; `unique(.., return_inverse=True)` is replaced by its contract (proved from
    the real body of evaluable.unique by the `Unique` harness below); the divmod chain unravels.  Postcondition, from the
    property statement:
      index-in-shape          every returned index lies inside the announced shape
      lexicographic-strict    consecutive returned index tuples increase strictly in lexicographic order (unique + ordered)
      entry-lands-on-its-index  values = sum over the chunks of Inflate(chunk values, dofmap_c, len(flatindex)) where for EVERY
                              position p of chunk c the slot dofmap_c[p] is in range and carries exactly the index tuple of p;
                              by linearity of scatter-add, scattering the result equals scattering the chunks.
evaluable.unique (5656)             harness: real body on the meanings of ArgSort/Take/UniqueMask/Find/UniqueInverse (the two
                                    evalf contracts of C05.py), with the induction `sorted[find[rank(k)]] = sorted[k]` as explicit
                                    base/step lemmas.
"""
import itertools
import z3
from pyvc.contract import Contract, State
from pyvc.values import SInt, SBool, SObj, Unsupported, PyRaise, zint, Lazy
from pyvc.nparr import qforall
from pyvc.native import NativeBounded
from pyvc.ops import Builtin
from pyvc import ops, extract
from contracts import c05_arr as A
from contracts.c05_arr import PA, INT, FLOAT, zi

PROP = 'C05'


# ------------------------------------------------------------------------------------------ contract of evaluable.unique

def unique_spec(arr_at, N, U, n_out, INV, W):
    """Clauses relating the input vector (arr_at, length N) to unique values U[0:n_out], inverse INV[0:N], witness W[0:n_out]."""
    return [
        ('count', z3.And(0 <= n_out, n_out <= N, (n_out == 0) == (N == 0))),
        ('strictly-increasing', qforall(1, lambda u: z3.Implies(z3.And(0 <= u, u + 1 < n_out), U(u) < U(u + 1)))),
        ('inverse-maps-to-own-value', qforall(1, lambda k: z3.Implies(z3.And(0 <= k, k < N), z3.And(0 <= INV(k), INV(k) < n_out, U(INV(k)) == arr_at(k))))),
        ('every-unique-value-occurs', qforall(1, lambda u: z3.Implies(z3.And(0 <= u, u < n_out), z3.And(0 <= W(u), W(u) < N, arr_at(W(u)) == U(u))))),
    ]


def unique_by_contract(ctx, array, return_index=False, return_inverse=False):
    if return_index or not return_inverse:
        raise Unsupported('unique() is modelled for return_inverse=True only')
    array = A.asarray(ctx, array)
    if array.ndim != 1 or array.dtype != INT:
        raise Unsupported('unique of a non-vector')
    N = array.dims[0]
    n_out = ctx.int('len(unique)', report=False)
    U = z3.Function(ctx.name('unique'), z3.IntSort(), z3.IntSort())
    INV = z3.Function(ctx.name('inverse'), z3.IntSort(), z3.IntSort())
    W = z3.Function(ctx.name('witness'), z3.IntSort(), z3.IntSort())
    for name, f in unique_spec(lambda k: array.at((k,)), N, U, n_out, INV, W):
        ctx.assume(f, axiom='contract of evaluable.unique, clause %s (proved from its real body: C05 evaluable:unique harness)' % name)
    ctx.unique_model = dict(U=U, INV=INV, W=W, n_out=n_out, N=N, array=array)
    return PA((n_out,), lambda pos: U(pos[0]), INT, name='unique'), PA((N,), lambda pos: INV(pos[0]), INT, name='inverse')


def pure_lemma(cx, clause, hyps, goal):
    """A fact proved from the listed hypotheses ALONE (its own small obligation), then assumed as  hyps => goal."""
    cx.obligations.append(('lemma:' + clause, [z3.BoolVal(True)] + list(hyps), goal, 'lemma', None, None))
    cx.assume(z3.Implies(z3.And(*hyps), goal) if hyps else goal)


class Schema:
    """A lemma schema over integer variables: proved ONCE on fresh constants (its own small obligation, no other
    hypotheses), then instantiated by substitution with the terms at hand (instances of a valid formula are valid)."""

    def __init__(self, cx, clause, nvars, build):
        self.cx, self.build = cx, build
        vs = [z3.Int(cx.name('%s!v%d' % (clause, i))) for i in range(nvars)]
        hyps, goal = build(*vs)
        cx.obligations.append(('lemma:' + clause, [z3.BoolVal(True)] + list(hyps), goal, 'lemma', None, None))

    def instance(self, *terms):
        hyps, goal = self.build(*terms)
        self.cx.assume(z3.Implies(z3.And(*hyps), goal))


def l_divmod(q, rem, nn, x):
    """L-DIVMOD: x = q*n + rem with 0 <= rem < n  =>  x % n = rem and x // n = q  (Python floor semantics)"""
    return [0 <= rem, rem < nn, x == q * nn + rem], z3.And(A.pymod(x, nn) == rem, A.pyfloordiv(x, nn) == q)


def l_lex(r):
    """L-LEX (rank r): for tuples a, b inside the shape n, row-major(a) < row-major(b) => a < b lexicographically"""
    def build(*v):
        a, b, n = v[:r], v[r:2 * r], v[2 * r:]
        fa, fb = a[0], b[0]
        for k in range(1, r):
            fa, fb = fa * n[k] + a[k], fb * n[k] + b[k]
        lex = z3.BoolVal(False)
        for k in range(r - 1, -1, -1):
            lex = z3.Or(a[k] < b[k], z3.And(a[k] == b[k], lex))
        return [z3.And(0 <= x[k], x[k] < n[k]) for x in (a, b) for k in range(r)] + [fa < fb], lex
    return build


# ------------------------------------------------------------------------------------------ Array.assparse

class Assparse(Contract):
    prop = PROP
    fn = 'evaluable:Array.assparse'

    def __init__(self, rank, nchunks):
        self.rank, self.nchunks = rank, nchunks
        self.label = 'ndim=%d,chunks=%d' % (rank, nchunks)
        self.bounded = 'rank %d, %d sparse chunks of rank 1; axis lengths, chunk lengths, indices and values symbolic' % (rank, nchunks)

    def setup(self, cx):
        r = self.rank
        n = [cx.int('shape%d' % k) for k in range(r)]
        for x in n:
            cx.assume(x >= 0)
        chunks, lens = [], []
        for j in range(self.nchunks if r else 0):
            m = cx.int('len(chunk%d)' % j)
            cx.assume(m >= 0)
            idx = [A.fresh(cx, 'chunk%d.index%d' % (j, k), (m,), INT) for k in range(r)]
            val = A.fresh(cx, 'chunk%d.values' % j, (m,), FLOAT)
            for k in range(r):
                cx.assume(qforall(1, lambda p, k=k: z3.Implies(z3.And(0 <= p, p < m), z3.And(0 <= idx[k].at((p,)), idx[k].at((p,)) < n[k]))))
            chunks.append((*idx, val))
            lens.append(m)
        dense = A.fresh(cx, 'self', n, FLOAT, report=False)
        if r == 0:
            chunks = SObj('unused')  # the scalar branch does not read _assparse
        else:
            chunks = tuple(chunks)
        dense.attrs['_assparse'] = chunks
        # ghost positions (free constants = universally quantified in every obligation)
        p = [cx.int('p%d' % j) for j in range(len(lens))]
        u = cx.int('u')
        return State(args=(dense,), me=dense, n=n, chunks=chunks, lens=lens, p=p, u=u, globals=A.ir_globals(unique=unique_by_contract))

    def body(self, cx, S, call):
        result = call(self.fn, S.me)
        S.hints_ok = self.hints(cx, S, result)
        return result

    def hints(self, cx, S, result):
        """Intermediate facts, each PROVED as its own obligation from the range hypotheses alone and then available:
        the flat index of an entry is the Horner (row-major) form of its index tuple; L-DIVMOD per unravel step; L-LEX."""
        r = self.rank
        um = getattr(cx, 'unique_model', None)
        if r == 0 or not S.chunks or um is None:
            return False
        n, W, arr = S.n, um['W'], um['array']
        offs = [z3.IntVal(0)]
        for m in S.lens:
            offs.append(offs[-1] + m)
        S.offs = offs

        def horner(I, upto):
            acc = I[0]
            for k in range(1, upto + 1):
                acc = acc * n[k] + I[k]
            return acc
        u = S.u
        U, INV = um['U'], um['INV']
        divmod_schema = Schema(cx, 'L-DIVMOD', 4, l_divmod) if r > 1 else None
        lex_schema = Schema(cx, 'L-LEX', 3 * r, l_lex(r))
        sites = []  # (tag, chunk, position term, the unique value that is claimed to be this entry's flat index)
        for j in range(len(S.chunks)):
            sites.append(('p', j, S.p[j], U(INV(S.p[j] + offs[j]))))
            sites.append(('w', j, W(u) - offs[j], U(u)))
            sites.append(('w1', j, W(u + 1) - offs[j], U(u + 1)))
        S.sites = {}
        for tag, j, pos, x in sites:
            ch = S.chunks[j]
            I = [ch[k].at((pos,)) for k in range(r)]
            rng = z3.And(0 <= pos, pos < S.lens[j])
            inr = z3.And(*[z3.And(0 <= I[k], I[k] < n[k]) for k in range(r)])
            # the precondition instantiated at this position (a plain instance of a hypothesis)
            cx.lemma('hint:%s%d:indices-in-range' % (tag, j), z3.Implies(rng, inr))
            pure_lemma(cx, 'hint:%s%d:flat-index-is-row-major' % (tag, j), [rng], arr.at((pos + offs[j],)) == horner(I, r - 1))
            xk = x
            for k in range(r - 1, 0, -1):
                divmod_schema.instance(horner(I, k - 1), I[k], n[k], xk)
                xk = A.pyfloordiv(xk, n[k])
            S.sites[tag, j] = (pos, I, rng, horner(I, r - 1))
        # L-LEX: for in-range tuples, a smaller row-major index means a lexicographically smaller tuple
        for j in range(len(S.chunks)):
            for j2 in range(len(S.chunks)):
                _, Ia, ra, fa = S.sites['w', j]
                _, Ib, rb, fb = S.sites['w1', j2]
                lex_schema.instance(*Ia, *Ib, *n)
        return True

    def ensures(self, cx, S, result):
        r = self.rank
        if not (isinstance(result, tuple) and len(result) == 3):
            raise Unsupported('result %r' % (result,))
        values, indices, shape = result
        ok = isinstance(values, PA) and isinstance(indices, tuple) and len(indices) == r and all(isinstance(i, PA) and i.ndim == 1 and i.dtype == INT for i in indices) \
            and isinstance(shape, tuple) and len(shape) == r and values.ndim == 1
        if not ok:
            return [('result-structure', z3.BoolVal(False))]
        out = [('announced-shape', z3.And(*[zi(s) == x for s, x in zip(shape, S.n)]) if r else z3.BoolVal(True))]
        if r == 0:
            out.append(('scalar-value', z3.And(values.dims[0] == 1, values.at((0,)) == S.me.at(()))))
            return out
        n_out = values.dims[0]
        out.append(('equal-lengths', z3.And(*[i.dims[0] == n_out for i in indices])))
        if not S.chunks:
            out.append(('no-chunks-no-entries', n_out == 0))
            return out
        # --- structure of the value vector: one Inflate term per chunk, scattering that chunk's values
        terms = A._terms(values)
        good = len(terms) == len(S.chunks) and all(t.form and t.form[0] == 'Inflate' for t in terms)
        if good:
            for t, ch in zip(terms, S.chunks):
                good = good and t.form[1] is ch[-1]
        if not good:
            return out + [('values-are-one-inflation-per-chunk', z3.BoolVal(False))]
        out.append(('values-are-one-inflation-per-chunk', z3.And(*[t.form[3] == n_out for t in terms])))
        # L-DIVMOD instances for the unravel chain (proved, then available): one per axis step and flat index read
        lands = []
        for j, (t, ch) in enumerate(zip(terms, S.chunks)):
            p = S.p[j]
            slot = t.form[2].at((p,))
            conj = [0 <= slot, slot < n_out] + [indices[k].at((slot,)) == ch[k].at((p,)) for k in range(r)]
            lands.append(z3.Implies(z3.And(0 <= p, p < S.lens[j]), z3.And(*conj)))
        for j, f in enumerate(lands):
            out.append(('entry-lands-on-its-index#chunk%d' % j, f))
        u = S.u
        tup = lambda v: [indices[k].at((v,)) for k in range(r)]
        out.append(('index-in-shape', z3.Implies(z3.And(0 <= u, u < n_out), z3.And(*[z3.And(0 <= x, x < S.n[k]) for k, x in enumerate(tup(u))]))))
        a, b = tup(u), tup(u + 1)
        lex = z3.BoolVal(False)
        for k in range(r - 1, -1, -1):
            lex = z3.Or(a[k] < b[k], z3.And(a[k] == b[k], lex))
        out.append(('lexicographic-strict', z3.Implies(z3.And(0 <= u, u + 1 < n_out), lex)))
        return out

    def replay(self, ob):
        return NativeBounded.script_for('c05b', 'assparse()')


def contracts():
    cs = [Assparse(0, 0)]
    for r in (1, 2, 3):
        for c in (0, 1, 2):
            cs.append(Assparse(r, c))
    return cs


TRUSTED = ['dense (evalf) meanings of the IR constructors in contracts/c05_arr.py (cross-checked natively: native/axioms_c05.py)']
ASSUMPTIONS = ['Array.assparse: the chunks of self._assparse have in-range indices (0 <= index_k < shape_k), are of rank 1 (after _flat) and there are at most 2 of them']
NOT_COVERED = []
