"""C20 (extension) -- dimension names and unit strings of nutils.SI.

Strings are token strings (pyvc/tokstr.py): a CONCRETE number of pieces -- literal separators ('*', '/', '_', '[', ']'),
abstract names (elements of an uninterpreted sort: any string that satisfies the stated character-class invariant), decimal
digit strings `str(n)` of symbolic integers and float literals of symbolic value.  What is bounded is the NUMBER OF FACTORS
of a name / unit string (<= 3; from_powers with all shapes of powers <= 2, three entries for integer powers of magnitude >= 2) -- names,
exponents, numerators, denominators, values and the order of the factors are symbolic.  All of it is labelled `bounded`.

  from_powers     creates / looks up the class for the non-zero entries; the class is stored under its name; the name does
                  not depend on the insertion order of the dict (two-run harness over every permutation)
  __getattr__     `getattr(Quantity, cls.__name__)` re-creates the SAME power map: the name written by from_powers, read
                  back by the real `_split_factors` inside the real `__getattr__`, is the map that went in (this is name
                  decodability, hence: different maps -> different names; it is also what makes pickling work)
  create          accepts exactly the names that keep names decodable (non-empty, no '*' '/', not ending in a digit or '_')
  _split_factors  'a2*b/c_3' -> (a, 2, numer), (b, 1, numer), (c, 1/3, denom): base, exponent and side of every factor
  parse           value and dimension of '<number><unit-expression>': the product over the factors of
                  (factor-number * unit ** power) ** (+-1); unknown unit names are rejected (ValueError)
  __format__      f'{q:<spec><unit>}' = format(q / unit, <spec>f) + <unit>; a unit of another dimension is rejected
  round trip      format(parse(<number><unit>), <spec><unit>) = format(<number>, <spec>f) + <unit>   (three real bodies)
  Units.__setattr__   defines the name and its 19 prefixed forms with the value scaled by the prefix factor, all of the
                  unit's dimension; refuses a name, or a prefixed form, that is already defined (no string gets two meanings)
"""
import ast, os
from fractions import Fraction
import z3
from pyvc.contract import Contract, State
from pyvc.core import Obligation
from pyvc.values import Sym, SBool, SInt, SReal, SObj, SOpaque, Unsupported, PyRaise, zbool, zreal, zint, is_intlike
from pyvc.ops import ClassRef, Builtin
from pyvc import ops, extract
from pyvc.tokstr import TokStr, Lit, Atom, Digits, Number, StrOps, DIGITS, NUMCHARS
from contracts.C13 import InlineFn

PROP = 'C20'
HERE = os.path.dirname(os.path.dirname(os.path.abspath(__file__)))
NAME = z3.DeclareSort('Name')
ORD = z3.Function('string_order', NAME, z3.IntSort())
FNUM = z3.Function('Fraction.numerator', z3.RealSort(), z3.IntSort())
FDEN = z3.Function('Fraction.denominator', z3.RealSort(), z3.IntSort())
RPOW = z3.Function('float_pow', z3.RealSort(), z3.RealSort(), z3.RealSort())
NB = 3


def native(call):
    return "import sys; sys.path.insert(0, %r)\nfrom native import c20\nc20.%s\n" % (HERE, call)


def base_name(cx, label):
    """A base-dimension name as Dimension.create admits it."""
    return Atom(cx.const(label, NAME), excludes='*/', last_not=DIGITS | {'_'}, label=label)


def unit_name(cx, label):
    """A unit name: no '*' '/', does not start like a number or format spec ("+-0123456789.,"), does not end in a digit or '_'."""
    return Atom(cx.const(label, NAME), excludes='*/', first_not=NUMCHARS | {','}, last_not=DIGITS | {'_'}, label=label)


def distinct(cx, atoms):
    for i, a in enumerate(atoms):
        for b in atoms[:i]:
            cx.assume(a.term != b.term)
            cx.assume(ORD(a.term) != ORD(b.term))


def fstring_hook(parts):
    vals = [p[1] if isinstance(p, tuple) else p for p in parts]
    if all(isinstance(v, str) for v in vals):
        return ''.join(vals)
    if all(isinstance(v, (str, TokStr)) for v in vals):
        r = TokStr()
        for v in vals:
            r = TokStr(r.tokens + TokStr.of(v).tokens)
        return r
    return SOpaque('str')


# ---- fractions.Fraction ------------------------------------------------------------------------------------------------

class Frac(Sym):
    """fractions.Fraction of symbolic value; numerator/denominator are the lowest-terms pair, a function of the value."""

    def __init__(self, v):
        self.v = v

    def getattr(self, ctx, name):
        if name in ('numerator', 'denominator'):
            ctx.assume(z3.And(FDEN(self.v) >= 1, z3.ToReal(FNUM(self.v)) == self.v * z3.ToReal(FDEN(self.v)), z3.Implies(z3.IsInt(self.v), FDEN(self.v) == 1)),
                       axiom='Fraction.numerator/.denominator: the lowest-terms pair (denominator >= 1), a function of the value')
            return SInt(FNUM(self.v) if name == 'numerator' else FDEN(self.v))
        if name == '__index__':
            raise PyRaise('AttributeError', note='Fraction.__index__')
        raise Unsupported('Fraction.' + name)

    def truth(self, ctx):
        return self.v != 0

    def isinstance_(self, ctx, types):
        return any(getattr(t, '__name__', None) == 'Fraction' for t in types)

    def binop(self, ctx, op, other, reflected):
        if isinstance(other, Frac):
            o = other.v
        else:
            try:
                o = zreal(other)
            except TypeError:
                return NotImplemented
            if isinstance(other, (float, SReal)):
                return NotImplemented  # Fraction op float is a float: not needed here
        a, b = (o, self.v) if reflected else (self.v, o)
        if op in ('+', '-', '*'):
            return Frac(z3.simplify({'+': a + b, '-': a - b, '*': a * b}[op]))
        if op == '/':
            if not ctx.branch(b != 0):
                raise PyRaise('ZeroDivisionError')
            return Frac(a / b)
        return NotImplemented

    def unop(self, ctx, op):
        if op == '-':
            return Frac(-self.v)
        if op == '+':
            return self
        if op == 'abs':
            return Frac(z3.If(self.v < 0, -self.v, self.v))
        if op == 'not':
            return SBool(self.v == 0)
        raise Unsupported('unary %s on Fraction' % op)

    def compare(self, ctx, op, other, reflected):
        if isinstance(other, Frac):
            o = other.v
        else:
            try:
                o = zreal(other)
            except TypeError:
                return NotImplemented
        a, b = (o, self.v) if reflected else (self.v, o)
        return SBool({'<': a < b, '<=': a <= b, '>': a > b, '>=': a >= b, '==': a == b, '!=': a != b}[op])


def frac_value(x):
    return x.v if isinstance(x, Frac) else zreal(x)


def make_fraction(ctx, a=0, b=None):
    if b is None:
        if isinstance(a, Frac):
            return a
        if isinstance(a, (int, Fraction)) and not isinstance(a, bool):
            return Frac(zreal(Fraction(a)))
        if isinstance(a, SInt):
            return Frac(z3.ToReal(a.v))
        raise Unsupported('Fraction(%r)' % (a,))
    if isinstance(a, int) and isinstance(b, int):
        if b == 0:
            raise PyRaise('ZeroDivisionError')
        return Frac(zreal(Fraction(a, b)))
    if is_intlike(a) and is_intlike(b):
        if not ctx.branch(zint(b) != 0):
            raise PyRaise('ZeroDivisionError', note='Fraction(%s, 0)' % (a,))
        return Frac(z3.ToReal(zint(a)) / z3.ToReal(zint(b)))
    raise Unsupported('Fraction(%r, %r)' % (a, b))


class FractionsModule:
    def sym_getattr(self, ctx, name):
        if name == 'Fraction':
            return ClassRef('Fraction', construct=make_fraction)
        raise Unsupported('fractions.' + name)


def sym_sorted(ctx, items, key=None, reverse=False):
    """sorted() by insertion, forking on every comparison; keys are tuples of Fractions / single-name strings / ints."""
    xs = ops.iterate(ctx, items)
    keyf = (lambda x: ctx.interp.call(key, [x], {})) if key is not None else (lambda x: x)

    def lt(a, b):
        if isinstance(a, tuple) and isinstance(b, tuple) and len(a) == len(b):
            strict, eqs = [], []
            for x, y in zip(a, b):
                l, e = lt_eq(x, y)
                strict.append(z3.And(*eqs, l))
                eqs.append(e)
            return z3.Or(*strict)
        return lt_eq(a, b)[0]

    def lt_eq(x, y):
        if isinstance(x, TokStr) and isinstance(y, TokStr) and len(x.tokens) == 1 and len(y.tokens) == 1 and type(x.tokens[0]) is Atom and type(y.tokens[0]) is Atom:
            ctx.used_axioms.add('string comparison of names: some strict total order (string_order), the proof holds for every such order')
            return ORD(x.tokens[0].term) < ORD(y.tokens[0].term), x.tokens[0].term == y.tokens[0].term
        try:
            a, b = frac_value(x), frac_value(y)
        except TypeError:
            raise Unsupported('sorted: cannot compare %r and %r' % (x, y))
        return a < b, a == b
    out = []
    for x in xs:
        kx = keyf(x)
        pos = len(out)
        # stable: x goes after every element that is not greater (ascending) / not smaller (descending)
        for j in range(len(out) - 1, -1, -1):
            kj = out[j][0]
            before = lt(kj, kx) if reverse else lt(kx, kj)   # x must precede out[j]
            if ctx.branch(before):
                pos = j
            else:
                break
        out.insert(pos, (kx, x))
    return [x for k, x in out]


def string_globals():
    g = StrOps.globals()
    g.update({'fractions': FractionsModule(), 'sorted': sym_sorted, 'next': py_next})
    return g


def py_next(ctx, it, *default):
    if isinstance(it, list):
        if it:
            return it[0]
        if default:
            return default[0]
        raise PyRaise('StopIteration')
    return ops.py_next(ctx, it, *default)


# ---- the metaclass, its cache and the classes it creates ---------------------------------------------------------------

class ClsV(SObj):
    """A Dimension class object."""

    def __init__(self, name):
        super().__init__('Dimension', attrs={'__name__': name}, classes=('Dimension',))

    def setattr(self, ctx, name, value):
        self.attrs[name] = value
        if name == '__powers':
            self.attrs['_Dimension__powers'] = value


class Cache(Sym):
    """Dimension.__cache as an association list keyed by (structurally compared) names."""

    def __init__(self):
        self.entries = []

    def find(self, ctx, key):
        for k, v in self.entries:
            e = TokStr.of(k).struct_eq(key)
            if ctx.branch(zbool(e)):
                return v
        return None

    def getitem(self, ctx, key):
        v = self.find(ctx, key)
        if v is None:
            raise PyRaise('KeyError')
        return v

    def setitem(self, ctx, key, value):
        self.entries.append((key, value))

    def contains(self, ctx, key):
        return self.find(ctx, key) is not None


class Meta(Sym):
    """The metaclass object `mcls` (= Dimension)."""

    def __init__(self, cache, extra=None):
        self.cache = cache
        self.created = []
        self.extra = extra or {}

    def getattr(self, ctx, name):
        if name in ('__cache', '_Dimension__cache'):
            return self.cache
        if name in self.extra:
            return self.extra[name]
        raise Unsupported('Dimension.' + name)

    def call(self, ctx, args, kwargs):
        name, bases, ns = args
        c = ClsV(name)
        c.bases = bases
        self.created.append(c)
        return c


def power_entries(cx, n, integer=False, nonzero=False):
    names = [base_name(cx, 'base%d' % i) for i in range(n)]
    distinct(cx, names)
    vals = [cx.real('power%d' % i) for i in range(n)]
    if integer:
        for v in vals:
            cx.assume(z3.And(z3.IsInt(v), z3.Or(v >= 2, v <= -2)))
    if nonzero:
        for v in vals:
            cx.assume(v != 0)
    return names, vals


BOUND_NAMES = 'number of entries of the power map fixed (<= 3; three entries only for integer powers of magnitude >= 2); names, exponents and their order symbolic'


class FromPowers(Contract):
    """from_powers on a fresh cache: the class holds the non-zero entries and is stored under its (decodable) name; then
    Dimension.__getattr__('[name]') reads the name back with the real _split_factors into the same map."""
    prop = PROP
    bounded = BOUND_NAMES
    max_paths = 6000

    def __init__(self, n, integer=False, fn='SI:Dimension.from_powers'):
        self.n, self.integer = n, integer
        self.fn = fn
        self.roundtrip = fn.endswith('__getattr__')
        self.label = ('roundtrip,' if self.roundtrip else '') + 'entries=%d%s' % (n, ',integer-powers-of-magnitude>=2' if integer else '')

    def setup(self, cx):
        cx.fstring_hook = fstring_hook
        names, vals = power_entries(cx, self.n, self.integer, nonzero=self.roundtrip)
        S = State(names=names, vals=vals, cache=Cache())
        S.arg = {TokStr([a]): Frac(v) for a, v in zip(names, vals)}
        S.meta = Meta(S.cache)
        S.globals = string_globals()
        S.globals['Quantity'] = ClassRef('Quantity')
        S.second = []

        def from_powers_again(ctx, d):
            S.second.append(d)
            return SOpaque('class')
        S.globals['Dimension'] = ClassRef('Dimension', attrs={'from_powers': from_powers_again})
        S.globals['_split_factors'] = InlineFn('SI:_split_factors')
        return S

    def body(self, cx, S, call):
        cls = call('SI:Dimension.from_powers', S.meta, S.arg)
        if self.roundtrip:
            call('SI:Dimension.__getattr__', cls, TokStr.of(cls.attrs['__name__']))
        return cls

    def entry_of(self, S, key):
        toks = TokStr.of(key).tokens
        if len(toks) == 1:
            for i, a in enumerate(S.names):
                if toks[0] is a:
                    return i
        return None

    def same_map(self, S, d, only_nonzero=True):
        """z3: dict d (token-string keys -> Fractions) is exactly the map of the non-zero entries."""
        if not isinstance(d, dict):
            return z3.BoolVal(False)
        seen = {}
        for k, v in d.items():
            i = self.entry_of(S, k)
            if i is None or i in seen or not isinstance(v, (Frac, Fraction)):
                return z3.BoolVal(False)
            seen[i] = frac_value(v)
        goals = []
        for i, v in enumerate(S.vals):
            goals.append(seen[i] == v if i in seen else v == 0)
            if i in seen:
                goals.append(v != 0)
        return z3.And(*goals) if goals else z3.BoolVal(True)

    def ensures(self, cx, S, result):
        out = []
        if not self.roundtrip:
            ok = isinstance(result, ClsV) and S.meta.created == [result]
            out.append(('class-holds-the-nonzero-entries', z3.And(z3.BoolVal(ok), self.same_map(S, result.attrs.get('__powers')) if ok else z3.BoolVal(False))))
            name = TokStr.of(result.attrs.get('__name__')) if ok and isinstance(result.attrs.get('__name__'), (str, TokStr)) else None
            stored = ok and len(S.cache.entries) == 1 and S.cache.entries[0][1] is result and isinstance(name, TokStr) \
                and name.struct_eq(TokStr.of('[') .binop(cx, '+', TokStr.of(S.cache.entries[0][0]), False).binop(cx, '+', ']', False)) is True \
                and TokStr.of(result.attrs.get('__qualname__', '')).struct_eq(TokStr.of('Quantity.').binop(cx, '+', name, False)) is True \
                and tuple(getattr(b, '__name__', None) for b in result.bases) == ('Quantity',)
            out.append(('stored-under-its-name', z3.BoolVal(bool(stored))))
            return out
        ok = len(S.second) == 1
        out.append(('name-decodes-to-the-same-power-map', z3.And(z3.BoolVal(ok), self.same_map(S, S.second[0]) if ok else z3.BoolVal(False))))
        return out

    def replay(self, ob):
        return native('names_check()')


class FromPowersRejects(Contract):
    prop = PROP
    fn = 'SI:Dimension.from_powers'
    expect_return = False

    def __init__(self, what):
        self.what = what
        self.label = 'rejects-' + what

    def setup(self, cx):
        S = State()
        a = TokStr([base_name(cx, 'base')])
        arg = {'not-a-dict': [(a, Frac(cx.real('p')))], 'non-str-key': {7: Frac(cx.real('p'))}, 'non-Fraction-power': {a: SInt(cx.int('p'))},
               'float-power': {a: SReal(cx.real('p'))}}[self.what]
        S.args = (Meta(Cache()), arg)
        S.globals = string_globals()
        return S

    def raises(self, cx, S, e):
        return e.exc == 'ValueError'

    def replay(self, ob):
        return native('names_check()')


class Canonical(Contract):
    """Two calls with the same entries in different insertion order give the same class (the second is a cache hit)."""
    prop = PROP
    fn = 'SI:Dimension.from_powers'
    bounded = BOUND_NAMES
    max_paths = 6000

    def __init__(self, perm, integer=False):
        self.perm, self.integer = perm, integer
        self.label = 'insertion-order=%s%s' % (''.join(map(str, perm)), ',integer-powers-of-magnitude>=2' if integer else '')

    def setup(self, cx):
        cx.fstring_hook = fstring_hook
        names, vals = power_entries(cx, len(self.perm), self.integer)
        S = State(names=names, vals=vals, cache=Cache())
        keys = [TokStr([a]) for a in names]
        S.arg1 = {keys[i]: Frac(vals[i]) for i in range(len(names))}
        S.arg2 = {keys[i]: Frac(vals[i]) for i in self.perm}
        S.meta = Meta(S.cache)
        S.globals = string_globals()
        S.globals['Quantity'] = ClassRef('Quantity')
        return S

    def body(self, cx, S, call):
        S.first = call('SI:Dimension.from_powers', S.meta, S.arg1)
        return call('SI:Dimension.from_powers', S.meta, S.arg2)

    def ensures(self, cx, S, result):
        return [('same-class-for-every-insertion-order', z3.BoolVal(result is S.first and len(S.meta.created) == 1))]

    def replay(self, ob):
        return native('names_check()')


class Create(Contract):
    prop = PROP
    fn = 'SI:Dimension.create'
    bounded = 'a fixed list of string shapes (clean name, name+digits, name_, product, quotient, leading separator, empty, number); names and digits symbolic'

    SHAPES = {
        'clean': (lambda cx: [base_name(cx, 'name')], 'accept'),
        'clean-in-use': (lambda cx: [base_name(cx, 'name')], 'ValueError'),
        'interior-digits': (lambda cx: [base_name(cx, 'name'), Digits(cx.int('n')), base_name(cx, 'tail')], 'undecided'),
        'trailing-digits': (lambda cx: [base_name(cx, 'name'), Digits(cx.int('n'))], 'ValueError'),
        'trailing-underscore': (lambda cx: [base_name(cx, 'name'), Lit('_')], 'ValueError'),
        'trailing-fraction': (lambda cx: [base_name(cx, 'name'), Digits(cx.int('n')), Lit('_'), Digits(cx.int('d'))], 'ValueError'),
        'product': (lambda cx: [base_name(cx, 'name'), Lit('*'), base_name(cx, 'other')], 'ValueError'),
        'quotient': (lambda cx: [base_name(cx, 'name'), Lit('/'), base_name(cx, 'other')], 'ValueError'),
        'leading-star': (lambda cx: [Lit('*'), base_name(cx, 'name')], 'ValueError'),
        'leading-slash': (lambda cx: [Lit('/'), base_name(cx, 'name')], 'ValueError'),
        'digits-only': (lambda cx: [Digits(cx.int('n'))], 'ValueError'),
        'not-a-str': (None, 'ValueError'),
    }

    class NotStr(Sym):
        def isinstance_(self, ctx, types):
            return False

        def pytype(self, ctx):
            return ClassRef('int')

    def __init__(self, shape):
        self.shape = shape
        self.label = shape
        self.expect_return = self.SHAPES[shape][1] == 'accept'

    def setup(self, cx):
        build, _ = self.SHAPES[self.shape]
        S = State(made=[])
        if build is None:
            S.arg = self.NotStr()
        else:
            toks = build(cx)
            for t in toks:
                if isinstance(t, Digits):
                    cx.assume(t.n >= 0)
            S.arg = TokStr(toks)
        cache = Cache()
        if self.shape == 'clean-in-use':
            cache.entries.append((S.arg, SOpaque('existing class')))

        def from_powers(ctx, d):
            S.made.append(d)
            return SOpaque('class')
        S.meta = Meta(cache, extra={'from_powers': from_powers})
        S.args = (S.meta, S.arg)
        S.globals = string_globals()
        S.globals['_split_factors'] = InlineFn('SI:_split_factors')
        return S

    def raises(self, cx, S, e):
        if e.exc == 'ZeroDivisionError':
            # 'm2_0': Fraction(2, 0) inside _split_factors -- rejected, with another exception class
            dens = [t.n for k, t in enumerate(S.arg.tokens) if isinstance(t, Digits) and k and isinstance(S.arg.tokens[k - 1], Lit) and S.arg.tokens[k - 1].text.endswith('_')]
            return z3.Or(*[d == 0 for d in dens]) if dens else False
        return e.exc == 'ValueError' and self.SHAPES[self.shape][1] == 'ValueError'

    def ensures(self, cx, S, result):
        if self.SHAPES[self.shape][1] != 'accept':
            return [('only-decodable-names-accepted', z3.BoolVal(False))]
        ok = len(S.made) == 1 and isinstance(S.made[0], dict) and len(S.made[0]) == 1
        if ok:
            (k, v), = S.made[0].items()
            ok = k is S.arg and isinstance(v, (Frac, Fraction))
        return [('creates-the-first-power-of-the-name', z3.And(z3.BoolVal(ok), (frac_value(v) == 1) if ok else z3.BoolVal(False)))]

    def replay(self, ob):
        return native('names_check()')


class GetAttrOther(Contract):
    prop = PROP
    fn = 'SI:Dimension.__getattr__'
    expect_return = False

    def __init__(self, attr):
        self.attr = attr
        self.label = 'attr=%s' % attr

    def setup(self, cx):
        S = State()
        S.args = (ClsV('[L]'), self.attr)
        S.globals = string_globals()
        S.globals['Dimension'] = ClassRef('Dimension', attrs={'from_powers': lambda ctx, d: SOpaque('class')})
        S.globals['_split_factors'] = InlineFn('SI:_split_factors')
        return S

    def raises(self, cx, S, e):
        return e.exc == 'AttributeError'

    def ensures(self, cx, S, result):
        return [('only-bracketed-names-create-classes', z3.BoolVal(False))]

    def replay(self, ob):
        return native('names_check()')


# ---- _split_factors --------------------------------------------------------------------------------------------------------

POWER_SHAPES = ('none', 'int', 'frac')


def build_factors(cx, seps, shapes, leading_slash=False, numbers=(), namef=unit_name):
    """Token string  [/]f0 sep f1 sep f2 ...  with  f = [number] name [digits ['_' digits]];  returns (tokens, spec) where
    spec[i] = dict(name atom, number value|None, num z3 Int, den z3 Int, numer: bool)."""
    toks, spec = [], []
    if leading_slash:
        toks.append(Lit('/'))
    side = not leading_slash
    for i, sh in enumerate(shapes):
        if i:
            toks.append(Lit(seps[i - 1]))
            side = True if seps[i - 1] == '*' else False
        f = dict(numer=side, number=None, num=z3.IntVal(1), den=z3.IntVal(1), head=[])
        if i < len(numbers) and numbers[i]:
            v = cx.real('number%d' % i)
            t = Number(v, cx.const('number%d.text' % i, NAME))
            f['number'] = v
            f['head'].append(t)
        a = namef(cx, 'name%d' % i)
        f['name'] = a
        f['head'].append(a)
        toks += f['head']
        if sh in ('int', 'frac'):
            f['num'] = cx.int('num%d' % i)
            cx.assume(f['num'] >= 0)
            toks.append(Digits(f['num']))
        if sh == 'frac':
            f['den'] = cx.int('den%d' % i)
            cx.assume(f['den'] >= 0)
            toks += [Lit('_'), Digits(f['den'])]
        spec.append(f)
    return toks, spec


class SplitFactors(Contract):
    prop = PROP
    fn = 'SI:_split_factors'
    bounded = 'number of factors <= 3, separators and the shape of every exponent (absent / integer / fraction) fixed per scenario; names, numbers, numerators and denominators symbolic'

    def __init__(self, seps, shapes, leading_slash=False, numbers=()):
        self.seps, self.shapes, self.leading, self.numbers = seps, shapes, leading_slash, numbers
        self.label = ('/' if leading_slash else '') + ''.join(('#' if i < len(numbers) and numbers[i] else '') + 'u' + {'none': '', 'int': 'N', 'frac': 'N_D'}[sh] + (seps[i] if i < len(seps) else '')
                                                              for i, sh in enumerate(shapes)) or 'empty'

    def setup(self, cx):
        toks, spec = build_factors(cx, self.seps, self.shapes, self.leading, self.numbers)
        S = State(spec=spec)
        S.args = (TokStr(toks),)
        S.globals = string_globals()
        return S

    def raises(self, cx, S, e):
        if e.exc == 'ZeroDivisionError':
            return z3.Or(*[f['den'] == 0 for f in S.spec])  # 'm_0': Fraction(1, 0)
        return False

    def ensures(self, cx, S, result):
        ok = isinstance(result, list) and len(result) == len(S.spec)
        goals = []
        if ok:
            for (base, power, isnumer), f in zip(result, S.spec):
                ok = ok and isinstance(base, TokStr) and len(base.tokens) == len(f['head']) and all(a is b for a, b in zip(base.tokens, f['head'])) \
                    and isinstance(isnumer, bool) and isnumer == f['numer'] and isinstance(power, (Frac, Fraction))
                if ok:
                    goals.append(frac_value(power) * z3.ToReal(f['den']) == z3.ToReal(f['num']))
        return [('base-exponent-and-side-of-every-factor', z3.And(z3.BoolVal(bool(ok)), *goals))]

    def replay(self, ob):
        return native('split_check()')


def contracts():
    cs = []
    cs += [FromPowers(n) for n in (0, 1, 2)] + [FromPowers(3, integer=True)]
    cs += [FromPowers(n, fn='SI:Dimension.__getattr__') for n in (0, 1, 2)] + [FromPowers(3, integer=True, fn='SI:Dimension.__getattr__')]
    cs += [FromPowersRejects(w) for w in ('not-a-dict', 'non-str-key', 'non-Fraction-power', 'float-power')]
    cs += [Canonical((1, 0))] + [Canonical(p, integer=True) for p in ((0, 2, 1), (1, 0, 2), (1, 2, 0), (2, 0, 1), (2, 1, 0))]
    cs += [Create(s) for s in Create.SHAPES if Create.SHAPES[s][1] != 'undecided']
    cs += [GetAttrOther(a) for a in ('unwrap', '[L', 'L]', '__wrapped__')]
    cs.append(SplitFactors((), ()))
    rot = 0
    for n in (1, 2, 3):
        import itertools
        for seps in itertools.product('*/', repeat=n - 1):
            for lead in (False, True):
                shapes = tuple(POWER_SHAPES[(rot + i) % 3] for i in range(n))
                numbers = tuple((rot + i) % 2 == 1 for i in range(n))
                rot += 1
                cs.append(SplitFactors(seps, shapes, lead, numbers))
    return cs


TRUSTED = ['token strings (pyvc/tokstr.py): str.split/rstrip/lstrip/partition/join/slicing/int()/float() decided from character classes; equality is structural',
           'fractions.Fraction: exact rational arithmetic; numerator/denominator are a function of the value (lowest terms, denominator >= 1)',
           'sorted(): stable insertion by the key order; str order on names is an arbitrary strict total order']
ASSUMPTIONS = ['base-dimension names satisfy what Dimension.create enforces (non-empty, no "*" "/", last character not a digit or "_"); the keys of a power map are pairwise distinct strings',
               'generators (_split_factors) are evaluated eagerly; the scenarios of Dimension.create contain no factor whose LATER evaluation would raise']
NOT_COVERED = ['power maps / unit strings with more than 3 factors; from_powers with 3 entries of non-integer powers',
               'malformed numbers in unit strings (float() raises ValueError, which parse propagates)']


# ---- quantities as (dimension vector, value) -----------------------------------------------------------------------------
# The arithmetic below is the CONTRACT of the Quantity operators (proved in C20.py / C20_ops.py: operator table -> dispatch
# handlers -> Dimension algebra, Dimension.wrap): mul adds, div subtracts, pow scales the exponents; a result of dimension
# zero is a bare float.  One symbolic object therefore stands for "a float or a Quantity": it IS a Quantity iff dim != 0.

KNOWN = z3.Function('units.defined', NAME, z3.BoolSort())
UVAL = z3.Function('units.value', NAME, z3.RealSort())
UDIM = [z3.Function('units.dimension%d' % i, NAME, z3.RealSort()) for i in range(NB)]


class Qty(Sym):
    def __init__(self, dim, val):
        self.dim, self.val = [z3.simplify(d) for d in dim], val
        self.attrs = {}

    def iszero(self):
        return z3.And(*[d == 0 for d in self.dim])

    def samedim(self, other):
        return z3.And(*[a == b for a, b in zip(self.dim, other.dim)])

    @staticmethod
    def lift(x):
        if isinstance(x, Qty):
            return x
        return Qty([z3.RealVal(0)] * NB, zreal(x))  # TypeError if not a number

    def binop(self, ctx, op, other, reflected):
        ctx.used_axioms.add('Quantity arithmetic by contract (C20 handlers + operator table + Dimension algebra): mul adds, div subtracts, pow scales exponents; dimension zero = bare float; float arithmetic read as real arithmetic')
        if op == '**' and not reflected:
            if isinstance(other, Frac):
                k = other.v
            elif isinstance(other, (int, Fraction)):
                k = zreal(other)
            else:
                return NotImplemented
            return Qty([d * k for d in self.dim], RPOW(self.val, k))
        if op in ('*', '/'):
            try:
                o = Qty.lift(other)
            except TypeError:
                return NotImplemented
            a, b = (o, self) if reflected else (self, o)
            if op == '*':
                return Qty([x + y for x, y in zip(a.dim, b.dim)], a.val * b.val)
            if not ctx.branch(b.val != 0):
                raise PyRaise('ZeroDivisionError')
            return Qty([x - y for x, y in zip(a.dim, b.dim)], a.val / b.val)
        return NotImplemented

    def isinstance_(self, ctx, types):
        r = []
        for t in types:
            if getattr(t, '__name__', None) == 'Quantity':
                r.append(z3.Not(self.iszero()))
            elif t is float:
                r.append(self.iszero())
            elif isinstance(t, QClass):
                r.append(z3.And(z3.Not(self.iszero()), *[a == b for a, b in zip(self.dim, t.dim)]))
        return z3.Or(*r) if r else False

    def pytype(self, ctx):
        return QClass(self.dim)

    def setattr(self, ctx, name, value):
        self.attrs[name] = value

    def getattr(self, ctx, name):
        if name in self.attrs:
            return self.attrs[name]
        if name == '__format__':
            if not ctx.entails(self.iszero()):
                raise Unsupported('__format__ of a value that may be a Quantity')
            return lambda ctx, spec: TokStr([Formatted(self.val, TokStr.of(spec))])
        raise PyRaise('AttributeError', note=name)

    def sym_str(self, ctx):
        return Repr(self)

    def truth(self, ctx):
        return self.val != 0


class Repr(Sym):
    def __init__(self, q):
        self.q = q


class Formatted(Atom):
    """float.__format__(value, spec): an opaque non-empty string determined by (value, spec)."""

    def __init__(self, val, spec):
        Atom.__init__(self, z3.Const('formatted', NAME), label='format(%s, %r)' % (val, spec))
        self.val, self.spec = val, spec


class QClass(Sym):
    """type(q) for q a Qty: the Dimension class with this exponent vector (`float` when it is zero)."""

    def __init__(self, dim, call=None):
        self.dim = list(dim)
        self.call_ = call

    def iszero(self):
        return z3.And(*[d == 0 for d in self.dim])

    def compare(self, ctx, op, other, reflected):
        if op in ('==', '!='):
            if isinstance(other, QClass):
                e = z3.And(*[a == b for a, b in zip(self.dim, other.dim)])
            elif isinstance(other, Builtin) and other.name == 'float':
                e = self.iszero()
            else:
                return op == '!='
            return SBool(e if op == '==' else z3.Not(e))
        return NotImplemented

    def identical(self, ctx, other):
        if isinstance(other, QClass):
            return SBool(z3.And(*[a == b for a, b in zip(self.dim, other.dim)]))
        return False

    def getattr(self, ctx, name):
        if name in ('__powers', '_Dimension__powers'):
            return Powers(self)
        if name == '__name__':
            return SOpaque('str')
        raise Unsupported('Dimension.' + name)

    def call(self, ctx, args, kwargs):
        if self.call_ is None:
            raise Unsupported('call of a Dimension class')
        return self.call_(ctx, self, *args, **kwargs)

    def truth(self, ctx):
        return z3.Not(self.iszero())


class Powers(Sym):
    def __init__(self, cls):
        self.cls = cls

    def truth(self, ctx):
        return z3.Not(self.cls.iszero())

    def unop(self, ctx, op):
        if op == 'not':
            return SBool(self.cls.iszero())
        raise Unsupported('unary %s on a power map' % op)


class UnitsV(Sym):
    """The unit table read by parse: an arbitrary map from names to values of arbitrary dimension."""

    def getattr(self, ctx, name):
        if isinstance(name, TokStr) and len(name.tokens) == 1 and type(name.tokens[0]) is Atom:
            t = name.tokens[0].term
            if ctx.branch(KNOWN(t)):
                ctx.assume(UVAL(t) != 0)
                return Qty([f(t) for f in UDIM], UVAL(t))
            raise PyRaise('AttributeError')
        if isinstance(name, (str, TokStr)) and not TokStr.of(name).tokens:
            raise PyRaise('AttributeError', note='the empty name is not a unit')
        raise Unsupported('unit lookup of %r' % (name,))


BOUND_UNITS = SplitFactors.bounded


def expected_parse(S, with_number=True):
    """(dim, value) of the unit expression by the property: product over the factors of (number * unit ** power) ** (+-1)."""
    dim = [z3.RealVal(0)] * NB
    val = S.number if (with_number and S.number is not None) else z3.RealVal(1)
    for f in S.spec:
        t = f['name'].term
        pw = z3.ToReal(f['num']) / z3.ToReal(f['den'])
        v = (f['number'] if f['number'] is not None else z3.RealVal(1)) * RPOW(UVAL(t), pw)
        if f['numer']:
            dim = [d + pw * g(t) for d, g in zip(dim, UDIM)]
            val = val * v
        else:
            dim = [d - pw * g(t) for d, g in zip(dim, UDIM)]
            val = val / v
    return dim, val


def unit_string(cx, S, seps, shapes, leading, numbers, number):
    toks, spec = build_factors(cx, seps, shapes, leading, numbers)
    S.spec = spec
    S.number = None
    head = []
    if number:
        S.number = cx.real('number')
        head = [Number(S.number, cx.const('number.text', NAME))]
    distinct_or_equal = None
    for f in spec:
        cx.assume(f['den'] != 0)
        if f['number'] is not None:
            cx.assume(f['number'] != 0)
    cx.assume(z3.ForAll([z3.Real('x!'), z3.Real('p!')], z3.Implies(z3.Real('x!') != 0, RPOW(z3.Real('x!'), z3.Real('p!')) != 0)),
              axiom='float_pow(x, p) != 0 for x != 0 (no underflow: float arithmetic read as real arithmetic)')
    S.unit_tokens = toks
    return TokStr(head + toks)


class Parse(Contract):
    prop = PROP
    fn = 'SI:parse'
    bounded = BOUND_UNITS

    def __init__(self, seps, shapes, leading=False, numbers=(), number=True):
        self.cfg = (seps, shapes, leading, numbers, number)
        self.label = ('N' if number else '') + SplitFactors(seps, shapes, leading, numbers).label

    def setup(self, cx):
        S = State()
        S.s = unit_string(cx, S, *self.cfg)
        S.args = (S.s,)
        S.globals = string_globals()
        S.globals.update({'units': UnitsV(), '_split_factors': InlineFn('SI:_split_factors'), 'Quantity': ClassRef('Quantity')})
        return S

    def all_known(self, S):
        return z3.And(*[KNOWN(f['name'].term) for f in S.spec]) if S.spec else z3.BoolVal(True)

    def raises(self, cx, S, e):
        if e.exc == 'ValueError':
            return z3.Not(self.all_known(S))
        return False

    def ensures(self, cx, S, result):
        try:
            r = Qty.lift(result)
        except TypeError:
            return [('value-and-dimension-of-the-unit-expression', z3.BoolVal(False))]
        dim, val = expected_parse(S)
        out = [('only-defined-units', self.all_known(S)),
               ('dimension-is-the-product-of-the-unit-dimensions', z3.And(*[a == b for a, b in zip(r.dim, dim)])),
               ('value-is-the-product-of-the-factor-values', r.val == val)]
        if isinstance(result, Qty):
            out.append(('a-quantity-remembers-its-spelling', z3.Implies(z3.Not(r.iszero()), z3.BoolVal(result.attrs.get('_parsed_from') is S.s))))
        return out

    def replay(self, ob):
        return native('parse_check()')


class Spec(Atom):
    pass


def spec_atom(cx):
    return Spec(cx.const('format-spec', NAME), alphabet='0123456789.,', label='spec')


class Format(Contract):
    prop = PROP
    fn = 'SI:Quantity.__format__'
    bounded = 'the unit part of the format spec is one abstract unit name or a two-factor quotient; precision part absent or an abstract string over "0123456789.,"'

    def __init__(self, has_spec, unit, same):
        self.has_spec, self.unit, self.same = has_spec, unit, same
        self.label = '%s%s,%s-dimension' % ('spec+' if has_spec else '', unit, 'same' if same else 'other')
        self.expect_return = same

    def setup(self, cx):
        S = State()
        S.dim = [cx.real('self.dim%d' % i) for i in range(NB)]
        cx.assume(z3.Or(*[d != 0 for d in S.dim]))  # a Quantity instance is dimensional
        S.val = cx.real('self.value')
        S.uval = cx.real('unit.value')
        S.calls = []

        def call(ctx, cls, value):
            # Dimension.__call__ (contract CallCheck in C20.py): a quantity of cls's own dimension, or DimensionError
            S.calls.append(value)
            if not self.same:
                raise PyRaise('DimensionError')
            return Qty(cls.dim, S.uval)
        me = Qty(S.dim, S.val)
        me.pytype = lambda ctx: QClass(S.dim, call)
        toks = [unit_name(cx, 'unit')] if self.unit == 'u' else [unit_name(cx, 'unit'), Lit('/'), unit_name(cx, 'unit2'), Digits(cx.int('n'))]
        S.unit = toks
        S.spec = [spec_atom(cx)] if self.has_spec else []
        S.args = (me, TokStr(S.spec + toks))
        S.globals = string_globals()
        return S

    def raises(self, cx, S, e):
        if e.exc == 'ZeroDivisionError':
            return S.uval == 0
        return e.exc == 'DimensionError' and not self.same

    def ensures(self, cx, S, result):
        if not self.same:
            return [('unit-of-another-dimension-rejected', z3.BoolVal(False))]
        return format_clauses(S, result, S.val / S.uval)

    def replay(self, ob):
        return native('format_check()')


def format_clauses(S, result, value):
    ok = isinstance(result, TokStr) and len(result.tokens) == 1 + len(S.unit) and isinstance(result.tokens[0], Formatted) \
        and all(a is b for a, b in zip(result.tokens[1:], S.unit))
    if ok:
        f = result.tokens[0]
        want = TokStr(S.spec + [Lit('f')])
        ok = f.spec.struct_eq(want) is True
    return [('number-formatted-with-<spec>f-followed-by-the-unit', z3.BoolVal(bool(ok))),
            ('formatted-number-is-the-value-in-that-unit', (result.tokens[0].val == value) if ok else z3.BoolVal(False))]


class FormatEmpty(Contract):
    prop = PROP
    fn = 'SI:Quantity.__format__'
    label = 'empty-spec'

    def setup(self, cx):
        S = State()
        S.me = Qty([cx.real('self.dim%d' % i) for i in range(NB)], cx.real('self.value'))
        S.args = (S.me, '')
        S.globals = string_globals()
        S.globals['repr'] = lambda ctx, x: Repr(x)
        return S

    def ensures(self, cx, S, result):
        return [('repr-for-an-empty-spec', z3.BoolVal(isinstance(result, Repr) and result.q is S.me))]


class RoundTrip(Contract):
    """format(parse(<number><unit>), <spec><unit>) == format(<number>, <spec>f) + <unit>: parse, __format__ and
    Dimension.__call__ (which parses the unit again), real bodies, with the real _split_factors."""
    prop = PROP
    fn = 'SI:Quantity.__format__'
    bounded = BOUND_UNITS

    def __init__(self, seps, shapes, leading=False, numbers=()):
        self.cfg = (seps, shapes, leading, numbers, True)
        self.label = 'roundtrip:N' + SplitFactors(seps, shapes, leading, numbers).label

    def setup(self, cx):
        S = State()
        S.s = unit_string(cx, S, *self.cfg)
        S.unit = S.unit_tokens
        S.factors = S.spec
        S.spec = [spec_atom(cx)]
        S.globals = string_globals()
        S.globals.update({'units': UnitsV(), '_split_factors': InlineFn('SI:_split_factors'), 'Quantity': ClassRef('Quantity'),
                          'parse': InlineFn('SI:parse')})
        return S

    def body(self, cx, S, call):
        q = call('SI:parse', S.s)
        if not isinstance(q, Qty):
            raise Unsupported('parse returned %r' % (q,))
        cx.assume(z3.Not(q.iszero()))  # scenario: the string spells a dimensional quantity (a bare float formats as a float)
        S.q = q

        def dimension_call(ctx, cls, value):
            return call('SI:Dimension.__call__', cls, value)
        q.pytype = lambda ctx: QClass(q.dim, dimension_call)
        return call('SI:Quantity.__format__', q, TokStr(S.spec + S.unit))

    def raises(self, cx, S, e):
        if e.exc == 'ValueError':
            return z3.Not(z3.And(*[KNOWN(f['name'].term) for f in S.factors])) if S.factors else False
        return False

    def ensures(self, cx, S, result):
        return format_clauses(S, result, S.number)

    def replay(self, ob):
        return native('roundtrip_check()')


# ---- Units.__setattr__ -----------------------------------------------------------------------------------------------------

SI_PREFIXES = dict(Y=24, Z=21, E=18, P=15, T=12, G=9, M=6, k=3, h=2, d=-1, c=-2, m=-3, μ=-6, n=-9, p=-12, f=-15, a=-18, z=-21, y=-24)  # all SI prefixes except deca


def prefix_table(module, cls, attr):
    node = extract.class_assign(module, cls, attr)
    if not (isinstance(node, ast.Call) and isinstance(node.func, ast.Name) and node.func.id == 'dict' and not node.args):
        raise Unsupported('%s.%s is not a dict(...) literal' % (cls, attr))
    return {k.arg: ast.literal_eval(k.value) for k in node.keywords}


class UnitTable(Sym):
    """`self` of Units.__setattr__: a dict of which only membership of the new name and of its prefixed forms matters."""

    def __init__(self, cx, name_atom, prefixes):
        self.atom = name_atom
        self.has_name = cx.bool('name-already-defined')
        self.has_prefixed = {p: cx.bool('defined:%s+name' % p) for p in prefixes}
        self.prefixes = prefixes
        self.stored = []
        self.updates = []

    def member(self, key):
        toks = TokStr.of(key).tokens
        if len(toks) == 1 and toks[0] is self.atom:
            return self.has_name
        if len(toks) == 2 and isinstance(toks[0], Lit) and toks[1] is self.atom and toks[0].text in self.has_prefixed:
            return self.has_prefixed[toks[0].text]
        raise Unsupported('membership of %r in the unit table' % (key,))

    def contains(self, ctx, key):
        return SBool(self.member(key))

    def getattr(self, ctx, name):
        if name in ('__prefix', '_Units__prefix'):
            return dict(self.prefixes)
        if name == 'update':
            return lambda ctx, d: self.updates.append(d)
        raise Unsupported('Units.' + name)

    def setitem(self, ctx, key, value):
        self.stored.append((key, value))


class KeySet(Sym):
    def __init__(self, keys=None, table=None):
        self.keys, self.table = keys, table

    def binop(self, ctx, op, other, reflected):
        if op == '&' and isinstance(other, KeySet):
            a, b = (self, other) if self.keys is not None else (other, self)
            if a.keys is None or b.table is None:
                raise Unsupported('set intersection')
            return Collisions([b.table.member(k) for k in a.keys])
        return NotImplemented


class Collisions(Sym):
    def __init__(self, conds):
        self.conds = conds

    def truth(self, ctx):
        return z3.Or(*self.conds) if self.conds else False


def py_set_units(ctx, it=()):
    if isinstance(it, UnitTable):
        return KeySet(table=it)
    if isinstance(it, dict):
        return KeySet(keys=list(it))
    raise Unsupported('set(%r)' % (it,))


class UnitsSetAttr(Contract):
    prop = PROP
    fn = 'SI:Units.__setattr__'

    def __init__(self, kind):
        self.kind = kind  # 'quantity' | 'str' | 'other'
        self.label = 'value=' + kind
        self.expect_return = kind != 'other'

    def setup(self, cx):
        S = State()
        S.prefixes = prefix_table('SI', 'Units', '__prefix')
        S.atom = unit_name(cx, 'name')
        S.table = UnitTable(cx, S.atom, S.prefixes)
        S.q = Qty([cx.real('value.dim%d' % i) for i in range(NB)], cx.real('value.value'))
        S.parsed = []
        if self.kind == 'quantity':
            cx.assume(z3.Not(S.q.iszero()))
            value = S.q
        elif self.kind == 'str':
            value = TokStr([unit_name(cx, 'definition')])
        else:
            value = SInt(cx.int('value'))

        def parse(ctx, s):
            S.parsed.append(s)
            return S.q
        S.value = value
        S.args = (S.table, TokStr([S.atom]), value)
        S.globals = string_globals()
        S.globals.update({'parse': parse, 'Quantity': ClassRef('Quantity'), 'set': py_set_units})
        return S

    def collide(self, S):
        return z3.Or(S.table.has_name, *S.table.has_prefixed.values())

    def raises(self, cx, S, e):
        if e.exc == 'ValueError':
            return self.collide(S)
        return e.exc == 'TypeError' and self.kind == 'other'

    def ensures(self, cx, S, result):
        t = S.table
        ok = len(t.stored) == 1 and TokStr.of(t.stored[0][0]).struct_eq(TokStr([S.atom])) is True and t.stored[0][1] is S.q and len(t.updates) == 1 and isinstance(t.updates[0], dict) \
            and (self.kind != 'str' or (len(S.parsed) == 1 and S.parsed[0] is S.value))
        goals = []
        if ok:
            d = t.updates[0]
            found = {}
            for k, v in d.items():
                toks = TokStr.of(k).tokens
                if len(toks) == 2 and isinstance(toks[0], Lit) and toks[1] is S.atom and isinstance(v, Qty):
                    found[toks[0].text] = v
                else:
                    ok = False
            ok = ok and set(found) == set(SI_PREFIXES) and len(d) == len(SI_PREFIXES)
            if ok:
                for p, e in SI_PREFIXES.items():
                    goals.append(found[p].samedim(S.q))
                    goals.append(found[p].val == S.q.val * z3.RealVal(Fraction(10) ** e))
        return [('defined-only-if-no-reading-collides', z3.Not(self.collide(S))),
                ('name-and-every-SI-prefixed-form-defined-with-the-scaled-value', z3.And(z3.BoolVal(bool(ok)), *goals))]

    def replay(self, ob):
        return native('setattr_check()')


def wellformed_names():
    """Ground: the unit and base-dimension names defined in SI.py satisfy the character-class invariants assumed above."""
    src, tree = extract.module_ast('SI')
    names = []
    for n in tree.body:
        if isinstance(n, ast.Assign) and len(n.targets) == 1:
            t = n.targets[0]
            if isinstance(t, ast.Attribute) and isinstance(t.value, ast.Name) and t.value.id == 'units':
                names.append(('unit', t.attr))
            elif isinstance(t, ast.Subscript) and isinstance(t.value, ast.Name) and t.value.id == 'units' and isinstance(t.slice, ast.Constant):
                names.append(('unit', t.slice.value))
            if isinstance(n.value, ast.Call) and ast.unparse(n.value.func) == 'Dimension.create' and n.value.args and isinstance(n.value.args[0], ast.Constant):
                names.append(('base', n.value.args[0].value))
    obs = []
    for kind, nm in names:
        ok = isinstance(nm, str) and bool(nm) and not (set(nm) & set('*/')) and nm[-1] not in '0123456789_' and (kind == 'base' or nm[0] not in '+-0123456789.,')
        obs.append(Obligation('C20/SI:names/%s/%s' % (kind, nm), [], z3.BoolVal(ok), 'ground', fn='SI:names', clause='wellformed-%s-name:%s' % (kind, nm), info={'name': nm}))
    try:
        ok = {k: Fraction(repr(v)) for k, v in prefix_table('SI', 'Units', '__prefix').items()} == {k: Fraction(10) ** e for k, e in SI_PREFIXES.items()}
    except Unsupported:
        ok = False
    obs.append(Obligation('C20/SI:Units.__prefix/SI-prefixes', [], z3.BoolVal(ok), 'ground', fn='SI:Units.__prefix', clause='prefix-table-is-the-SI-table'))
    return obs


def extra_obligations():
    return wellformed_names()


_base_contracts = contracts


def contracts():  # noqa: F811
    cs = _base_contracts()
    import itertools
    rot = 0
    cs.append(Parse((), (), number=True))
    cs.append(Parse((), (), leading=True, number=False))
    for n in (1, 2, 3):
        for seps in itertools.product('*/', repeat=n - 1):
            for lead in (False, True):
                shapes = tuple(POWER_SHAPES[(rot + i) % 3] for i in range(n))
                numbers = tuple((rot + i) % 2 == 1 for i in range(n)) if n < 3 else ()
                cs.append(Parse(seps, shapes, lead, numbers, number=rot % 3 != 2))
                rot += 1
    cs += [Format(sp, u, same) for sp in (True, False) for u in ('u', 'u/uN') for same in (True, False)] + [FormatEmpty()]
    cs += [RoundTrip((), ('none',)), RoundTrip((), ('int',)), RoundTrip(('/',), ('none', 'int')), RoundTrip(('*',), ('int', 'frac')),
           RoundTrip(('/',), ('none', 'none'), numbers=(False, True)), RoundTrip(('*', '/'), ('none', 'none', 'int'))]
    cs += [UnitsSetAttr(k) for k in ('quantity', 'str', 'other')]
    return cs


ASSUMPTIONS += ['unit names contain no "*" "/", do not start with a character of "+-0123456789.," and do not end in a digit or "_" (ground-checked for the names SI.py defines)',
                'unit values, the numbers inside a unit string and denominators of exponents are non-zero; float arithmetic is read as exact real arithmetic, float ** Fraction as an uninterpreted function that is non-zero on non-zero bases',
                'numbers in unit strings are well-formed float literals over "+-0123456789."']
NOT_COVERED += ['rounding: in floating point parse/format round-trips only up to rounding of the multiplications and divisions by the unit value',
                'the text float.__format__ produces (an opaque function of value and spec)']
