"""C12 (second round, parts 3 and 4) -- BOUNDED native stand-ins (exhaustive enumeration of small cases on the REAL code, native/c12d.py).

element get_edge_dofs          line / triangle / tetrahedron (SimplexReference) and square / cube / prism (TensorReference), degree 1..3:
                               the edge dofs are exactly the local functions whose trace on the edge is not identically zero, evaluated
                               from the real bernstein AND lagrange coefficient tables on the unisolvent lattice of the edge (float
                               evaluation by nutils_poly, threshold 1e-9 relative to the largest coefficient); strictly increasing;
                               TensorReference rejects an edge index out of range
_basis_c0_structured           rectilinear 1-D / 2-D topologies (<= 4 x 3 elements, periodic or not), lagrange and bernstein, degree 1..3:
                               two local functions get the same dof exactly when their Lagrange nodes coincide (modulo the period); the dofs
                               are exactly range(ndofs).  The family WITHOUT a periodic direction of exactly two elements is active; the
                               two-element periodic family FAILS on the unchanged tree (candidate defect, notes/C12-c12b.md) and is PARKED
StructuredTopology._basis_spline  1-D, degree 1..3, 1..4 elements, every multiplicity vector, two knot vectors, periodic or not (1260 cases):
                               ndofs; element e touches p+1 consecutive dofs starting at the multiplicity prefix sum, modulo the period for a
                               periodic axis (wrap-around of the last p - m0 + 1 .. dofs); dofs in range; get_support is the inverse; and every
                               local knot vector handed to _localsplinebasis is the MULTIPLICITY-EXPANDED knot vector around the element
                               (wrapped knots shifted by the period) -- exact arithmetic on small-integer knot values; the start/stop tables handed to
                               StructuredBasis satisfy the invariant its get_support contract assumes (non-decreasing, 0 <= start, stop[-1] >= ndofs, p+1 per element)
"""
from pyvc.native import NativeBounded

PROP = 'C12'


class EdgeDofs(NativeBounded):
    prop = PROP
    module = 'c12d'
    label = 'native-enumeration'
    clauses = ('edge-dofs-are-the-functions-not-vanishing-on-the-edge', 'edge-dofs-strictly-increasing', 'edge-index-out-of-range-rejected')

    def __init__(self, kind):
        self.fn = 'element:%sReference.get_edge_dofs' % ('Simplex' if kind == 'simplex' else 'Tensor')
        self.call = 'edge_dofs(%r)' % kind
        self.bounded = 'exhaustive native enumeration: %s, degree 1..3, every edge, bernstein and lagrange tables' % ('line, triangle, tetrahedron' if kind == 'simplex' else 'square, cube, prism')
        if kind == 'simplex':
            self.clauses = self.clauses[:2]


class C0Merge(NativeBounded):
    prop = PROP
    fn = 'topology:TransformChainsTopology._basis_c0_structured'
    module = 'c12d'
    clauses = ('coinciding-nodes-share-one-dof', 'distinct-nodes-have-distinct-dofs', 'dofs-are-exactly-range-ndofs')

    def __init__(self, two):
        self.label = 'native-enumeration' + ('+two-element-periodic' if two else '')
        self.call = 'c0_merge(%r)' % two
        self.bounded = ('exhaustive native enumeration: rectilinear topologies of native/c12d.py:C0_FAMILY %s a periodic direction of exactly two elements, lagrange/bernstein, degree 1..3'
                        % ('WITH' if two else 'without'))


class SplineDofs(NativeBounded):
    prop = PROP
    fn = 'topology:StructuredTopology._basis_spline'
    module = 'c12d'
    label = 'native-enumeration'
    call = 'spline_dofs()'
    bounded = 'exhaustive native enumeration: 1-D, degree 1..3, 1..4 elements, all knot multiplicities in 1..p+1, uniform and non-uniform integer knots, periodic and not (1260 cases)'
    clauses = ('number-of-dofs', 'element-touches-p+1-consecutive-dofs-modulo-the-period', 'dofs-in-range', 'support-is-the-inverse-of-the-dof-lists', 'local-knot-vectors-are-multiplicity-expanded',
               'tables-satisfy-the-invariant-assumed-for-StructuredBasis')


class DiscontPartition(NativeBounded):
    """_DiscontinuousPartitionBasis (Basis.discontinuous_at_partition_interfaces): one new dof per distinct (part, parent dof) pair, element dof
    lists are the images of the parent's, coefficients unchanged, get_support is the inverse of get_dofs and stays inside one part -- for every
    assignment of the elements of 5 small meshes to <= 3 parts, incl. descending and gapped part numbers (BOUNDED native enumeration)."""
    prop = PROP
    fn = 'function:_DiscontinuousPartitionBasis.__init__'
    module = 'c12d'
    label = 'native-enumeration'
    call = 'discont_partition()'
    bounded = 'exhaustive native enumeration: 1-D (3, 4 elements; std degree 1, 2; spline degree 2) and 2x2 meshes, every part assignment over {0, 1, 3} (243 cases)'
    clauses = ('dofs-are-the-distinct-(part,parent-dof)-pairs', 'coefficients-are-the-parents', 'support-is-the-inverse-of-the-dof-lists', 'support-lies-inside-one-part')


# candidate defect (notes/C12-c12b.md, D3): with exactly two elements in a periodic direction the two elements share TWO interfaces and
# util.index(self.connectivity[jelem], ielem) picks the first one for both, so the wrong sides are merged.  Fails on the unchanged tree.
PARKED = []


def contracts():
    return [EdgeDofs('simplex'), EdgeDofs('tensor'), C0Merge(False), SplineDofs(), DiscontPartition(), C0Merge(True)]  # C0Merge(True): recorded KNOWN FINDING (carve-out: C0Merge(False))
