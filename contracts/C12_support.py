"""C12 -- Basis._computed_support and the int/array dispatch of Basis.get_support / Basis.get_dofs.

Basis._computed_support   (two nested loops, loop invariants, any number of elements / dofs / dofs per element)
  requires   get_dofs(e) for 0 <= e < nelems is a 1-D int array with entries in [0, ndofs)   (class invariant, ASSUMED;
             repetitions and any order are allowed)
  ensures    result has ndofs items; every support[d] is strictly increasing;
             e in support[d]  <=>  0 <= e < nelems and d in get_dofs(e)                         ("mutual inverses")
             the callee is only asked for elements in range.

function._int_or_vec       (the body behind the decorators of get_support / get_dofs in the base class and its subclasses)
  int argument            f is called with the NORMALISED index (a + nargs for a < 0); IndexError exactly when outside [-nargs, nargs)
  bool mask               IndexError unless shape == (nargs,); otherwise treated as its nonzero positions
  int array               empty -> empty int array; IndexError exactly when some entry is outside [0, nargs) (negative entries are
                          NOT wrapped); otherwise the element set of the result is the union of f(a) over the entries a, and the
                          result is strictly increasing when more than one distinct entry is given or f returns strictly increasing arrays
  anything else           IndexError
"""
import z3
from pyvc.contract import Contract, State
from pyvc.values import SInt, SBool, SObj, SOpaque, Sym, Unsupported, PyRaise, zint, is_intlike
from pyvc.nparr import Vec, Numpy, qforall, qexists, I, DType
from pyvc.interp import Loop, LazyGen
from pyvc.nested import NestedIntLists, Row
from pyvc import npsets, ops

PROP = 'C12'
B = z3.BoolSort()
HERE = __import__('os').path.dirname(__import__('os').path.dirname(__import__('os').path.abspath(__file__)))


def native(call):
    return "import sys; sys.path.insert(0, %r)\nfrom native import c12b\nc12b.%s\n" % (HERE, call)


class Types:
    """nutils.types: frozenarray(x, dtype=int) of a list of ints / an int array is that array (immutability is not modelled)."""

    def sym_getattr(self, ctx, name):
        if name == 'frozenarray':
            def frozenarray(ctx, x, dtype=None, copy=True):
                if isinstance(x, Row):
                    n, sel = x.snapshot()
                    return Vec('int', n, sel, 'frozenarray(%r)' % x)
                if isinstance(x, Vec):
                    return x
                raise Unsupported('types.frozenarray of %r' % (x,))
            return frozenarray
        raise Unsupported('types.' + name)


def sym_tuple(ctx, it=()):
    """tuple(<generator over a symbolic-length sequence>): the mapped sequence.  Items are evaluated when read; the functions
    under contract return the tuple at once, so nothing can change in between."""
    if isinstance(it, LazyGen):
        m = it.as_mapped(ctx)
        if m is not None:
            return m
    return ops.py_tuple(ctx, it)


class ComputedSupport(Contract):
    prop = PROP
    fn = 'function:Basis._computed_support'

    def __init__(self):
        C = self

        def common(S, sup, upto, le):
            """A (items are elements below `upto` that have the dof), B (strictly increasing), C (complete below i; ghost POS), L"""
            nd, HAS = S.nd, S.HAS
            LEN, EL, POS = sup.len_f, sup.el_f, sup.pos_f
            bound = (lambda x: x <= upto) if le else (lambda x: x < upto)
            return [sup.n == nd,
                    qforall(1, lambda d: z3.Implies(z3.And(0 <= d, d < nd), LEN(d) >= 0)),
                    qforall(2, lambda d, k: z3.Implies(z3.And(0 <= d, d < nd, 0 <= k, k < LEN(d)), z3.And(0 <= EL(d, k), bound(EL(d, k)), HAS(EL(d, k), d)))),
                    qforall(3, lambda d, k1, k2: z3.Implies(z3.And(0 <= d, d < nd, 0 <= k1, k1 < k2, k2 < LEN(d)), EL(d, k1) < EL(d, k2)))]

        def complete(S, sup, upto):
            nd, HAS = S.nd, S.HAS
            LEN, EL, POS = sup.len_f, sup.el_f, sup.pos_f
            return qforall(2, lambda d, e: z3.Implies(z3.And(0 <= d, d < nd, 0 <= e, e < upto, HAS(e, d)), z3.And(0 <= POS(d, e), POS(d, e) < LEN(d), EL(d, POS(d, e)) == e)))

        def inv_elems(cx, env, i):
            S = C.S
            sup = env.lookup('support')
            if not isinstance(sup, NestedIntLists):
                raise Unsupported('support is %r' % (sup,))
            return z3.And(*(common(S, sup, i, False) + [complete(S, sup, i)]))

        def inv_dofs(cx, env, j):
            S = C.S
            sup = env.lookup('support')
            i = zint(env.lookup('ielem'))
            u = cx.loop_iterable
            if not (isinstance(u, Vec) and u.kind == 'int' and isinstance(sup, NestedIntLists)):
                raise Unsupported('inner loop over %r' % (u,))
            nd, HAS = S.nd, S.HAS
            LEN, EL, POS = sup.len_f, sup.el_f, sup.pos_f
            Bj = z3.If(j < u.n, u.sel(j), nd)  # dofs of this element below Bj have been served (the iterable is increasing)
            return z3.And(*(common(S, sup, i, True) + [
                complete(S, sup, i),
                qforall(1, lambda d: z3.Implies(z3.And(0 <= d, d < nd, HAS(i, d), d < Bj), z3.And(LEN(d) >= 1, EL(d, LEN(d) - 1) == i, POS(d, i) == LEN(d) - 1))),
                qforall(2, lambda d, k: z3.Implies(z3.And(0 <= d, d < nd, 0 <= k, k < LEN(d), EL(d, k) == i), z3.And(HAS(i, d), d < Bj)))]))

        self.loops = {0: Loop(inv_elems, label='elements', match='in range(self.nelems', extra_modifies=('support',)),
                      1: Loop(inv_dofs, label='dofs', match='get_dofs(ielem)', extra_modifies=('support',))}

    def setup(self, cx):
        nd, ne = cx.int('ndofs'), cx.int('nelems')
        cx.assume(z3.And(nd >= 0, ne >= 0))
        NDOFS = z3.Function('len_get_dofs', I, I)
        DOFS = z3.Function('get_dofs', I, I, I)
        HAS = z3.Function('elem_has_dof', I, I, B)
        wit = z3.Function('dof_position', I, I, I)
        cx.assume(qforall(1, lambda e: NDOFS(e) >= 0))
        # class invariant (ASSUMED): dofs in range
        cx.assume(qforall(2, lambda e, k: z3.Implies(z3.And(0 <= e, e < ne, 0 <= k, k < NDOFS(e)), z3.And(0 <= DOFS(e, k), DOFS(e, k) < nd))))
        # definition of  d in get_dofs(e)  (Skolemised)
        cx.assume(qforall(2, lambda e, k: z3.Implies(z3.And(0 <= k, k < NDOFS(e)), HAS(e, DOFS(e, k)))))
        cx.assume(qforall(2, lambda e, d: z3.Implies(HAS(e, d), z3.And(0 <= wit(e, d), wit(e, d) < NDOFS(e), DOFS(e, wit(e, d)) == d))))
        S = State(nd=nd, ne=ne, NDOFS=NDOFS, DOFS=DOFS, HAS=HAS)
        self.S = S

        def get_dofs(ctx, s, ielem):
            if not is_intlike(ielem):
                raise Unsupported('get_dofs(%r)' % (ielem,))
            e = zint(ielem)
            ctx.oblige('callee-precondition:get_dofs-element-in-range', z3.And(0 <= e, e < ne), kind='safety')
            return Vec('int', NDOFS(e), lambda k: DOFS(e, k), 'get_dofs(%s)' % e)
        me = SObj('Basis', attrs=dict(ndofs=SInt(nd), nelems=SInt(ne)), methods={'get_dofs': get_dofs})
        S.args = (me,)
        S.globals = {'numpy': Numpy(extra={'unique': npsets.np_unique}), 'types': Types(), 'tuple': sym_tuple}
        return S

    def ensures(self, cx, S, result):
        if not hasattr(result, 'seq_at') or isinstance(result, (list, tuple)):
            raise Unsupported('returned %r' % (result,))
        nd, ne, HAS = S.nd, S.ne, S.HAS

        def row(d):
            r = result.seq_at(cx, d)
            if not (isinstance(r, Vec) and r.kind == 'int'):
                raise Unsupported('support item %r' % (r,))
            return r
        return [('one-support-per-dof', result.seq_len(cx) == nd),
                ('supports-strictly-increasing', qforall(3, lambda d, a, b: z3.Implies(z3.And(0 <= d, d < nd, 0 <= a, a < b, b < row(d).n), row(d).sel(a) < row(d).sel(b)))),
                ('support-items-are-elements-having-the-dof', qforall(2, lambda d, k: z3.Implies(z3.And(0 <= d, d < nd, 0 <= k, k < row(d).n),
                                                                                                    z3.And(0 <= row(d).sel(k), row(d).sel(k) < ne, HAS(row(d).sel(k), d))))),
                ('every-element-having-the-dof-is-in-its-support', qforall(2, lambda d, e: z3.Implies(z3.And(0 <= d, d < nd, 0 <= e, e < ne, HAS(e, d)),
                                                                                                         qexists(1, lambda k: z3.And(0 <= k, k < row(d).n, row(d).sel(k) == e)))))]

    def replay(self, ob):
        return native('run_computed_support()')



# ------------------------------------------------------------------------------------------------ _int_or_vec

class ArrArg(Vec):
    """a numpy array passed as the argument: not a numbers.Integral; `.nonzero()` of a bool array"""

    def isinstance_(self, ctx, types):
        if all(t in (int, float, bool, complex, str) for t in types):
            return False
        raise Unsupported('isinstance of an array against %r' % (types,))

    def getattr(self, ctx, name):
        if name == 'nonzero' and self.kind == 'bool':
            return lambda ctx: (npsets.np_nonzero(ctx, self),)
        return super().getattr(ctx, name)


class Numbers:
    def sym_getattr(self, ctx, name):
        if name == 'Integral':
            return ops.Builtin('int')
        raise Unsupported('numbers.' + name)


class Functools:
    def sym_getattr(self, ctx, name):
        if name == 'reduce':
            def reduce(ctx, fn, seq, *initial):
                if fn is not npsets.np_union1d or len(initial) > 1:
                    raise Unsupported('functools.reduce of %r' % (fn,))
                S = ctx.c12_state
                S.reduced = seq
                return npsets.reduce_union1d(ctx, seq, *initial)
            return reduce
        raise Unsupported('functools.' + name)


class Numeric:
    """nutils.numeric: normdim is executed from its real source; isintarray / isboolarray are dtype tests."""

    def sym_getattr(self, ctx, name):
        if name == 'normdim':
            from pyvc import extract
            node = extract.get('numeric:normdim').node
            return lambda ctx, n, i: ctx.interp.call_function(node, [n, i], {})
        if name == 'isboolarray':
            return lambda ctx, a: (isinstance(a, Vec) and a.kind == 'bool') or (isinstance(a, SObj) and a.attrs.get('kind') == 'bool')
        if name == 'isintarray':
            return lambda ctx, a: (isinstance(a, Vec) and a.kind == 'int') or (isinstance(a, SObj) and a.attrs.get('kind') == 'int')
        raise Unsupported('numeric.' + name)


def np_array(ctx, x, dtype=None):
    if isinstance(x, list) and not x:
        from pyvc.nparr import _kind_of_dtype
        return Vec(_kind_of_dtype(ctx, dtype), z3.IntVal(0), lambda i: z3.IntVal(0), 'empty-array')
    raise Unsupported('numpy.array(%r)' % (x,))


class IntOrVec(Contract):
    """function._int_or_vec: the dispatch behind get_support / get_dofs (see the module docstring)."""
    prop = PROP
    fn = 'function:_int_or_vec'

    def __init__(self, scenario):
        self.scenario = scenario
        self.label = scenario
        self.expect_return = scenario not in ('intarray2d', 'other')  # those must always raise IndexError

    def setup(self, cx):
        sc = self.scenario
        nargs = cx.int('nargs')
        cx.assume(nargs >= 0)
        FLEN = z3.Function('len_f', I, I)
        FV = z3.Function('f', I, I, I)
        VAL = z3.Function('in_f', I, I, B)      # VAL(a, x)  <=>  x in f(a)
        vw = z3.Function('in_f.position', I, I, I)
        cx.assume(qforall(1, lambda a: FLEN(a) >= 0))
        cx.assume(qforall(2, lambda a, k: z3.Implies(z3.And(0 <= k, k < FLEN(a)), VAL(a, FV(a, k)))))
        cx.assume(qforall(2, lambda a, x: z3.Implies(VAL(a, x), z3.And(0 <= vw(a, x), vw(a, x) < FLEN(a), FV(a, vw(a, x)) == x))))
        S = State(nargs=nargs, FLEN=FLEN, FV=FV, VAL=VAL, calls=[], reduced=None, sc=sc)
        cx.c12_state = S
        if sc.endswith('+sorted-f'):
            cx.assume(qforall(3, lambda a, k1, k2: z3.Implies(z3.And(0 <= k1, k1 < k2, k2 < FLEN(a)), FV(a, k1) < FV(a, k2))))

        def f(ctx, a):
            if not is_intlike(a):
                raise Unsupported('f(%r)' % (a,))
            e = zint(a)
            S.calls.append(e)
            return Vec('int', FLEN(e), lambda k: FV(e, k), 'f(%s)' % e)
        base = sc.split('+')[0]
        if base == 'int':
            a = cx.int('arg')
            S.a = a
            arg = SInt(a)
        elif base == 'intarray':
            v = Vec.fresh(cx, 'arg', 'int', probes=3)
            arg = ArrArg('int', v.n, v._sel, 'arg')
            S.arr = arg
            SELp = z3.Function('is_entry', I, B)  # SELp(x) <=> x in arg  (Skolemised definition)
            sw = z3.Function('is_entry.position', I, I)
            cx.assume(qforall(1, lambda m: z3.Implies(z3.And(0 <= m, m < arg.n), SELp(arg.sel(m)))))
            cx.assume(qforall(1, lambda x: z3.Implies(SELp(x), z3.And(0 <= sw(x), sw(x) < arg.n, arg.sel(sw(x)) == x))))
            S.SEL = lambda x: SELp(x)
        elif base == 'boolmask':
            v = Vec.fresh(cx, 'arg', 'bool', probes=3)
            arg = ArrArg('bool', v.n, v._sel, 'arg')
            S.arr = arg
            S.SEL = lambda x: z3.And(0 <= x, x < arg.n, arg.sel(x))
        elif base == 'intarray2d':
            arg = SObj('ndarray', attrs=dict(kind='int', ndim=2, shape=(SInt(cx.int('shape0')), SInt(cx.int('shape1')))))
        else:
            arg = SObj('str', attrs=dict(kind='other'))
        S.args = (f, arg, 'dof', SInt(nargs), SInt(cx.int('nvals')))
        S.globals = {'numbers': Numbers(), 'numeric': Numeric(), 'functools': Functools(), 'isint': lambda ctx, x: is_intlike(x),
                     'numpy': Numpy(extra={'unique': npsets.np_unique, 'union1d': npsets.np_union1d, 'array': np_array})}
        return S

    def raises(self, cx, S, e):
        if e.exc.split(':')[0] != 'IndexError':
            return False
        base, n = S.sc.split('+')[0], S.nargs
        if base == 'int':
            return z3.Not(z3.And(-n <= S.a, S.a < n))
        if base == 'intarray':
            return S.arr.exists(lambda k, x: z3.Or(x < 0, x >= n))
        if base == 'boolmask':
            return S.arr.n != n
        return True

    def ensures(self, cx, S, result):
        base, n, FLEN, FV, VAL = S.sc.split('+')[0], S.nargs, S.FLEN, S.FV, S.VAL
        if not (isinstance(result, Vec) and result.kind == 'int'):
            raise Unsupported('returned %r' % (result,))
        if base == 'int':
            na = z3.If(S.a < 0, S.a + n, S.a)
            return [('index-in-range', z3.And(-n <= S.a, S.a < n)),
                    ('f-called-once-with-the-normalised-index', z3.And(len(S.calls) == 1, *[c == na for c in S.calls])),
                    ('returns-f-of-the-normalised-index', z3.And(result.n == FLEN(na), qforall(1, lambda k: z3.Implies(z3.And(0 <= k, k < result.n), result.sel(k) == FV(na, k)))))]
        if base in ('intarray2d', 'other'):
            return [('must-raise-IndexError', z3.BoolVal(False))]
        arr, SEL = S.arr, S.SEL
        out = []
        if base == 'intarray':
            out.append(('entries-in-range', arr.forall(lambda k, x: z3.And(0 <= x, x < n))))
        else:
            out.append(('mask-has-one-entry-per-index', arr.n == n))
        if S.reduced is not None:
            seq = S.reduced
            src = getattr(seq, 'src', None)
            if not (isinstance(src, Vec) and src.kind == 'int'):
                raise Unsupported('reduce over %r' % (seq,))
            out.append(('f-only-called-with-indices-in-range', src.forall(lambda m, x: z3.And(0 <= x, x < n))))
        out += [('result-items-come-from-f-of-a-selected-index', qforall(1, lambda j: z3.Implies(z3.And(0 <= j, j < result.n), qexists(1, lambda a: z3.And(SEL(a), VAL(a, result.sel(j))))))),
                ('every-item-of-f-of-a-selected-index-is-in-the-result', qforall(2, lambda a, x: z3.Implies(z3.And(SEL(a), VAL(a, x)), qexists(1, lambda j: z3.And(0 <= j, j < result.n, result.sel(j) == x)))))]
        inc = npsets.strictly_increasing(result)
        if S.sc.endswith('+any-f'):
            # what the code delivers for arbitrary f (the unconditional, documented clause is in the PARKED contracts)
            two = qexists(2, lambda a, b: z3.And(a != b, SEL(a), SEL(b)))
            out.append(('result-strictly-increasing-if-two-distinct-indices', z3.Implies(two, inc)))
        else:
            out.append(('result-strictly-increasing', inc))  # documented: "always unique, i.e. strict monotonic increasing"
        return out

    def replay(self, ob):
        return native('run_int_or_vec(strict=%r)' % (not self.scenario.endswith('+any-f')))


class Wrapper(Contract):
    """_int_or_vec_dof / _int_or_vec_ielem: the decorated method is dispatched over the right index range
    (dofs: nargs = self.ndofs; elements: nargs = self.nelems), bound to self, with the caller's argument."""
    prop = PROP

    def __init__(self, which):
        self.which = which
        self.fn = 'function:_int_or_vec_%s.wrapped' % which

    def setup(self, cx):
        nd, ne = cx.int('ndofs'), cx.int('nelems')
        S = State(nd=nd, ne=ne, got=None)
        me = SObj('Basis', attrs=dict(ndofs=SInt(nd), nelems=SInt(ne)))
        arg = SOpaque('argument')
        S.me, S.arg = me, arg
        bound = SOpaque('bound-method')
        S.bound = bound
        f = SObj('function', methods={'__get__': lambda ctx, s, obj, *a: bound if obj is me else SOpaque('bound-to-something-else')})

        def _int_or_vec(ctx, f, arg, argname, nargs, nvals):
            S.got = (f, arg, nargs, nvals)
            return SOpaque('result')
        S.args = (me, arg)
        S.globals = {'f': f, '_int_or_vec': _int_or_vec}
        return S

    def ensures(self, cx, S, result):
        if S.got is None:
            return [('dispatches-through-_int_or_vec', z3.BoolVal(False))]
        f, arg, nargs, nvals = S.got
        want_n, want_v = (S.nd, S.ne) if self.which == 'dof' else (S.ne, S.nd)
        return [('dispatches-through-_int_or_vec', z3.BoolVal(True)),
                ('method-bound-to-self', z3.BoolVal(f is S.bound)),
                ('argument-passed-on', z3.BoolVal(arg is S.arg)),
                ('index-range-is-the-number-of-%ss' % ('dof' if self.which == 'dof' else 'element'), z3.And(is_intlike(nargs), zint(nargs) == want_n) if is_intlike(nargs) else z3.BoolVal(False))]

    def replay(self, ob):
        return native('run_int_or_vec()')


# PARKED (candidate defect, see notes/C12-basis.md): for an int-array / bool-mask argument with ONE distinct entry, _int_or_vec returns
# f(entry) itself (functools.reduce does not call numpy.union1d for a single item), which for get_dofs is neither sorted nor
# unique although the docstring promises "a unique array, i.e. a strict monotonic increasing array"; PrunedBasis.__init__ then builds
# a dof map with repeated entries.  The documented clause fails on the unchanged tree, so these two contracts are kept here and
# are NOT part of contracts(); the '+any-f' variants state what the code does deliver, the '+sorted-f' variants the get_support use.
PARKED = []  # IntOrVec('intarray') / IntOrVec('boolmask') failed on the pinned commit; repaired by a fix: commit, now in contracts()


def contracts():
    return [ComputedSupport()] + [IntOrVec(s) for s in ('int', 'intarray', 'boolmask', 'intarray+any-f', 'intarray+sorted-f', 'boolmask+any-f', 'boolmask+sorted-f', 'intarray2d', 'other')] \
        + [Wrapper('dof'), Wrapper('ielem')]
