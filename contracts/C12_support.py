"""C12 -- Basis._computed_support and the int/array dispatch of Basis.get_support / Basis.get_dofs.

Basis._computed_support   (two nested loops, loop invariants, any number of elements / dofs / dofs per element)
  requires   get_dofs(e) for 0 <= e < nelems is a 1-D int array with entries in [0, ndofs)   (class invariant, ASSUMED;
             repetitions and any order are allowed)
  ensures    result has ndofs items; every support[d] is strictly increasing;
             e in support[d]  <=>  0 <= e < nelems and d in get_dofs(e)                         ("mutual inverses")
             the callee is only asked for elements in range.

function._int_or_vec       (the body behind the decorators of get_support / get_dofs in the base class and its subclasses)
  int argument            f is called with the NORMALISED index (a + nargs for a < 0); IndexError exactly when outside [-nargs, nargs)
  bool mask               IndexError unless shape == (nargs,); otherwise treated as its nonzero positions
  int array               empty -> empty int array; IndexError exactly when some entry is outside [0, nargs) (negative entries are
                          NOT wrapped); otherwise the element set of the result is the union of f(a) over the entries a, and the
                          result is strictly increasing when more than one distinct entry is given or f returns strictly increasing arrays
  anything else           IndexError
"""
import z3
from pyvc.contract import Contract, State
from pyvc.values import SInt, SBool, SObj, SOpaque, Sym, Unsupported, PyRaise, zint, is_intlike
from pyvc.nparr import Vec, Numpy, qforall, qexists, I, DType
from pyvc.interp import Loop, LazyGen
from pyvc.nested import NestedIntLists, Row
from pyvc import npsets, ops

PROP = 'C12'
B = z3.BoolSort()
HERE = __import__('os').path.dirname(__import__('os').path.dirname(__import__('os').path.abspath(__file__)))


def native(call):
    return "import sys; sys.path.insert(0, %r)\nfrom native import c12b\nc12b.%s\n" % (HERE, call)


class Types:
    """nutils.types: frozenarray(x, dtype=int) of a list of ints / an int array is that array (immutability is not modelled)."""

    def sym_getattr(self, ctx, name):
        if name == 'frozenarray':
            def frozenarray(ctx, x, dtype=None, copy=True):
                if isinstance(x, Row):
                    n, sel = x.snapshot()
                    return Vec('int', n, sel, 'frozenarray(%r)' % x)
                if isinstance(x, Vec):
                    return x
                raise Unsupported('types.frozenarray of %r' % (x,))
            return frozenarray
        raise Unsupported('types.' + name)


def sym_tuple(ctx, it=()):
    """tuple(<generator over a symbolic-length sequence>): the mapped sequence.  Items are evaluated when read; the functions
    under contract return the tuple at once, so nothing can change in between."""
    if isinstance(it, LazyGen):
        m = it.as_mapped(ctx)
        if m is not None:
            return m
    return ops.py_tuple(ctx, it)


class ComputedSupport(Contract):
    prop = PROP
    fn = 'function:Basis._computed_support'

    def __init__(self):
        C = self

        def common(S, sup, upto, le):
            """A (items are elements below `upto` that have the dof), B (strictly increasing), C (complete below i; ghost POS), L"""
            nd, HAS = S.nd, S.HAS
            LEN, EL, POS = sup.len_f, sup.el_f, sup.pos_f
            bound = (lambda x: x <= upto) if le else (lambda x: x < upto)
            return [sup.n == nd,
                    qforall(1, lambda d: z3.Implies(z3.And(0 <= d, d < nd), LEN(d) >= 0)),
                    qforall(2, lambda d, k: z3.Implies(z3.And(0 <= d, d < nd, 0 <= k, k < LEN(d)), z3.And(0 <= EL(d, k), bound(EL(d, k)), HAS(EL(d, k), d)))),
                    qforall(3, lambda d, k1, k2: z3.Implies(z3.And(0 <= d, d < nd, 0 <= k1, k1 < k2, k2 < LEN(d)), EL(d, k1) < EL(d, k2)))]

        def complete(S, sup, upto):
            nd, HAS = S.nd, S.HAS
            LEN, EL, POS = sup.len_f, sup.el_f, sup.pos_f
            return qforall(2, lambda d, e: z3.Implies(z3.And(0 <= d, d < nd, 0 <= e, e < upto, HAS(e, d)), z3.And(0 <= POS(d, e), POS(d, e) < LEN(d), EL(d, POS(d, e)) == e)))

        def inv_elems(cx, env, i):
            S = C.S
            sup = env.lookup('support')
            if not isinstance(sup, NestedIntLists):
                raise Unsupported('support is %r' % (sup,))
            return z3.And(*(common(S, sup, i, False) + [complete(S, sup, i)]))

        def inv_dofs(cx, env, j):
            S = C.S
            sup = env.lookup('support')
            i = zint(env.lookup('ielem'))
            u = cx.loop_iterable
            if not (isinstance(u, Vec) and u.kind == 'int' and isinstance(sup, NestedIntLists)):
                raise Unsupported('inner loop over %r' % (u,))
            nd, HAS = S.nd, S.HAS
            LEN, EL, POS = sup.len_f, sup.el_f, sup.pos_f
            Bj = z3.If(j < u.n, u.sel(j), nd)  # dofs of this element below Bj have been served (the iterable is increasing)
            return z3.And(*(common(S, sup, i, True) + [
                complete(S, sup, i),
                qforall(1, lambda d: z3.Implies(z3.And(0 <= d, d < nd, HAS(i, d), d < Bj), z3.And(LEN(d) >= 1, EL(d, LEN(d) - 1) == i, POS(d, i) == LEN(d) - 1))),
                qforall(2, lambda d, k: z3.Implies(z3.And(0 <= d, d < nd, 0 <= k, k < LEN(d), EL(d, k) == i), z3.And(HAS(i, d), d < Bj)))]))

        self.loops = {0: Loop(inv_elems, label='elements', match='in range(self.nelems', extra_modifies=('support',)),
                      1: Loop(inv_dofs, label='dofs', match='get_dofs(ielem)', extra_modifies=('support',))}

    def setup(self, cx):
        nd, ne = cx.int('ndofs'), cx.int('nelems')
        cx.assume(z3.And(nd >= 0, ne >= 0))
        NDOFS = z3.Function('len_get_dofs', I, I)
        DOFS = z3.Function('get_dofs', I, I, I)
        HAS = z3.Function('elem_has_dof', I, I, B)
        wit = z3.Function('dof_position', I, I, I)
        cx.assume(qforall(1, lambda e: NDOFS(e) >= 0))
        # class invariant (ASSUMED): dofs in range
        cx.assume(qforall(2, lambda e, k: z3.Implies(z3.And(0 <= e, e < ne, 0 <= k, k < NDOFS(e)), z3.And(0 <= DOFS(e, k), DOFS(e, k) < nd))))
        # definition of  d in get_dofs(e)  (Skolemised)
        cx.assume(qforall(2, lambda e, k: z3.Implies(z3.And(0 <= k, k < NDOFS(e)), HAS(e, DOFS(e, k)))))
        cx.assume(qforall(2, lambda e, d: z3.Implies(HAS(e, d), z3.And(0 <= wit(e, d), wit(e, d) < NDOFS(e), DOFS(e, wit(e, d)) == d))))
        S = State(nd=nd, ne=ne, NDOFS=NDOFS, DOFS=DOFS, HAS=HAS)
        self.S = S

        def get_dofs(ctx, s, ielem):
            if not is_intlike(ielem):
                raise Unsupported('get_dofs(%r)' % (ielem,))
            e = zint(ielem)
            ctx.oblige('callee-precondition:get_dofs-element-in-range', z3.And(0 <= e, e < ne), kind='safety')
            return Vec('int', NDOFS(e), lambda k: DOFS(e, k), 'get_dofs(%s)' % e)
        me = SObj('Basis', attrs=dict(ndofs=SInt(nd), nelems=SInt(ne)), methods={'get_dofs': get_dofs})
        S.args = (me,)
        S.globals = {'numpy': Numpy(extra={'unique': npsets.np_unique}), 'types': Types(), 'tuple': sym_tuple}
        return S

    def ensures(self, cx, S, result):
        if not hasattr(result, 'seq_at') or isinstance(result, (list, tuple)):
            raise Unsupported('returned %r' % (result,))
        nd, ne, HAS = S.nd, S.ne, S.HAS

        def row(d):
            r = result.seq_at(cx, d)
            if not (isinstance(r, Vec) and r.kind == 'int'):
                raise Unsupported('support item %r' % (r,))
            return r
        return [('one-support-per-dof', result.seq_len(cx) == nd),
                ('supports-strictly-increasing', qforall(3, lambda d, a, b: z3.Implies(z3.And(0 <= d, d < nd, 0 <= a, a < b, b < row(d).n), row(d).sel(a) < row(d).sel(b)))),
                ('support-items-are-elements-having-the-dof', qforall(2, lambda d, k: z3.Implies(z3.And(0 <= d, d < nd, 0 <= k, k < row(d).n),
                                                                                                    z3.And(0 <= row(d).sel(k), row(d).sel(k) < ne, HAS(row(d).sel(k), d))))),
                ('every-element-having-the-dof-is-in-its-support', qforall(2, lambda d, e: z3.Implies(z3.And(0 <= d, d < nd, 0 <= e, e < ne, HAS(e, d)),
                                                                                                         qexists(1, lambda k: z3.And(0 <= k, k < row(d).n, row(d).sel(k) == e)))))]

    def replay(self, ob):
        return native('run_computed_support()')


def contracts():
    return [ComputedSupport()]
