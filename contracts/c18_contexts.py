"""C18 -- the caching context: cache.enable / cache.disable / cache.caching on top of _util.set_current, and _lock_file.

cache.function.wrapper and Recursion.__iter__ read `caching.current` and wrap the computation in `with disable():`; their
contracts (C18.py) take that context manager as a black box that switches caching off and back on.  Here the real bodies are
composed:  _util.set_current (outer function AND the generator closure it returns), cache.caching, cache.enable,
cache.disable.  `contextlib.contextmanager` is an external with the contract: `with cm(*a): BODY` runs the generator up to
its single `yield`, then BODY, then the rest of the generator; an exception of BODY is raised AT the yield (so `finally`
clauses run) and propagates unless the generator swallows it.  The engine executes exactly that by running BODY at the yield
point (continuation style, pyvc.interp.call_function(yield_sink=...)).
"""
import z3
from pyvc.contract import Contract, State
from pyvc.values import SObj, SOpaque, Sym, Unsupported, PyRaise
from pyvc.interp import Closure, get_attribute
from pyvc.inproc import InProc

PROP = 'C18'


class PathModel(Sym):
    """pathlib.Path(x): an immutable wrapper of x; Path(Path(x)) == Path(x); expanduser() is the identity (ASSUMED: no '~')."""

    def __init__(self, arg):
        self.arg = arg.arg if isinstance(arg, PathModel) else arg

    def getattr(self, ctx, name):
        if name == 'expanduser':
            return lambda ctx: PathModel(self.arg)
        raise Unsupported('Path.' + name)

    def truth(self, ctx):
        return True

    def is_none(self, ctx):
        return False


class Contexts(InProc, Contract):
    """enable/disable nest and restore:  default off;  inside enable(A) the directory is Path(A);  inside a nested disable()
    caching is off;  inside enable(B) nested in that it is Path(B);  every exit restores the state of the enclosing block --
    also when the block raises --, and after the outermost exit the default is back."""
    prop = PROP
    fn = '_util:set_current'

    def setup(self, cx):
        S = State(obs=[], target=None)

        class CachingProxy(Sym):
            """the module-level name `caching` = set_current(defaults_from_env(caching)): calling it makes a context manager"""

            def call(s, ctx, args, kwargs):
                return CM(args, kwargs)

            def getattr(s, ctx, name):
                return get_attribute(ctx, S.target, name)

        class CM(Sym):
            def __init__(s, args, kwargs):
                s.args, s.kwargs = tuple(args), dict(kwargs)

        class NS:
            def __init__(s, **kw):
                s.d = kw

            def sym_getattr(s, ctx, name):
                if name in s.d:
                    return s.d[name]
                raise Unsupported('external %s' % name)
        S.CM = CM
        S.A, S.B = SOpaque('dirA'), SOpaque('dirB')
        S.globals = {'caching': CachingProxy(), 'pathlib': NS(Path=lambda ctx, x: PathModel(x)),
                     'appdirs': NS(user_cache_dir=lambda ctx, *a: SOpaque('default-cache-dir')),
                     'functools': NS(wraps=lambda ctx, f: (lambda ctx, g: g)), 'contextlib': NS(contextmanager=lambda ctx, g: g)}
        return S

    def body(self, cx, S, call):
        interp = cx.interp
        sc = call('_util:set_current', lambda ctx, *a, **k: call('cache:caching', *a, **k))
        if not isinstance(sc, Closure):
            raise Unsupported('set_current did not return its closure: %r' % (sc,))
        S.target = sc

        def with_(cm, block):
            if not isinstance(cm, S.CM):
                raise Unsupported('not a caching(...) context manager: %r' % (cm,))

            class Sink:
                n = 0

                def append(s, v):
                    s.n += 1
                    if s.n > 1:
                        raise PyRaise('RuntimeError', note="generator didn't stop")
                    block()
            sink = Sink()
            interp.index_loops(sc.node)
            interp.call_function(sc.node, cm.args, cm.kwargs, sc.env, yield_sink=sink)
            if sink.n == 0:
                raise PyRaise('RuntimeError', note="generator didn't yield")

        def cur():
            S.obs.append(get_attribute(cx, sc, 'current'))

        def level3():
            cur()  # 3: inside enable(B) inside disable() inside enable(A)

        def level2():
            cur()  # 2: inside disable() inside enable(A)
            with_(call('cache:enable', S.B), level3)
            cur()  # 4: back in disable()

        def failing():
            raise PyRaise('GenError', note='the block raises')

        def level1():
            cur()  # 1: inside enable(A)
            with_(call('cache:disable'), level2)
            cur()  # 5: back in enable(A)
            S.propagated = False
            try:
                with_(call('cache:disable'), failing)
            except PyRaise as e:
                if e.exc != 'GenError':
                    raise
                S.propagated = True
            cur()  # 6: back in enable(A) after the failing block
        cur()  # 0: default
        with_(call('cache:enable', S.A), level1)
        cur()  # 7: default again
        return None

    def ensures(self, cx, S, result):
        B = z3.BoolVal
        o = S.obs
        ok = len(o) == 8

        def is_path(v, d):
            return isinstance(v, PathModel) and v.arg is d
        return [('caching-off-by-default', B(ok and o[0] is None)),
                ('enable-sets-the-given-directory', B(ok and is_path(o[1], S.A) and is_path(o[3], S.B))),
                ('disable-switches-caching-off', B(ok and o[2] is None)),
                ('exit-restores-the-enclosing-state', B(ok and o[4] is None and is_path(o[5], S.A) and o[7] is None)),
                ('state-restored-and-exception-propagated-when-the-block-raises', B(ok and is_path(o[6], S.A) and getattr(S, 'propagated', False) is True))]

    def replay(self, ob):
        import os
        here = os.path.dirname(os.path.dirname(os.path.abspath(__file__)))
        return "import sys; sys.path.insert(0, %r)\nfrom native import c18\nc18.run_contexts(%r)\n" % (here, ob.clause)


class LockFcntl(InProc, Contract):
    """_lock_file on Linux/BSD: one blocking EXCLUSIVE flock on the file object it is given (not shared, not non-blocking)."""
    prop = PROP
    fn = 'cache:_lock_file_fcntl'
    LOCK_SH, LOCK_EX, LOCK_NB, LOCK_UN = 1, 2, 4, 8

    def setup(self, cx):
        S = State(calls=[])
        S.f = SOpaque('file')

        class Fcntl:
            def sym_getattr(s, ctx, name):
                if name == 'flock':
                    return lambda ctx, fd, op: S.calls.append((fd, op))
                if name in ('LOCK_SH', 'LOCK_EX', 'LOCK_NB', 'LOCK_UN'):
                    return getattr(self, name)
                raise Unsupported('fcntl.' + name)
        S.args = (S.f,)
        S.globals = {'fcntl': Fcntl()}
        return S

    def ensures(self, cx, S, result):
        ok = len(S.calls) >= 1 and all(fd is S.f for fd, _ in S.calls) and S.calls[-1][1] == self.LOCK_EX and all(op == self.LOCK_EX for _, op in S.calls)
        return [('takes-one-blocking-exclusive-lock-on-the-given-file', z3.BoolVal(bool(ok)))]

    def replay(self, ob):
        import os
        here = os.path.dirname(os.path.dirname(os.path.abspath(__file__)))
        return "import sys; sys.path.insert(0, %r)\nfrom native import c18\nc18.run_lock(%r)\n" % (here, ob.clause)


class LockSelection(InProc, Contract):
    """The module-level choice  _lock_file = next(filter(None, [...]))  evaluated (the real expression, re-read from the source)
    for the four platform situations: a real lock (fcntl, else msvcrt) is chosen whenever one is available; the no-op fallback
    only when neither module could be imported."""
    prop = PROP
    fn = 'cache:_lock_file_fallback'

    def __init__(self, have_fcntl, have_msvcrt):
        self.have = (have_fcntl, have_msvcrt)
        self.label = 'selection-fcntl=%d-msvcrt=%d' % self.have

    def setup(self, cx):
        S = State()
        S.F1, S.F2, S.F3 = SOpaque('_lock_file_fcntl'), SOpaque('_lock_file_msvcrt'), SOpaque('_lock_file_fallback')
        return S

    def body(self, cx, S, call):
        import ast
        from pyvc import extract, ops
        from pyvc.interp import Env
        src, tree = extract.module_ast('cache')
        node = None
        for n in tree.body:
            if isinstance(n, ast.Assign) and any(isinstance(t, ast.Name) and t.id == '_lock_file' for t in n.targets):
                node = n
        if node is None:
            raise Unsupported('no module-level assignment to _lock_file')
        env = Env()
        env.vars.update({'_lock_file_fcntl': S.F1 if self.have[0] else None, '_lock_file_msvcrt': S.F2 if self.have[1] else None, '_lock_file_fallback': S.F3})

        def filt(ctx, pred, xs):
            if pred is not None:
                raise Unsupported('filter with a predicate')
            return ops.IterObj([x for x in ops.iterate(ctx, xs) if ops.truth(ctx, x) is True])
        env.vars['filter'] = filt
        return cx.interp.expr(node.value, env)

    def ensures(self, cx, S, result):
        want = S.F1 if self.have[0] else S.F2 if self.have[1] else S.F3
        return [('a-real-lock-is-chosen-when-available', z3.BoolVal(result is want))]


def contracts():
    return [Contexts(), LockFcntl()] + [LockSelection(a, b) for a in (True, False) for b in (True, False)]
