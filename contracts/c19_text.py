"""Models shared by the C19 substring / parser contracts (helper module, not a property module).

Text   a Python str as (length, index -> character code); slices are views that remember their absolute offset in the
       root string (so `matcher(tail)` can be read as a function of the tail's absolute range).
Char   a str of length 1 with a symbolic code point.
Sub    a `_Substring` object whose methods are the REAL bodies from expression_v2 (inlined on every use) unless the
       contract overrides one of them with an already-proved contract (modular verification).
"""
import z3
from pyvc.values import Sym, SInt, SBool, SObj, STerm, BoundMethod, PyRaise, Unsupported, zint, zbool
from pyvc.nparr import Vec, qforall
from pyvc import ops
from contracts.C13 import InlineFn

MOD = 'expression_v2'
OPEN = (40, 91, 123, 60)    # ( [ { <
CLOSE = (41, 93, 125, 62)   # ) ] } >


def is_open(c):
    return z3.Or(*[c == k for k in OPEN])


def is_close(c):
    return z3.Or(*[c == k for k in CLOSE])


class Char(Sym):
    """str of length one"""

    def __init__(self, code):
        self.code = code if z3.is_expr(code) else z3.IntVal(code)

    def _other(self, other):
        if isinstance(other, Char):
            return other.code
        if isinstance(other, str) and len(other) == 1:
            return z3.IntVal(ord(other))
        if isinstance(other, Text):
            n = z3.simplify(other.n)
            if z3.is_int_value(n) and n.as_long() == 1:
                return other.sel(z3.IntVal(0))
        return None

    def compare(self, ctx, op, other, reflected):
        o = self._other(other)
        if o is None:
            if isinstance(other, str) and op in ('==', '!='):  # a str of another length
                return op == '!='
            if isinstance(other, (STerm, SInt, int, type(None))) and op in ('==', '!='):
                return op == '!='
            raise Unsupported('comparison %s of a character with %r' % (op, other))
        a, b = (o, self.code) if reflected else (self.code, o)
        return SBool({'<': a < b, '<=': a <= b, '>': a > b, '>=': a >= b, '==': a == b, '!=': a != b}[op])

    def isinstance_(self, ctx, types):
        return str in types

    def truth(self, ctx):
        return True

    def length(self, ctx):
        return 1

    def iterate(self, ctx):
        return [self]

    def sym_str(self, ctx):
        return self

    def sym_int(self, ctx):
        # int(ch): exact for an ASCII digit; other Unicode digits are outside the model
        if ctx.entails(z3.And(48 <= self.code, self.code <= 57)):
            return SInt(self.code - 48)
        raise Unsupported('int() of a character that is not known to be an ASCII digit')

    def merge_with(self, c, other, reflected):
        if isinstance(other, Char):
            return Char(z3.If(c, other.code, self.code) if reflected else z3.If(c, self.code, other.code))
        return NotImplemented

    def havoc(self, ctx, name):
        return Char(ctx.int(name, report=False))

    def __repr__(self):
        return 'Char(%s)' % self.code


class Text(Vec):
    """a Python str of symbolic length"""

    def __init__(self, n, sel, name='text', root=None, off=0):
        super().__init__('int', n, sel, name)
        self.root = root if root is not None else self
        self.off = off if z3.is_expr(off) else z3.IntVal(off)

    @staticmethod
    def fresh_text(cx, name='base'):
        n = cx.int('len(%s)' % name)
        cx.assume(n >= 0)
        a = z3.Array(cx.name(name), z3.IntSort(), z3.IntSort())
        return Text(n, lambda i: z3.Select(a, i), name)

    def getitem(self, ctx, idx):
        if isinstance(idx, slice):
            start, ln = self.slice_bounds(ctx, idx)
            me = self
            return Text(ln, lambda i: me.sel(i + start), '%s[%s:]' % (self.name, start), root=self.root, off=z3.simplify(self.off + start))
        if isinstance(idx, (int, SInt, SBool)):
            return Char(self.sel(self.norm_index(ctx, idx)))
        raise Unsupported('str index %r' % (idx,))

    def seq_at(self, ctx, i):
        return Char(self.sel(i))

    def isinstance_(self, ctx, types):
        return str in types

    def truth(self, ctx):
        return self.n != 0

    def iterate(self, ctx):
        n = z3.simplify(self.n)
        if z3.is_int_value(n):
            return [Char(self.sel(z3.IntVal(k))) for k in range(n.as_long())]
        raise Unsupported('python iteration over a str of symbolic length (needs a loop contract)')

    def sym_str(self, ctx):
        return self

    def _eq_literal(self, s):
        return z3.And(self.n == len(s), *[self.sel(z3.IntVal(k)) == ord(c) for k, c in enumerate(s)])

    def compare(self, ctx, op, other, reflected):
        if op in ('==', '!='):
            if isinstance(other, str):
                e = self._eq_literal(other)
            elif isinstance(other, Char):
                e = z3.And(self.n == 1, self.sel(z3.IntVal(0)) == other.code)
            else:
                raise Unsupported('str == %r' % (other,))
            return SBool(e if op == '==' else z3.Not(e))
        if isinstance(other, str) and len(other) == 1:
            # ordering against a one-character literal: only decided for a one-character string
            n = z3.simplify(self.n)
            if z3.is_int_value(n) and n.as_long() == 1:
                return Char(self.sel(z3.IntVal(0))).compare(ctx, op, other, reflected)
        raise Unsupported('ordering of a symbolic str')

    def getattr(self, ctx, name):
        me = self
        if name == 'startswith':
            def startswith(ctx, p):
                if not isinstance(p, str):
                    raise Unsupported('startswith(symbolic)')
                ctx.used_axioms.add('str.startswith(p): len >= len(p) and the first len(p) characters equal p')
                return SBool(z3.And(me.n >= len(p), *[me.sel(z3.IntVal(k)) == ord(c) for k, c in enumerate(p)]))
            return startswith
        if name == 'endswith':
            def endswith(ctx, p):
                if not isinstance(p, str):
                    raise Unsupported('endswith(symbolic)')
                ctx.used_axioms.add('str.endswith(p): len >= len(p) and the last len(p) characters equal p')
                return SBool(z3.And(me.n >= len(p), *[me.sel(me.n - len(p) + k) == ord(c) for k, c in enumerate(p)]))
            return endswith
        if name == 'lstrip':
            def lstrip(ctx, chars):
                if not (isinstance(chars, str) and len(chars) == 1):
                    raise Unsupported('lstrip of a character set')
                c = ctx.int('nlead(%s)' % me.name, report=False)
                code = ord(chars)
                ctx.assume(z3.And(0 <= c, c <= me.n, qforall(1, lambda k: z3.Implies(z3.And(0 <= k, k < c), me.sel(k) == code)),
                                  z3.Implies(c < me.n, me.sel(c) != code)),
                           axiom='str.lstrip(c): drops exactly the maximal run of leading characters equal to c')
                return Text(me.n - c, lambda i: me.sel(i + c), me.name + '.lstrip', root=me.root, off=z3.simplify(me.off + c))
            return lstrip
        if name == '__len__':
            return lambda ctx: SInt(me.n)
        raise Unsupported('str.%s not modelled' % name)

    def havoc(self, ctx, name):
        raise Unsupported('havoc of a str')


def model_enumerate(ctx, it, start=0):
    """enumerate() that keeps characters as Char when walking a Text"""
    if isinstance(it, Text):
        return TextEnum(it, start)
    return ops.py_enumerate(ctx, it, start)


class TextEnum(Sym):
    def __init__(self, text, start=0):
        self.text, self.start = text, start

    def seq_len(self, ctx):
        return self.text.n

    def seq_at(self, ctx, i):
        return (SInt(i + self.start), Char(self.text.sel(i)))

    def iterate(self, ctx):
        return [(k + self.start, c) for k, c in enumerate(self.text.iterate(ctx))]


REAL_METHODS = ('__len__', '__str__', '__iter__', '__getitem__', '__contains__', 'trim', 'trim_start', 'trim_end', 'starts_with', 'ends_with',
                'strip_prefix', 'strip_suffix', '_find', 'split', 'isplit', 'partition', 'partition_scope')


class Sub(SObj):
    """A `_Substring`: attributes base/start/stop; every method is the real body unless overridden."""

    def __init__(self, world, base=None, start=None, stop=None):
        super().__init__('_Substring', attrs=dict(base=base, start=start, stop=stop), classes=('_Substring',))
        self.world = world

    def _method(self, name):
        ov = self.world.overrides.get(name)
        if ov is not None:
            return ov
        if name in REAL_METHODS:
            ref = '%s:_Substring.%s' % (MOD, name)
            inl = InlineFn(ref, self.world.globals)

            def real(ctx, *a, **k):
                from pyvc import extract
                ctx.interp.index_loops(extract.get(ref).node)  # loops of the inlined body may be matched by the contract's loop invariants (by header text)
                return inl(ctx, *a, **k)
            return real
        return None

    def getattr(self, ctx, name):
        if name in self.attrs:
            return self.attrs[name]
        m = self._method(name)
        if m is not None:
            return BoundMethod(self, m, name)
        raise Unsupported('_Substring.%s is not modelled' % name)

    def length(self, ctx):
        return self._method('__len__')(ctx, self)

    def truth(self, ctx):
        # no __bool__: truthiness is len(self) != 0
        n = self.length(ctx)
        return (n != 0) if isinstance(n, int) else zint(n) != 0

    def getitem(self, ctx, idx):
        return self._method('__getitem__')(ctx, self, idx)

    def sym_str(self, ctx):
        return self._method('__str__')(ctx, self)

    def contains(self, ctx, item):
        return self._method('__contains__')(ctx, self, item)

    def iterate(self, ctx):
        return self._method('__iter__')(ctx, self)

    def havoc(self, ctx, name):
        return Sub(self.world, self.attrs['base'], SInt(ctx.int(name + '.start', report=False)), SInt(ctx.int(name + '.stop', report=False)))

    @property
    def a(self):
        return zint(self.attrs['start'])

    @property
    def b(self):
        return zint(self.attrs['stop'])


class World:
    """One symbolic base string plus the plumbing that lets real `_Substring` bodies construct new substrings."""

    def __init__(self, cx, overrides=None, name='base'):
        self.cx = cx
        self.base = Text.fresh_text(cx, name)
        self.overrides = dict(overrides or {})
        self.made = []
        from pyvc.ops import ClassRef
        self.globals = {'enumerate': model_enumerate}
        self.globals['_Substring'] = ClassRef('_Substring', construct=self.construct)

    def construct(self, ctx, base, start=None, stop=None):
        o = Sub(self)
        InlineFn('%s:_Substring.__init__' % MOD, self.globals)(ctx, o, base, start, stop)  # the real __init__, including its range assert
        self.made.append(o)
        return o

    def sub(self, cx, name='s'):
        """a fresh substring satisfying the class invariant 0 <= start <= stop <= len(base)"""
        a, b = cx.int(name + '.start'), cx.int(name + '.stop')
        cx.assume(z3.And(0 <= a, a <= b, b <= self.base.n))
        return Sub(self, self.base, SInt(a), SInt(b))
