"""C20 (kernel) -- arithmetic on quantities follows the algebra of dimensions.

A dimension is a vector of rational exponents over base dimensions (three symbolic bases here; the code is generic in
the base names).

  registration   the dispatch table built by the @register decorators of SI.Quantity maps every operator / numpy / nutils
                 function to the handler the algebra prescribes (ground comparison with the table below, which is written
                 from the property: mul -> sum of exponents, div -> difference, pow -> scaling, sqrt -> 1/2, add/compare/
                 stack/setitem -> equal dimensions required, grad/div/curl -> divide by the geometry, laplace -> by its
                 square, jacobian -> power, curvature -> inverse, integral/evaluate -> unchanged ...)
  handlers       each of the 18 dispatch handlers returns  wrap(<prescribed dimension>, op(<unwrapped values>))  and raises
                 DimensionError exactly when dimensions that must agree differ  (real bodies, incl. Quantity.__unpack)
  algebra        Dimension._binop / __mul__ / __truediv__ / __pow__ compute the exponents pointwise; Dimension.wrap returns
                 the bare value exactly for the dimensionless class
"""
import ast
import z3
from pyvc.contract import Contract, State
from pyvc.core import Obligation
from pyvc.values import SInt, SBool, SReal, SObj, SOpaque, Sym, Unsupported, PyRaise, zint, zreal, zbool, is_intlike
from pyvc.ops import ClassRef, Builtin
from pyvc import ops, extract
from contracts.C13 import InlineFn

PROP = 'C20'
LEVEL = 'proof'
NB = 3  # number of base dimensions in the model


class DimV(Sym):
    """A Dimension class object: exponent vector over NB bases."""

    def __init__(self, vec):
        self.vec = tuple(vec)

    @staticmethod
    def fresh(cx, name):
        return DimV([cx.real('%s.e%d' % (name, i)) for i in range(NB)])

    def iszero(self):
        return z3.And(*[e == 0 for e in self.vec])

    def eq(self, o):
        return z3.And(*[a == b for a, b in zip(self.vec, o.vec)])

    def binop(self, ctx, op, other, reflected):
        if isinstance(other, DimV) and op in ('*', '/'):
            a, b = (other, self) if reflected else (self, other)
            ctx.used_axioms.add('Dimension.__mul__/__truediv__: exponents add / subtract (contract proved on the real methods)')
            return DimV([x + y if op == '*' else x - y for x, y in zip(a.vec, b.vec)])
        if op == '**' and not reflected:
            ctx.used_axioms.add('Dimension.__pow__: exponents scale (contract proved on the real method)')
            try:
                k = zreal(other)
            except TypeError:
                raise Unsupported('dimension ** %r' % (other,))
            return DimV([x * k for x in self.vec])
        return NotImplemented

    def compare(self, ctx, op, other, reflected):
        if isinstance(other, DimV) and op in ('==', '!='):
            return SBool(self.eq(other) if op == '==' else z3.Not(self.eq(other)))
        return NotImplemented

    def getattr(self, ctx, name):
        if name == 'wrap':
            # contract of Dimension.wrap (proved below): bare value iff dimensionless
            def wrap(ctx, value):
                if ctx.branch(self.iszero()):
                    return value
                return QV(self, value)
            return wrap
        if name == '__name__':
            return SOpaque('str')
        raise Unsupported('Dimension.' + name)

    def truth(self, ctx):
        return z3.Not(self.iszero())


class QV(Sym):
    """A Quantity instance: (dimension, wrapped value)."""

    def __init__(self, dim, value):
        self.dim, self.value = dim, value

    def isinstance_(self, ctx, types):
        return any(getattr(t, '__name__', None) == 'Quantity' for t in types)

    def pytype(self, ctx):
        return self.dim

    def getattr(self, ctx, name):
        if name in ('__value', '_Quantity__value'):
            return self.value
        raise Unsupported('Quantity.' + name)


class Val(Sym):
    """An opaque numeric payload."""

    def __init__(self, name):
        self.name = name

    def isinstance_(self, ctx, types):
        return False

    def pytype(self, ctx):
        return ClassRef('ndarray')

    def compare(self, ctx, op, other, reflected):
        if op in ('==', '!='):
            return (other is self) == (op == '==')
        return NotImplemented

    def truth(self, ctx):
        return True


class OpCall(Sym):
    def __init__(self, args, kwargs):
        self.args, self.kwargs = tuple(args), dict(kwargs)

    def iterate(self, ctx):
        # function.evaluate returns one result per argument
        return [OpItem(self, i) for i in range(len(self.args))]

    def truth(self, ctx):
        return True


class OpItem(Sym):
    def __init__(self, call, i):
        self.call, self.i = call, i


class Op(Sym):
    """The wrapped operator / function: uninterpreted; records how it was called."""

    def __init__(self):
        self.calls = []

    def call(self, ctx, args, kwargs):
        c = OpCall(args, kwargs)
        self.calls.append(c)
        return c

    def getattr(self, ctx, name):
        if name == '__name__':
            return SOpaque('str')
        raise Unsupported('op.' + name)


def arg_of(cx, name, kind):
    v = Val(name + '.value')
    if kind == 'q':
        d = DimV.fresh(cx, name + '.dim')
        return QV(d, v), d, v
    return v, DimV([z3.RealVal(0)] * NB), v


ZERO = DimV([z3.RealVal(0)] * NB)


class Handler(Contract):
    prop = PROP
    name = None
    nargs = 2
    kinds = None

    def __init__(self, kinds):
        self.kinds = kinds
        self.fn = 'SI:Quantity.' + self.name
        self.label = ''.join(kinds)

    def setup(self, cx):
        S = State(op=Op(), dims=[], vals=[], args=[])
        for i, k in enumerate(self.kinds):
            a, d, v = arg_of(cx, 'arg%d' % i, k)
            S.args.append(a)
            S.dims.append(d)
            S.vals.append(v)
        S.extra = Val('extra')
        self.fill(cx, S)
        Q = ClassRef('Quantity', attrs={'__unpack': InlineFn('SI:Quantity.__unpack'), '_Quantity__unpack': InlineFn('SI:Quantity.__unpack')})

        class Fr:
            def sym_getattr(self, ctx, name):
                if name == 'Fraction':
                    def frac(ctx, a, b=1):
                        from fractions import Fraction
                        if isinstance(a, int) and isinstance(b, int):
                            return Fraction(a, b)
                        raise Unsupported('symbolic Fraction')
                    return frac
                raise Unsupported('fractions.' + name)
        S.globals = {'Quantity': Q, 'Dimensionless': ZERO, 'fractions': Fr(), 'DimensionError': None,
                     'reduce': lambda ctx, f, xs: _reduce(ctx, f, xs), 'operator': OperatorStub()}
        S.globals.pop('DimensionError')
        return S

    def fill(self, cx, S):
        S.call_args = (S.op, *S.args, S.extra)
        S.args_passed = S.args
        S.kwargs = {}
        S.args = S.call_args

    # expectations
    def must_raise(self, S):
        return z3.BoolVal(False)

    def expected_dim(self, S):
        return None  # None: a bare (non-quantity) result

    def expected_call(self, S):
        return tuple(S.vals) + (S.extra,)

    def raises(self, cx, S, e):
        if e.exc == 'DimensionError':
            return self.must_raise(S)
        if e.exc == 'AssertionError':
            return all(k == 'p' for k in self.kinds)  # "no dimensional quantities found": a dispatch precondition
        return False

    def check_call(self, S, result_call):
        if not isinstance(result_call, OpCall):
            return False
        exp = self.expected_call(S)
        return len(result_call.args) == len(exp) and all(a is b or (isinstance(a, tuple) and isinstance(b, tuple) and len(a) == len(b) and all(x is y for x, y in zip(a, b))) for a, b in zip(result_call.args, exp))

    def ensures(self, cx, S, result):
        out = [('accepted-only-compatible', z3.Not(self.must_raise(S)))]
        ed = self.expected_dim(S)
        if isinstance(result, QV):
            out.append(('dimension', ed.eq(result.dim) if ed is not None else z3.BoolVal(False)))
            out.append(('value-is-op-of-unwrapped', z3.BoolVal(self.check_call(S, result.value))))
        else:
            out.append(('dimension', ed.iszero() if ed is not None else z3.BoolVal(True)))
            out.append(('value-is-op-of-unwrapped', z3.BoolVal(self.check_call(S, result))))
        return out


def _reduce(ctx, f, xs):
    xs = ops.iterate(ctx, xs)
    r = xs[0]
    for x in xs[1:]:
        r = ctx.interp.call(f, [r, x], {})
    return r


class OperatorStub:
    def sym_getattr(self, ctx, name):
        if name == 'mul':
            return lambda ctx, a, b: ops.binop(ctx, '*', a, b)
        raise Unsupported('operator.' + name)


def handler(name_, nargs_=2, dim=None, raises_=None, bare=False):
    class H(Handler):
        name = name_
        nargs = nargs_

        def must_raise(self, S):
            return raises_(S) if raises_ else z3.BoolVal(False)

        def expected_dim(self, S):
            return None if bare else dim(S)
    H.__name__ = 'Handler_' + name_.strip('_')
    return H


class Unary(Handler):
    name = '__unary'

    def expected_dim(self, S):
        return S.dims[0]

    def expected_call(self, S):
        return (S.vals[0],) + tuple(S.args_passed[1:]) + (S.extra,)


Unary1 = Unary


def differ(i, j):
    return lambda S: z3.Not(S.dims[i].eq(S.dims[j]))


AddLike = handler('__add_like', dim=lambda S: S.dims[0], raises_=differ(0, 1))
MulLike = handler('__mul_like', dim=lambda S: DimV([a + b for a, b in zip(S.dims[0].vec, S.dims[1].vec)]))
DivLike = handler('__div_like', dim=lambda S: DimV([a - b for a, b in zip(S.dims[0].vec, S.dims[1].vec)]))
Laplace = handler('__laplace', dim=lambda S: DimV([a - 2 * b for a, b in zip(S.dims[0].vec, S.dims[1].vec)]))
BinaryOp = handler('__binary_op', bare=True, raises_=differ(0, 1))


class Sqrt(Handler):
    name = '__sqrt'

    def expected_dim(self, S):
        return DimV([a / 2 for a in S.dims[0].vec])

    def expected_call(self, S):
        return (S.vals[0], S.extra)


class UnaryOp(Sqrt):
    name = '__unary_op'

    def expected_dim(self, S):
        return None


class Sample(Handler):
    name = '__sample'

    def fill(self, cx, S):
        S.sample = Val('sample')
        S.args_passed = S.args
        S.args = (S.op, S.sample, S.args[0])
        S.kwargs = {}

    def expected_dim(self, S):
        return S.dims[0]

    def expected_call(self, S):
        return (S.sample, S.vals[0])


class PowLike(Handler):
    name = '__pow_like'

    def __init__(self, kinds, exponent):
        self.exponent = exponent
        super().__init__(kinds)
        self.label = '%s,exp=%s' % (''.join(kinds), exponent)

    def fill(self, cx, S):
        if self.exponent == 'int':
            S.k = cx.int('exponent')
            S.kv = SInt(S.k)
            S.kr = z3.ToReal(S.k)
        else:
            S.kv = self.exponent
            S.kr = z3.RealVal(self.exponent)
        S.args_passed = S.args
        S.args = (S.op, S.args[0], S.kv)
        S.kwargs = {}

    def expected_dim(self, S):
        return DimV([a * S.kr for a in S.dims[0].vec])

    def expected_call(self, S):
        return (S.vals[0], S.kv)


class SetItem(Handler):
    name = '__setitem'

    def fill(self, cx, S):
        S.idx = Val('index')
        S.args_passed = S.args
        S.args = (S.op, S.args[0], S.idx, S.args[1])
        S.kwargs = {}

    def must_raise(self, S):
        return z3.Not(S.dims[0].eq(S.dims[1]))

    def expected_dim(self, S):
        return S.dims[0]

    def expected_call(self, S):
        return (S.vals[0], S.idx, S.vals[1])


class StackLike(Handler):
    name = '__stack_like'

    def fill(self, cx, S):
        S.args_passed = S.args
        S.args = (S.op, tuple(S.args), S.extra)
        S.kwargs = {}

    def must_raise(self, S):
        return z3.Or(*[z3.Not(S.dims[0].eq(d)) for d in S.dims[1:]]) if len(S.dims) > 1 else z3.BoolVal(False)

    def expected_dim(self, S):
        return S.dims[0]

    def expected_call(self, S):
        return (tuple(S.vals), S.extra)


class Curvature(Handler):
    name = '__evaluate@0'

    def fill(self, cx, S):
        S.args_passed = S.args
        S.args = (S.op, S.args[0], S.extra)
        S.kwargs = {}

    def expected_dim(self, S):
        return DimV([-a for a in S.dims[0].vec])

    def expected_call(self, S):
        # function.curvature receives the geometry WITH its dimension stripped?  the code passes *args unchanged
        return (S.args_passed[0], S.extra)


class Field(Handler):
    name = '__field'

    def fill(self, cx, S):
        S.args_passed = S.args
        S.args = (S.op, *S.args)
        S.kwargs = {}

    def expected_dim(self, S):
        v = [z3.RealVal(0)] * NB
        for d in S.dims:
            v = [a + b for a, b in zip(v, d.vec)]
        return DimV(v)

    def expected_call(self, S):
        return tuple(S.vals)


class Interp(Handler):
    name = '__interp'

    def fill(self, cx, S):
        S.args_passed = S.args
        S.args = (S.op, *S.args, S.extra)
        S.kwargs = {}

    def must_raise(self, S):
        return z3.Not(S.dims[0].eq(S.dims[1]))

    def expected_dim(self, S):
        return S.dims[2]

    def expected_call(self, S):
        return tuple(S.vals) + (S.extra,)


# ---- Dimension algebra on the real metaclass methods ---------------------------------------------------------------

BASES = ('L', 'M')


class DimObj(SObj):
    def __init__(self, powers):
        super().__init__('Dimension', attrs={'__powers': powers, '_Dimension__powers': powers}, classes=('Dimension',))
        self.powers = powers


class Algebra(Contract):
    prop = PROP
    bounded = 'two base dimensions, every combination of which bases occur in each operand; exponents symbolic'

    def __init__(self, method, keys_a, keys_b):
        self.method, self.ka, self.kb = method, keys_a, keys_b
        self.fn = 'SI:Dimension.' + method
        self.label = 'a={%s},b={%s}' % (','.join(keys_a), ','.join(keys_b))

    def setup(self, cx):
        a = {k: SReal(cx.real('a.' + k)) for k in self.ka}
        b = {k: SReal(cx.real('b.' + k)) for k in self.kb}
        for d in (a, b):
            for k, v in d.items():
                cx.assume(v.v != 0)  # class invariant of from_powers: zero exponents are dropped
        S = State(a=a, b=b, made=None)

        def from_powers(ctx, d):
            S.made = d
            return DimObj(d)

        class OpMod:
            def sym_getattr(self, ctx, name):
                return {'add': lambda ctx, x, y: ops.binop(ctx, '+', x, y), 'sub': lambda ctx, x, y: ops.binop(ctx, '-', x, y)}[name]
        S.globals = {'Dimension': ClassRef('Dimension', attrs={'from_powers': from_powers, '_binop': InlineFn('SI:Dimension._binop')}), 'operator': OpMod()}
        A, B = DimObj(a), DimObj(b)
        A.methods['_binop'] = lambda ctx, s, op, x, y: InlineFn('SI:Dimension._binop')(ctx, op, x, y)
        if self.method == '_binop':
            S.sign = cx.bool('op_is_add')
            opf = lambda ctx, x, y: SReal(z3.If(S.sign, zreal(x) + zreal(y), zreal(x) - zreal(y)))
            S.args = (opf, a, b)
        else:
            S.args = (A, B)
        return S

    def ensures(self, cx, S, result):
        d = S.made
        if not isinstance(d, dict):
            raise Unsupported('from_powers not called with a dict')
        get = lambda m, k: zreal(m[k]) if k in m else z3.RealVal(0)
        goals = [z3.BoolVal(set(d) == set(S.a) | set(S.b))]
        for k in set(S.a) | set(S.b):
            if k not in d:
                continue
            x, y = get(S.a, k), get(S.b, k)
            if self.method == '__mul__':
                w = x + y
            elif self.method == '__truediv__':
                w = x - y
            else:
                w = z3.If(S.sign, x + y, x - y)
            goals.append(zreal(d[k]) == w)
        return [('pointwise-exponents', z3.And(*goals))]


class Pow(Contract):
    prop = PROP
    fn = 'SI:Dimension.__pow__'
    bounded = 'two base dimensions; exponents symbolic'

    def __init__(self, kind):
        self.kind = kind
        self.label = 'exponent=' + kind

    def setup(self, cx):
        a = {k: SReal(cx.real('a.' + k)) for k in BASES}
        S = State(a=a, made=None)
        if self.kind == 'int':
            k = cx.int('k')
            S.k, S.kr = SInt(k), z3.ToReal(k)
        else:
            k = cx.real('k')
            S.k, S.kr = FracV(k), k

        def from_powers(ctx, d):
            S.made = d
            return DimObj(d)

        class Fr:
            def sym_getattr(self, ctx, name):
                return lambda ctx, x: SReal(zreal(x) if not isinstance(x, FracV) else x.v)
        S.globals = {'Dimension': ClassRef('Dimension', attrs={'from_powers': from_powers}), 'fractions': Fr()}
        S.args = (DimObj(a), S.k)
        return S

    def ensures(self, cx, S, result):
        d = S.made
        return [('scaled-exponents', z3.And(z3.BoolVal(set(d) == set(S.a)), *[zreal(d[k]) == zreal(S.a[k]) * S.kr for k in d]))]


class FracV(SReal):
    def getattr(self, ctx, name):
        raise PyRaise('AttributeError', note=name)


class Wrap(Contract):
    prop = PROP
    fn = 'SI:Dimension.wrap'

    def __init__(self, empty):
        self.empty = empty
        self.label = 'dimensionless' if empty else 'dimensional'

    def setup(self, cx):
        powers = {} if self.empty else {'L': SReal(cx.real('e'))}
        S = State(v=Val('value'), made=None)
        d = DimObj(powers)

        def sup_call(ctx, s, value):
            S.made = value
            return QV(None, value)
        d.methods['super().__call__'] = sup_call
        S.args = (d, S.v)
        return S

    def ensures(self, cx, S, result):
        if self.empty:
            return [('bare-value-for-dimensionless', z3.BoolVal(result is S.v))]
        return [('quantity-for-dimensional', z3.BoolVal(isinstance(result, QV) and S.made is S.v))]


class CallCheck(Contract):
    """Dimension.__call__(cls, value) for a string: the parsed quantity is returned only if its dimension is the class's
    (a bare float exactly for the dimensionless class); otherwise DimensionError."""
    prop = PROP
    fn = 'SI:Dimension.__call__'

    def __init__(self, cls_dimensional, parsed):
        self.cd, self.parsed = cls_dimensional, parsed  # parsed: 'float' | 'same' | 'other'
        self.label = 'cls=%s,parse->%s' % ('dimensional' if cls_dimensional else 'dimensionless', parsed)
        self.expect_return = self.accept()

    def accept(self):
        return (self.parsed == 'float' and not self.cd) or (self.parsed == 'same' and self.cd)

    def setup(self, cx):
        cls = ClsObj('cls', {'L': SReal(cx.real('e'))} if self.cd else {})
        other = ClsObj('other', {'T': SReal(cx.real('f'))})
        S = State(cls=cls)
        if self.parsed == 'float':
            q = Val('float-result')
            q.pytype = lambda ctx: Builtin('float')
        else:
            q = InstanceOf(cls if self.parsed == 'same' else other)
        S.q = q
        S.args = (cls, StrValue())
        S.globals = {'Quantity': ClsObj('Quantity', {}), 'parse': lambda ctx, s: q}
        return S

    def raises(self, cx, S, e):
        if e.exc == 'DimensionError':
            return not self.accept()
        return False

    def ensures(self, cx, S, result):
        return [('returns-the-parsed-quantity-only-if-dimensions-agree', z3.BoolVal(self.accept() and result is S.q))]

    def replay(self, ob):
        import os
        here = os.path.dirname(os.path.dirname(os.path.abspath(__file__)))
        return "import sys; sys.path.insert(0, %r)\nfrom native import c20\nc20.call_check()\n" % here


class ClsObj(DimObj):
    def __init__(self, name, powers):
        DimObj.__init__(self, powers)
        self.cname = name
        self.attrs['__name__'] = SOpaque('str')

    def identical(self, ctx, other):
        return other is self

    def compare(self, ctx, op, other, reflected):
        if op in ('==', '!='):
            same = other is self
            return same if op == '==' else not same
        return NotImplemented


class InstanceOf(Sym):
    def __init__(self, cls):
        self.cls = cls

    def pytype(self, ctx):
        return self.cls

    def isinstance_(self, ctx, types):
        return any(t is self.cls or getattr(t, 'cname', None) == 'Quantity' for t in types)


class StrValue(Sym):
    def isinstance_(self, ctx, types):
        return str in types


# ---- registration table -------------------------------------------------------------------------------------------------

EXPECTED = {
    '__unary': ['function.derivative', 'function.factor', 'function.jump', 'function.kronecker', 'function.linearize', 'function.swap_spaces', 'function.opposite',
                'function.replace_arguments', 'function.scatter', 'numpy.absolute', 'numpy.amax', 'numpy.amin', 'numpy.broadcast_to', 'numpy.conjugate', 'numpy.imag',
                'numpy.linalg.norm', 'numpy.max', 'numpy.mean', 'numpy.min', 'numpy.negative', 'numpy.positive', 'numpy.ptp', 'numpy.real', 'numpy.reshape', 'numpy.sum',
                'numpy.take', 'numpy.trace', 'numpy.transpose', 'operator.abs', 'operator.getitem', 'operator.neg', 'operator.pos'],
    '__add_like': ['numpy.add', 'numpy.hypot', 'numpy.maximum', 'numpy.minimum', 'numpy.subtract', 'operator.add', 'operator.mod', 'operator.sub'],
    '__mul_like': ['numpy.matmul', 'numpy.multiply', 'operator.matmul', 'operator.mul'],
    '__div_like': ['function.curl', 'function.div', 'function.grad', 'function.surfgrad', 'numpy.divide', 'operator.truediv'],
    '__laplace': ['function.laplace'],
    '__sqrt': ['numpy.sqrt'],
    '__setitem': ['operator.setitem'],
    '__pow_like': ['function.jacobian', 'numpy.power', 'operator.pow'],
    '__unary_op': ['function.normal', 'function.normalized', 'numpy.isfinite', 'numpy.isnan', 'numpy.ndim', 'numpy.shape', 'numpy.size'],
    '__binary_op': ['numpy.equal', 'numpy.greater', 'numpy.greater_equal', 'numpy.less', 'numpy.less_equal', 'numpy.not_equal', 'operator.eq', 'operator.ge', 'operator.gt',
                    'operator.le', 'operator.lt', 'operator.ne'],
    '__stack_like': ['numpy.stack', 'numpy.concatenate'],
    '__evaluate@0': ['function.curvature'],
    '__evaluate@1': ['function.evaluate'],
    '__field': ['function.field'],
    '__attribute': ['function.arguments_for'],
    '__interp': ['numpy.interp'],
    '__locate': ['topology.Topology.locate'],
    '__sample': ['sample.Sample.bind', 'sample.Sample.integral'],
}


def registration_table():
    cls = extract.get_class('SI', 'Quantity')
    table, seen = {}, {}
    for n in cls.body:
        if isinstance(n, ast.FunctionDef):
            k = seen.get(n.name, 0)
            seen[n.name] = k + 1
            regs = [ast.unparse(d.args[0]) for d in n.decorator_list if isinstance(d, ast.Call) and isinstance(d.func, ast.Name) and d.func.id == 'register' and d.args]
            if regs:
                key = n.name if k == 0 and sum(1 for m in cls.body if isinstance(m, ast.FunctionDef) and m.name == n.name) == 1 else '%s@%d' % (n.name, k)
                for r in regs:
                    table.setdefault(r, []).append(key)
    return table


def extra_obligations(tier, seed):
    table = registration_table()
    obs = []
    want = {}
    for h, ops_ in EXPECTED.items():
        for o in ops_:
            want[o] = h
    for o in sorted(set(want) | set(table)):
        got = table.get(o, [])
        ok = got == [want.get(o)]
        ob = Obligation('C20/SI:Quantity.register/table/%s' % o, [], z3.BoolVal(ok), 'ground', fn='SI:Quantity.register', clause='registered:' + o,
                        info={'expected_handler': want.get(o), 'registered_handlers': got})
        ob.replay_script = "import sys; sys.path.insert(0, %r)\nfrom native import c20\nc20.table(%r, %r, %r)\n" % (
            __import__('os').path.dirname(__import__('os').path.dirname(__import__('os').path.abspath(__file__))), o, want.get(o), got)
        obs.append(ob)
    nreg = len(obs)
    for m in EXTENSIONS:
        if hasattr(m, 'extra_obligations'):
            obs += m.extra_obligations()
    return {'obligations': obs, 'summary': 'dispatch table: %d registered callables compared with the expected map; %d further ground obligations (operator table)' % (nreg, len(obs) - nreg)}


def contracts():
    cs = []
    for k in ('q',):
        cs += [Unary(k), Sqrt(k), UnaryOp(k), Sample(k), Curvature(k), PowLike(k, 'int'), PowLike(k, 2), PowLike(k, -1)]
    for k in ('qq', 'qp', 'pq'):
        cs += [AddLike(k), MulLike(k), DivLike(k), Laplace(k), BinaryOp(k), SetItem(k), StackLike(k), Field(k)]
    cs += [StackLike('qqq'), Interp('qqq'), Interp('qqp'), Interp('ppq')]
    import itertools
    subsets = [(), ('L',), ('M',), ('L', 'M')]
    for m in ('_binop', '__mul__', '__truediv__'):
        for ka in subsets:
            for kb in subsets:
                cs.append(Algebra(m, ka, kb))
    cs += [Pow('int'), Pow('fraction'), Wrap(True), Wrap(False)]
    cs += [CallCheck(cd, p) for cd in (False, True) for p in ('float', 'same', 'other')]
    for m in EXTENSIONS:
        cs += m.contracts()
    return cs


TRUSTED = ['pyvc symbolic executor; generator Quantity.__unpack evaluated eagerly (its consumers exhaust it)',
           'the wrapped operators/functions are uninterpreted: a handler is checked to call op exactly once on the unwrapped values',
           'Dimension.from_powers interns canonically (equal exponent maps -> the same class): the naming/caching code is not under contract',
           'EXPECTED registration map (contracts/C20.py) is the specification of which function follows which rule']
ASSUMPTIONS = ['three symbolic base dimensions in the handler contracts / two named bases in the algebra contracts (the code is generic in base names); exponents are arbitrary rationals (reals)',
               'Quantity.__locate, __attribute and the evaluate handler are covered by the registration table only']
from contracts import C20_ops, C20_strings, C20_unit
EXTENSIONS = [C20_ops, C20_strings, C20_unit]
for _m in EXTENSIONS:
    TRUSTED += getattr(_m, 'TRUSTED', [])
    ASSUMPTIONS += getattr(_m, 'ASSUMPTIONS', [])
NOT_COVERED = ['numerical values in reference units (float arithmetic), the wrapped nutils/numpy functions themselves']
for _m in EXTENSIONS:
    NOT_COVERED += getattr(_m, 'NOT_COVERED', [])
