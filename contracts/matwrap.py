"""Thin wrappers of the matrix module (registered under C15): each delegates with the right arguments / sign / inverse.

  matrix.eye(n)                      = diag(d) with len(d) = n and every d[i] the float 1.0 (ValueError iff n < 0, from numpy.ones)
  matrix.assemble(data, index, shape)  (deprecated) = assemble_coo(data, index[0], shape[0], index[1], shape[1])
  Matrix.__sub__(self, other)        = self.__add__(-other)          (the negation is other's own __neg__)
  Matrix.__rmul__(self, other)       = self.__mul__(other)
  Matrix.__truediv__(self, other)    = self.__mul__(x) with x * other = 1; ZeroDivisionError iff other = 0 (real scalar)
The callees are recorded, not executed: diag / assemble_coo have their own contracts in contracts/C15.py; __add__, __mul__, __neg__ are
abstract in the base class (backend arithmetic is outside, see NOT_COVERED).
"""
import z3
from pyvc.contract import Contract, State
from pyvc.values import SInt, SReal, SObj, SOpaque, Unsupported, zint
from pyvc.nparr import Vec, Numpy, qforall
from pyvc.fp import SFp
from pyvc.values import FIN

PROP = 'C15'


class Quiet:
    """warnings / log objects: every method is a no-op"""

    def sym_getattr(self, ctx, name):
        return lambda ctx, *a, **k: None


class Eye(Contract):
    prop = PROP
    fn = 'matrix/__init__:eye'

    def setup(self, cx):
        n = cx.int('n')
        S = State(n=n, calls=[])

        def diag(ctx, d):
            S.calls.append(d)
            return SOpaque('Matrix')
        S.args = (SInt(n),)
        S.globals = {'numpy': Numpy(), 'diag': diag}
        return S

    def ensures(self, cx, S, result):
        if len(S.calls) != 1 or not (isinstance(S.calls[0], Vec) and S.calls[0].kind == 'fp'):
            raise Unsupported('eye did not hand one float array to diag: %r' % (S.calls,))
        d = S.calls[0]
        one = lambda i: z3.And(SFp(*d.sel(i)).t == FIN, SFp(*d.sel(i)).v == 1)
        return [('n-by-n', d.n == S.n), ('unit-diagonal', qforall(1, lambda i: z3.Implies(z3.And(0 <= i, i < S.n), one(i)))), ('accepted-size', S.n >= 0)]

    def raises(self, cx, S, e):
        if e.exc.split(':')[0] != 'ValueError':
            return False
        return S.n < 0

    def replay(self, ob):
        import os
        here = os.path.dirname(os.path.dirname(os.path.abspath(__file__)))
        return "import sys; sys.path.insert(0, %r)\nfrom native import c15c\nc15c.run_wrappers('eye')\n" % here


class DeprecatedAssemble(Contract):
    prop = PROP
    fn = 'matrix/__init__:assemble'
    label = 'deprecated'  # makes the key selectable (assemble_csr/_coo/_block_csr share the prefix)

    def setup(self, cx):
        names = ('data', 'rowidx', 'colidx', 'nrows', 'ncols')
        tok = {k: SOpaque(k) for k in names}
        S = State(tok=tok, calls=[])

        def assemble_coo(ctx, *a, **k):
            S.calls.append((a, k))
            return SOpaque('Matrix')
        S.args = (tok['data'], (tok['rowidx'], tok['colidx']), (tok['nrows'], tok['ncols']))
        S.globals = {'warnings': Quiet(), 'assemble_coo': assemble_coo}
        return S

    def ensures(self, cx, S, result):
        if len(S.calls) != 1:
            raise Unsupported('assemble called assemble_coo %d times' % len(S.calls))
        a, k = S.calls[0]
        params = ('values', 'rowidx', 'nrows', 'colidx', 'ncols')  # signature of assemble_coo
        got = dict(zip(params, a))
        got.update(k)
        want = dict(values='data', rowidx='rowidx', nrows='nrows', colidx='colidx', ncols='ncols')
        return [('passes-%s' % p, z3.BoolVal(got.get(p) is S.tok[want[p]])) for p in params] + [('no-extra-arguments', z3.BoolVal(len(a) + len(k) == 5 and set(got) == set(params)))]

    def replay(self, ob):
        import os
        here = os.path.dirname(os.path.dirname(os.path.abspath(__file__)))
        return "import sys; sys.path.insert(0, %r)\nfrom native import c15c\nc15c.run_wrappers('assemble')\n" % here


class MatObj(SObj):
    """an object whose unary minus is its own __neg__ (Python's data model)"""

    def unop(self, ctx, op):
        if op == '-' and '__neg__' in self.methods:
            return self.methods['__neg__'](ctx, self)
        return super().unop(ctx, op)


class Operator(Contract):
    prop = PROP

    def __init__(self, name):
        self.name = name
        self.fn = 'matrix/_base:Matrix.' + name
        if name != '__sub__':
            self.exact = True

    def setup(self, cx):
        S = State(calls=[], neg=None)
        S.ret = SOpaque('result of the delegate')

        def delegate(which):
            def f(ctx, s, *a, **k):
                S.calls.append((which, s, a, k))
                return S.ret
            return f
        S.A = MatObj('Matrix', methods={'__add__': delegate('__add__'), '__mul__': delegate('__mul__')})
        if self.name == '__sub__':
            S.negated = SOpaque('-other')

            def neg(ctx, s):
                S.neg = s
                return S.negated
            S.other = MatObj('Matrix', methods={'__neg__': neg})
        else:
            S.x = cx.real('other')  # a real scalar
            S.other = SReal(S.x)
        S.args = (S.A, S.other)
        S.globals = {}
        return S

    def ensures(self, cx, S, result):
        want = '__add__' if self.name == '__sub__' else '__mul__'
        out = [('returns-the-delegate-result', z3.BoolVal(result is S.ret)),
               ('delegates-once-to-' + want, z3.BoolVal(len(S.calls) == 1 and S.calls[0][0] == want and S.calls[0][1] is S.A and len(S.calls[0][2]) == 1 and not S.calls[0][3]))]
        if len(S.calls) != 1 or len(S.calls[0][2]) != 1:
            return out
        arg = S.calls[0][2][0]
        if self.name == '__sub__':
            out.append(('argument-is-minus-other', z3.BoolVal(arg is S.negated and S.neg is S.other)))
        else:
            from pyvc.values import zreal
            try:
                a = zreal(arg)
            except TypeError:
                a = None
            if self.name == '__rmul__':
                out.append(('argument-is-other', a == S.x if a is not None else z3.BoolVal(False)))
            else:
                out.append(('argument-is-the-inverse-of-other', z3.And(S.x != 0, a * S.x == 1) if a is not None else z3.BoolVal(False)))
        return out

    def raises(self, cx, S, e):
        if self.name == '__truediv__' and e.exc.split(':')[0] == 'ZeroDivisionError':
            return S.x == 0
        return False

    def replay(self, ob):
        import os
        here = os.path.dirname(os.path.dirname(os.path.abspath(__file__)))
        return "import sys; sys.path.insert(0, %r)\nfrom native import c15c\nc15c.run_wrappers(%r)\n" % (here, self.name)


def contracts():
    return [Eye(), DeprecatedAssemble(), Operator('__sub__'), Operator('__rmul__'), Operator('__truediv__')]
