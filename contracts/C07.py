"""C07 (kernel) -- shape calculus of indexing follows NumPy.

function._takeslice(array, s, axis) for a unit-step slice with ANY integer (or absent) start/stop and any axis length n:
    the selected indices are exactly  range(n)[s]  -- i.e. the result is the array itself or take(array, Range(length)+start)
    with length == len(range(n)[s]) and (length > 0 => start == range(n)[s].start); no exception.
    (slice.indices semantics: negative bounds count from the end, everything is clamped to [0, n].)
numeric.normdim: index normalisation, IndexError exactly when out of range.
Array.__getitem__: axis accounting of basic indexing (BOUNDED patterns).
Shape calculus (contracts/c07shape.py, all BOUNDED in rank / number of operands, symbolic lengths, real bodies incl. callees):
    broadcast_shapes / broadcast_to / broadcast_arrays / _Wrapper.broadcasted_arrays, transpose / swapaxes / _Transpose.to_end / from_end,
    _Concatenate.__init__ / concatenate / stack, expand_dims / insertaxis / _append_axes / _prepend_axes, unravel, get,
    take (constant index array), reshape / ravel, typecast_arrays (kind join table).
"""
import z3
from pyvc.contract import Contract, State
from pyvc.values import SInt, SBool, SObj, SOpaque, Sym, Unsupported, PyRaise, zint, zbool, is_intlike
from pyvc.ops import ClassRef, Builtin
from pyvc import ops
from pyvc.native import NativeBounded

PROP = 'C07'
LEVEL = 'proof'


class RangeIndex(Sym):
    """_Wrapper(evaluable.Range, length) [+ start]: the index array  start, start+1, ..., start+length-1"""

    def __init__(self, length, start=0):
        self.length_, self.start = length, start

    def binop(self, ctx, op, other, reflected):
        if op == '+' and is_intlike(other):
            return RangeIndex(self.length_, zint(self.start) + zint(other) if not isinstance(self.start, int) or self.start != 0 else other)
        return NotImplemented


def py_slice_spec(start, stop, n):
    """(start', length) of range(n)[start:stop] with optional bounds; z3 terms."""
    def clamp(x, default):
        if x is None:
            return default
        v = z3.If(x < 0, x + n, x)
        return z3.If(v < 0, 0, z3.If(v > n, n, v))
    a = clamp(start, z3.IntVal(0))
    b = clamp(stop, n)
    return a, z3.If(b > a, b - a, 0)


class TakeSlice(Contract):
    prop = PROP
    fn = 'function:_takeslice'

    def __init__(self, has_start, has_stop, step):
        self.has_start, self.has_stop, self.step = has_start, has_stop, step
        self.label = 'start=%s,stop=%s,step=%s' % (has_start, has_stop, step)

    def setup(self, cx):
        n = cx.int('n')
        cx.assume(n >= 0)
        start = cx.int('start') if self.has_start else None
        stop = cx.int('stop') if self.has_stop else None
        array = SObj('Array', attrs=dict(shape=(SInt(n),), ndim=1), classes=('Array',))
        s = slice(SInt(start) if start is not None else None, SInt(stop) if stop is not None else None, self.step)
        S = State(args=(array, s, 0), n=n, start=start, stop=stop, array=array, taken=None)

        def take(ctx, arr, index, axis):
            S.taken = (arr, index, axis)
            return SOpaque('taken')

        class NP:
            def sym_getattr(self, ctx, name):
                if name == 'take':
                    return take
                raise Unsupported('numpy.' + name)

        class Ev:
            def sym_getattr(self, ctx, name):
                return ClassRef(name)

        class Numbers:
            def sym_getattr(self, ctx, name):
                return Builtin('int')

        def wrapper(ctx, cls, *args, shape=None, dtype=None):
            if getattr(cls, '__name__', None) == 'Range':
                return RangeIndex(args[0])
            raise Unsupported('_Wrapper(%r)' % (cls,))
        S.globals = {'Array': ClassRef('Array', attrs={'cast': lambda ctx, x: x}), 'numpy': NP(), 'evaluable': Ev(), 'numbers': Numbers(),
                     '_Wrapper': wrapper, '_WithoutPoints': lambda ctx, x: x, '_Constant': lambda ctx, x: x}
        return S

    def ensures(self, cx, S, result):
        es, el = py_slice_spec(S.start, S.stop, S.n)
        if result is S.array:
            return [('selects-range(n)[s]', z3.And(es == 0, el == S.n))]
        if S.taken is None:
            raise Unsupported('neither the array nor a take was returned')
        arr, index, axis = S.taken
        if not isinstance(index, RangeIndex) or arr is not S.array:
            raise Unsupported('take with index %r' % (index,))
        return [('selects-range(n)[s]', z3.And(zint(index.length_) == el, z3.Implies(el > 0, zint(index.start) == es), axis == 0))]

    def replay(self, ob):
        import os, json
        here = os.path.dirname(os.path.dirname(os.path.abspath(__file__)))
        return "import sys; sys.path.insert(0, %r)\nfrom native import c07\nc07.takeslice(%s)\n" % (here, json.dumps({k: v for k, v in (ob.model or {}).items() if k in ('n', 'start', 'stop')}))


class NormDim(Contract):
    prop = PROP
    fn = 'numeric:normdim'

    def setup(self, cx):
        nd, n = cx.int('ndim'), cx.int('n')
        cx.assume(nd >= 0)
        return State(args=(SInt(nd), SInt(n)), nd=nd, n=n, globals={'isint': lambda ctx, x: True})

    def raises(self, cx, S, e):
        if e.exc == 'IndexError':
            return z3.Not(z3.And(-S.nd <= S.n, S.n < S.nd))
        return False

    def ensures(self, cx, S, result):
        return [('in-range', z3.And(-S.nd <= S.n, S.n < S.nd)), ('normalised', zint(result) == z3.If(S.n < 0, S.n + S.nd, S.n))]


class ShapeArr(Sym):
    """A function array known by its shape only."""

    def __init__(self, lens):
        self.lens = list(lens)

    def getattr(self, ctx, name):
        if name == 'ndim':
            return len(self.lens)
        if name == 'shape':
            return tuple(SInt(x) for x in self.lens)
        raise Unsupported('Array.' + name)


ITEM_KINDS = ('int', 'full', 'slice', 'ellipsis', 'newaxis')


class GetItem(Contract):
    """Array.__getitem__ for one pattern of basic indices on an array of one rank: the resulting shape is NumPy's."""
    prop = PROP
    fn = 'function:Array.__getitem__'
    bounded = 'rank <= 3 and at most 3 index items (basic indexing: int, slice, ellipsis, newaxis); axis lengths and slice bounds symbolic'

    def __init__(self, ndim, pattern):
        self.ndim, self.pattern = ndim, pattern
        self.label = 'ndim=%d,items=%s' % (ndim, '+'.join(pattern) or 'none')
        self.expect_return = self.numpy_defined()

    def numpy_defined(self):
        consumed = sum(1 for k in self.pattern if k in ('int', 'full', 'slice'))
        return consumed <= self.ndim and self.pattern.count('ellipsis') <= 1

    def setup(self, cx):
        lens = [cx.int('n%d' % i) for i in range(self.ndim)]
        for n in lens:
            cx.assume(n >= 1)
        arr = ShapeArr(lens)
        items, S = [], State(lens=lens, arr=arr, slices={}, ints={})
        for k, kind in enumerate(self.pattern):
            if kind == 'int':
                v = cx.int('idx%d' % k)
                S.ints[k] = v
                items.append(SInt(v))
            elif kind == 'full':
                items.append(slice(None))
            elif kind == 'slice':
                a, b = cx.int('start%d' % k), cx.int('stop%d' % k)
                S.slices[k] = (a, b)
                items.append(slice(SInt(a), SInt(b)))
            elif kind == 'ellipsis':
                items.append(Ellipsis)
            else:
                items.append(None)
        S.args = (arr, tuple(items) if len(items) != 1 else items[0])

        def expand_dims(ctx, a, axis):
            return ShapeArr(a.lens[:axis] + [z3.IntVal(1)] + a.lens[axis:])

        def takeslice(ctx, a, s, axis):
            # contract of function._takeslice (proved above): the axis keeps len(range(n)[s]) entries
            if not 0 <= axis < len(a.lens):
                raise PyRaise('IndexError', note='axis out of range')
            n = a.lens[axis]
            _, ln = py_slice_spec(None if s.start is None else zint(s.start), None if s.stop is None else zint(s.stop), n)
            return ShapeArr(a.lens[:axis] + [ln] + a.lens[axis + 1:])

        def take(ctx, a, it, axis):
            if not 0 <= axis < len(a.lens):
                raise PyRaise('IndexError', note='axis out of range')
            return ShapeArr(a.lens[:axis] + a.lens[axis + 1:])

        class NP:
            def sym_getattr(self, ctx, name):
                if name == 'newaxis':
                    return None
                if name == 'take':
                    return take
                if name == 'ndim':
                    return lambda ctx, x: 0
                raise Unsupported('numpy.' + name)
        S.globals = {'numpy': NP(), 'expand_dims': expand_dims, '_takeslice': takeslice}
        return S

    def raises(self, cx, S, e):
        # NumPy rejects "too many indices"; anything else must be accepted
        return not self.numpy_defined()

    def ensures(self, cx, S, result):
        if not isinstance(result, ShapeArr):
            raise Unsupported('returned %r' % (result,))
        if not self.numpy_defined():
            return [('rejects-what-numpy-rejects', z3.BoolVal(False))]
        # NumPy's basic-indexing shape rule
        pat = list(self.pattern)
        consumed = sum(1 for k in pat if k in ('int', 'full', 'slice'))
        nfill = self.ndim - consumed
        expanded = []
        if 'ellipsis' in pat:
            i = pat.index('ellipsis')
            expanded = [(k, kind) for k, kind in enumerate(pat[:i])] + [(None, 'full')] * nfill + [(k + i + 1, kind) for k, kind in enumerate(pat[i + 1:])]
        else:
            expanded = [(k, kind) for k, kind in enumerate(pat)] + [(None, 'full')] * nfill
        want, axis = [], 0
        for k, kind in expanded:
            if kind == 'newaxis':
                want.append(z3.IntVal(1))
            elif kind == 'int':
                axis += 1
            elif kind == 'full':
                want.append(S.lens[axis])
                axis += 1
            elif kind == 'slice':
                a, b = S.slices[k]
                want.append(py_slice_spec(a, b, S.lens[axis])[1])
                axis += 1
        if len(want) != len(result.lens):
            return [('numpy-shape', z3.BoolVal(False))]
        return [('numpy-shape', z3.And(*[g == w for g, w in zip(result.lens, want)]) if want else z3.BoolVal(True))]

    def replay(self, ob):
        import os, json
        here = os.path.dirname(os.path.dirname(os.path.abspath(__file__)))
        return "import sys; sys.path.insert(0, %r)\nfrom native import c07\nc07.getitem(%d, %r)\n" % (here, self.ndim, list(self.pattern))


def getitem_contracts():
    import itertools
    out = []
    for ndim in range(0, 4):
        for k in range(0, 4):
            for pat in itertools.product(ITEM_KINDS, repeat=k):
                if pat.count('ellipsis') > 1:
                    continue
                consumed = sum(1 for x in pat if x in ('int', 'full', 'slice'))
                if consumed > ndim + 1:
                    continue  # one "too many indices" case per prefix is enough
                if k == 3 and (pat.count('slice') > 1 or pat.count('int') > 2):
                    continue
                out.append(GetItem(ndim, pat))
    return out


class InterpGrid(NativeBounded):
    """numpy.interp applied to a function array equals numpy.interp applied to its value -- at the knots themselves, between and outside them,
    with and without left/right (BOUNDED native enumeration, 4 knot tables x 4 option combinations x a grid of x).  On the pinned commit x == xp[0]
    gave the `left` value (repaired).  The degenerate single-knot table still does (recorded KNOWN FINDING, clause interp-single-knot-equals-numpy)."""
    prop = PROP
    fn = 'function:__implementations__.interp'
    label = 'native-grid'
    bounded = 'native enumeration: 4 knot tables, left/right given or not, x on a grid containing every knot, midpoints and outside points (140 cases)'
    module = 'c07'
    call = 'interp_grid()'
    clauses = ('interp-equals-numpy', 'interp-single-knot-equals-numpy')


def contracts():
    cs = [NormDim(), InterpGrid()] + getitem_contracts()
    for hs in (False, True):
        for hp in (False, True):
            for step in (None, 1):
                cs.append(TakeSlice(hs, hp, step))
    from contracts import c07shape
    return cs + c07shape.contracts()


TRUSTED = ['pyvc symbolic executor; _Wrapper(evaluable.Range, length) + start denotes the index array start..start+length-1; numpy.take(array, index, axis) selects those indices',
           'specification: Python slice.indices / range(n)[s] semantics as the NumPy rule for basic slices',
           # ---- shape calculus (contracts/c07shape.py)
           'shape model: a function array is known by (shape, dtype) only; Array.size is the product of the shape; Array.spaces/arguments are empty (argument bookkeeping is C13)',
           '_Wrapper(lower, *args, shape=, dtype=) announces exactly the shape and dtype it is given (_Wrapper.__init__ is not under contract; Array.__init__ IS executed for _Transpose/_Concatenate)',
           'Array.cast: identity on arrays, a 0-d int/bool/float constant for a Python number, a 1-d constant for a constant index array; its dtype=/ndim= checks raise ValueError (real body not executed: deep_reduce/numpy.stack)',
           'NEP-18 dispatch: numpy.X(function array, ...) reaches __implementations__.X for X in take, reshape, ravel, transpose, swapaxes, repeat, concatenate, stack, broadcast_to; array + array reaches _Wrapper.broadcasted_arrays(evaluable.add, a, b)',
           'util.sum / util.product are left folds of + / *; util.deep_reduce(numpy.stack, x) returns a flat constant index array or an Array unchanged; _join_arguments is C13 (returns the joined table, here empty)',
           'numpy.prod of Python ints is their exact product (int64 overflow not modelled); numpy.argsort of a concrete list of ints is the stable sorting permutation; numpy.array(index array) copies; a[mask] += c increments exactly the masked entries; (a < c).any() is the existential',
           'builtins.max/min with key= return the first extremal item; functools.reduce / operator.or_ / functools.partial by their definitions; divmod, // and % of axis lengths in characteristic form a == b*q + r, 0 <= r < b (L-DIVMOD, exact)',
           'set of integers (pyvc.pybuiltins.IntSet): len = number of distinct members, discard removes equal members, next(iter(s)) is SOME member (arbitrary iteration order)',
           'specification: NumPy shape rules written as spec functions np_broadcast / np_broadcast_to / np_transpose / np_concatenate / np_stack / numpy.expand_dims / numpy.take / numpy.reshape (one -1) and the kind join bool < int < float < complex; replays run the witness through real numpy',
           'decorators @implements, @nutils_dispatch, @classmethod dropped (DESIGN 3); error-message construction opaque']
ASSUMPTIONS = ['constant (integer) axis length n >= 0', 'unit step; non-unit steps go through slice.indices + numpy.arange in the code (concrete) and are not under contract',
               'shape calculus: all axis lengths are constant non-negative integers (array-valued lengths are outside); requested lengths (broadcast_to, insertaxis, unravel) are >= 0',
               'broadcast_shapes is called with at least one shape (with none it raises ValueError by design; numpy.broadcast_shapes() returns ())',
               'reshape (live contracts): every axis length and every requested length is >= 1 -- zero-length axes and negative requested lengths are the PARKED contracts (candidate defects, notes/C07-shape.md)',
               'transpose (live contracts): `axes` is None, a permutation (negative entries allowed) or contains an out-of-range axis -- repeated axes / wrong number of axes are PARKED (candidate defect)',
               'unravel: axis >= 0 (a negative axis moves the second new axis to the front: documented as "axes axis and axis+1"); the check a*b == length is PARKED (not performed by the code)',
               'take: constant 1-D integer index array; axis=None with lengths >= 1; get: scalar index, its range is checked at evaluation time (NormDim), not at build time',
               'ranks, numbers of operands, axis arguments and the position of -1 are fixed per contract instance (all `bounded`, never counted as proved)']
NOT_COVERED = ['values at sample points, every lowering rule relative to leading point axes (lower methods), the ~90 other dispatch entries (ufunc arithmetic beyond the shape/kind of broadcasted_arrays, reductions, einsum, linear algebra, choose, interp, searchsorted ...)',
               'take with a function-array index or an index array of rank >= 2, boolean lists as indices (nutils raises a ufunc TypeError where numpy treats them as 0/1), compress, repeat of a non-singleton axis (NotImplementedError by design)',
               'array-valued axis lengths; _takeslice with non-constant length; broadcast_to with an int instead of a tuple (TypeError in nutils)',
               'reshape from rank 2 to (n, -1, n) and any structure beyond rank 3 / 3 requested axes: the no-AssertionError obligations time out (nonlinear arithmetic)',
               'PARKED contracts (fail on the unchanged tree; candidate defects for the lead): ' + '; '.join(sorted(set(c.key() for c in __import__('contracts.c07shape', fromlist=['x']).parked_contracts())))]
