# C11 probe: one iteration of transform.canonical preserves compose(items)
import z3, time
T=z3.DeclareSort('T'); M=z3.DeclareSort('M'); I=z3.IntSort()
A=z3.ArraySort(I,T)
m=z3.Function('m',T,M); mul=z3.Function('mul',M,M,M)
comp=z3.Function('comp',A,I,I,M)   # product of a[lo:hi]
a,b=z3.Consts('a b',A); lo,hi,k,i,n=z3.Ints('lo hi k i n'); x,y,z=z3.Consts('x y z',M)
s0,s1=z3.Consts('s0 s1',T)
ax=[z3.ForAll([x,y,z], mul(mul(x,y),z)==mul(x,mul(y,z))),
    # split (L-MONOID), instantiated by trigger on comp terms
    z3.ForAll([a,lo,k,hi], z3.Implies(z3.And(lo<=k,k<=hi), comp(a,lo,hi)==mul(comp(a,lo,k),comp(a,k,hi))), patterns=[z3.MultiPattern(comp(a,lo,k),comp(a,k,hi))]),
    z3.ForAll([a,k], comp(a,k,k+1)==m(a[k])),
    # frame: arrays agreeing on [lo,hi) have equal products (extensionality lemma)
   ]
j=z3.Int('j')
def agree(a,b,lo,hi): return z3.ForAll([j], z3.Implies(z3.And(lo<=j,j<hi), a[j]==b[j]))
frame=lambda a,b,lo,hi: z3.Implies(agree(a,b,lo,hi), comp(a,lo,hi)==comp(b,lo,hi))
items=z3.Const('items',A); items2=z3.Const('items2',A)
hyp=ax+[0<=i, i+1<n,
     items2==z3.Store(z3.Store(items,i,s0),i+1,s1),
     mul(m(s0),m(s1))==mul(m(items[i]),m(items[i+1])),
     frame(items,items2,0,i), frame(items,items2,i+2,n)]
goal=comp(items2,0,n)==comp(items,0,n)
# help: mention the split points
hints=[comp(items,0,i)==comp(items,0,i), comp(items,i,i+1)==comp(items,i,i+1), comp(items,i+1,i+2)==comp(items,i+1,i+2), comp(items,i+2,n)==comp(items,i+2,n),
       comp(items,i,i+2)==comp(items,i,i+2), comp(items,i,n)==comp(items,i,n),
       comp(items2,0,i)==comp(items2,0,i), comp(items2,i,i+1)==comp(items2,i,i+1), comp(items2,i+1,i+2)==comp(items2,i+1,i+2), comp(items2,i+2,n)==comp(items2,i+2,n),
       comp(items2,i,i+2)==comp(items2,i,i+2), comp(items2,i,n)==comp(items2,i,n)]
s=z3.Solver(); s.set('timeout',60000); s.add(*hyp); s.add(*hints); s.add(z3.Not(goal))
t=time.time(); print('canonical step preserves composition:', s.check(), round(time.time()-t,2))
