import Mathlib
open Real
theorem d_tanh (x : ℝ) : HasDerivAt (fun x => Real.tanh x) (1 - (Real.tanh x)^2) x := by
  have hc : Real.cosh x ≠ 0 := (Real.cosh_pos x).ne'
  have h := (Real.hasDerivAt_sinh x).div (Real.hasDerivAt_cosh x) hc
  have e : (fun x => Real.tanh x) = fun x => Real.sinh x / Real.cosh x := by
    funext y; exact Real.tanh_eq_sinh_div_cosh y
  rw [e]
  convert h using 1
  rw [Real.tanh_eq_sinh_div_cosh]
  field_simp
-- a wrong rule must fail:
theorem d_cos_wrong (x : ℝ) : HasDerivAt (fun x => Real.cos x) ((Real.sin x)) x := by
  simpa using Real.hasDerivAt_cos x
