# FloorDivide soundness split per path (what the VC generator does) instead of one merged query
import z3, time, itertools
exec(open('p8.py').read().split("l,u,l2,u2=sym('l')")[0])
l,u,l2,u2=sym('l'),sym('u'),sym('l2'),sym('u2'); a,b=z3.Ints('a b'); zero=fin(0); one=fin(1)
H=[wf(l,u),wf(l2,u2),inb(a,l,u),inb(b,l2,u2)]
fdv=z3.If(b==0,0,pyfd(a,b))
tot=0; worst=0; n=0
for negb in (True,False):
    pc=[lt(u2,zero)] if negb else [z3.Not(lt(u2,zero)), z3.Not(le(l2,zero))]
    dl,du,lo,hi=(neg(u2),neg(l2),neg(u),neg(l)) if negb else (l2,u2,l,u)
    for lofin,lole0,hifin,hige0,dufin in itertools.product((True,False),repeat=5):
        p=list(pc)+[isfin(lo) if lofin else z3.Not(isfin(lo)), le(lo,zero) if lole0 else z3.Not(le(lo,zero)),
                    isfin(hi) if hifin else z3.Not(isfin(hi)), ge(hi,zero) if hige0 else z3.Not(ge(hi,zero)),
                    isfin(du) if dufin else z3.Not(isfin(du))]
        # concrete path values
        if lofin:
            d = dl.v if lole0 else (z3.If(lo.v+1<du.v,lo.v+1,du.v) if dufin else lo.v+1)
            rlo=fin(pyfd(lo.v,d))
        else: rlo=lo
        if hifin:
            d = dl.v if hige0 else (z3.If(1-hi.v<du.v,1-hi.v,du.v) if dufin else 1-hi.v)
            rhi=fin(pyfd(hi.v,d))
        else: rhi=hi
        s=z3.Solver(); s.set('timeout',30000); s.add(*H); s.add(*p)
        if s.check()!=z3.sat: continue   # infeasible path
        s.add(z3.Not(z3.And(inb(fdv,rlo,rhi), wf(rlo,rhi))))
        t=time.time(); r=s.check(); dt=time.time()-t; tot+=dt; worst=max(worst,dt); n+=1
        if r!=z3.unsat: print('path',negb,lofin,lole0,hifin,hige0,dufin,r,round(dt,2))
print('feasible paths',n,'total',round(tot,2),'worst',round(worst,2))
