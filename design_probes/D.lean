import Mathlib
open Real
-- Cos.deriv = lambda x: -Sin(x)
theorem d_cos (x : ℝ) : HasDerivAt (fun x => Real.cos x) (-(Real.sin x)) x := by
  simpa using Real.hasDerivAt_cos x
-- Tan.deriv = Cos(x)**(-2)
theorem d_tan (x : ℝ) (h : Real.cos x ≠ 0) : HasDerivAt (fun x => Real.tan x) ((Real.cos x) ^ (-2:ℤ)) x := by
  have := Real.hasDerivAt_tan h
  convert this using 1
  field_simp
-- ArcSin
theorem d_arcsin (x : ℝ) (h1 : x ≠ -1) (h2 : x ≠ 1) : HasDerivAt (fun x => Real.arcsin x) ((Real.sqrt (1 - x^2))⁻¹) x := by
  have := Real.hasDerivAt_arcsin h1 h2
  convert this using 1
  simp
-- TanH: 1 - tanh^2
theorem d_tanh (x : ℝ) : HasDerivAt (fun x => Real.tanh x) (1 - (Real.tanh x)^2) x := by
  have h := Real.hasDerivAt_tanh x
  convert h using 1
-- Log
theorem d_log (x : ℝ) (h : x ≠ 0) : HasDerivAt (fun x => Real.log x) (x⁻¹) x := Real.hasDerivAt_log h
