import numpy
from nutils import evaluable as ev, function
# NormDim over an empty index array with length 0
n0 = ev.constant(0)
idx = ev.Argument('i', (n0,), int)
length = ev.InsertAxis(ev.constant(0), n0)
try:
    nd = ev.NormDim(length, idx)
    print('NormDim bounds', nd._intbounds)
except AssertionError as e:
    print('NormDim raised AssertionError', e)
# user-level: take from an empty axis with an empty index argument
try:
    a = function.Argument('a', (0,), float)
    i = function.Argument('i', (0,), int)
    r = numpy.take(a, i)
    print('take shape', r.shape, 'value', r.eval(a=numpy.zeros(0), i=numpy.zeros(0,dtype=int)))
except Exception as e:
    print('user-level raised', type(e).__name__, e)
