# C12 probe: union step of merge_index_map preserves the ghost-representative invariants
import z3, time
I=z3.IntSort()
im=z3.Array('im',I,I); rep=z3.Array('rep',I,I); n=z3.Int('n'); mn=z3.Int('mn')
inR=z3.Function('inR',I,z3.BoolSort())
i,j=z3.Ints('i j')
rng=lambda x: z3.And(0<=x,x<n)
def Inv(im,rep):
    return [z3.ForAll([i], z3.Implies(rng(i), z3.And(0<=im[i], im[i]<=i, 0<=rep[i], rep[i]<=i))),
            z3.ForAll([i], z3.Implies(rng(i), rep[rep[i]]==rep[i])),
            z3.ForAll([i], z3.Implies(rng(i), im[rep[i]]==rep[i])),
            z3.ForAll([i], z3.Implies(rng(i), rep[im[i]]==rep[i])),
            z3.ForAll([i], z3.Implies(z3.And(rng(i), im[i]==i), rep[i]==i))]
hyp=Inv(im,rep)+[
  z3.ForAll([j], z3.Implies(inR(j), z3.And(rng(j), rep[j]==j, mn<=j))), inR(mn)]
im2=z3.Array('im2',I,I); rep2=z3.Array('rep2',I,I)
hyp+=[z3.ForAll([j], im2[j]==z3.If(inR(j), mn, im[j])),
      z3.ForAll([i], rep2[i]==z3.If(inR(rep[i]), mn, rep[i]))]
for k,g in enumerate(Inv(im2,rep2)):
    s=z3.Solver(); s.set('timeout',30000); s.add(*hyp); s.add(z3.Not(g))
    t=time.time(); print('I%d preserved:'%(k+1), s.check(), round(time.time()-t,2))
# documented post for this merge set: all members map to same rep afterwards
e1,e2=z3.Ints('e1 e2')
s=z3.Solver(); s.set('timeout',30000); s.add(*hyp); s.add(rng(e1),rng(e2),inR(rep[e1]),inR(rep[e2])); s.add(rep2[e1]!=rep2[e2])
print('merged members share rep:', s.check())
