# C09 probe: exact rational check of gauss2/gauss3 tables extracted from the AST of /repo/src/nutils/points.py
import ast, math, itertools
from fractions import Fraction as Fr
src=open('/repo/src/nutils/points.py').read(); tree=ast.parse(src)
def getfn(name): return [n for n in tree.body if isinstance(n,ast.FunctionDef) and n.name==name][0]
def ev(node,env):
    if isinstance(node,ast.Constant):
        v=node.value
        return Fr(repr(v)) if isinstance(v,float) else Fr(v)   # float literal -> exact decimal of its shortest repr
    if isinstance(node,ast.BinOp):
        a,b=ev(node.left,env),ev(node.right,env)
        return {ast.Div:lambda:a/b, ast.Mult:lambda:a*b, ast.Sub:lambda:a-b, ast.Add:lambda:a+b}[type(node.op)]()
    if isinstance(node,ast.UnaryOp) and isinstance(node.op,ast.USub): return -ev(node.operand,env)
    if isinstance(node,(ast.List,ast.Tuple)): return [ev(e,env) for e in node.elts]
    if isinstance(node,ast.Name): return env[node.id]
    raise NotImplementedError(ast.dump(node))
def tables(fn):
    f=getfn(fn); env={}
    out=[]
    for st in f.body:
        if isinstance(st,ast.Assign) and isinstance(st.targets[0],ast.Name) and st.targets[0].id in 'IJKL':
            v=ev(st.value,env); env[st.targets[0].id]=[[int(x) for x in row] for row in v]
        if isinstance(st,ast.Assign) and getattr(st.targets[0],'id',None)=='icw':
            node=st.value
            while isinstance(node,ast.IfExp):
                out.append((ast.unparse(node.test), ev(node.body,env))); node=node.orelse
            out.append(('else', ev(node,env)))
    return out
def check(fn,d,maxdeg_of):
    for cond,icw in tables(fn):
        deg=maxdeg_of(cond)
        pts=[]; 
        for I,c,w in icw:
            for row in I:
                pts.append(([c[k] for k in row], w/math.factorial(d)))
        wsum=sum(w for _,w in pts)
        inside=all(all(x>=0 for x in p) and sum(p)<=1 for p,_ in pts)
        worst=Fr(0); worstm=None
        for alpha in itertools.product(range(deg+1),repeat=d):
            if sum(alpha)>deg: continue
            exact=Fr(math.prod(math.factorial(a) for a in alpha), math.factorial(sum(alpha)+d))
            q=sum(w*math.prod(x**a for x,a in zip(p,alpha)) for p,w in pts)
            err=abs(q-exact)
            if err>worst: worst,worstm=err,alpha
        print(f'{fn} [{cond:12s}] deg<={deg} npts={len(pts):2d} sum(w)-1/d!={float(wsum-Fr(1,math.factorial(d))):.1e} inside={inside} max monomial err={float(worst):.2e} at {worstm}')
def deg2(cond): return {'degree <= 1':1,'degree == 2':2,'degree == 3':3,'degree == 4':4,'degree == 5':5,'degree == 6':6,'else':7}[cond]
def deg3(cond): return {'degree <= 1':1,'degree == 2':2,'degree == 3':3,'degree == 4':4,'degree == 5':5,'degree == 6':6,'degree == 7':7,'else':8}[cond]
check('gauss2',2,deg2); check('gauss3',3,deg3)
