# Hand transcription (probe only!) of further _intbounds_impl rules into the ExtInt model of p4, to learn
# which preconditions the contracts need and which rules are unsound on the pinned commit.
import z3, time
exec(open('p4.py').read().split("l1,u1,l2,u2=sym")[0])   # reuse model defs
def neg(a): return E(z3.If(a.t==PINF,NINF,z3.If(a.t==NINF,PINF,a.t)), -a.v)
def add(a,b):
    nan=z3.Or(a.t==NAN,b.t==NAN,z3.And(a.t==PINF,b.t==NINF),z3.And(a.t==NINF,b.t==PINF))
    t=z3.If(nan,NAN,z3.If(z3.Or(a.t==PINF,b.t==PINF),PINF,z3.If(z3.Or(a.t==NINF,b.t==NINF),NINF,FIN)))
    return E(t,a.v+b.v)
def sub(a,b): return add(a,neg(b))
def pabs(a): return E(z3.If(a.t==NINF,PINF,a.t), z3.If(a.v<0,-a.v,a.v))
def ge(a,b): return le(b,a)
def gt(a,b): return lt(b,a)
def pyfd(a,b): # int floor div b!=0
    q=a/b; return z3.If(b>0,q,z3.If(a%b==0,q,q-1))
def pymod(a,b): return a-b*pyfd(a,b)
def show(m): return {str(d):m[d] for d in m.decls() if not str(d).startswith('k!')}
def prove(name,hyps,goal,to=60000):
    s=z3.Solver(); s.set('timeout',to); s.add(*hyps); s.add(z3.Not(goal))
    t=time.time(); r=s.check(); print(f'{name:38s}', r, round(time.time()-t,2), show(s.model()) if r==z3.sat else '')
l,u,l2,u2=sym('l'),sym('u'),sym('l2'),sym('u2'); a,b=z3.Ints('a b'); zero=fin(0); one=fin(1)
H=[wf(l,u),wf(l2,u2),inb(a,l,u),inb(b,l2,u2)]
prove('Negative',H[:1]+H[2:3], z3.And(inb(-a,neg(u),neg(l)), wf(neg(u),neg(l))))
ext=(pabs(l),pabs(u)); c=z3.And(le(l,zero),ge(u,zero))
alo=ite(c,zero,pmin(ext)); ahi=pmax(ext)
prove('Absolute',[H[0],H[2]], z3.And(inb(z3.If(a<0,-a,a),alo,ahi), wf(alo,ahi)))
prove('Minimum',H, z3.And(inb(z3.If(a<b,a,b),pmin([l,l2]),pmin([u,u2])), wf(pmin([l,l2]),pmin([u,u2]))))
prove('Maximum',H, z3.And(inb(z3.If(a>b,a,b),pmax([l,l2]),pmax([u,u2])), wf(pmax([l,l2]),pmax([u,u2]))))
# Mod: dividend [l,u] value a, divisor [l2,u2] value b ; numpy: b==0 -> 0
modv=z3.If(b==0,0,pymod(a,b))
c1=gt(l2,zero); c2=z3.And(le(zero,l),lt(u,l2))
mlo=ite(c1,ite(c2,l,zero),E(z3.IntVal(NINF),z3.IntVal(0))); mhi=ite(c1,ite(c2,u,sub(u2,one)),E(z3.IntVal(PINF),z3.IntVal(0)))
prove('Mod',H, z3.And(inb(modv,mlo,mhi), wf(mlo,mhi)))
# Mod._simplified: guard => a % b == a
prove('Mod._simplified rewrite',H+[c1,c2], modv==a)
# FloorDivide
neg_branch=lt(u2,zero)
dl=ite(neg_branch,neg(u2),l2); du=ite(neg_branch,neg(l2),u2); lo=ite(neg_branch,neg(u),l); hi=ite(neg_branch,neg(l),u)
zero_branch=z3.And(z3.Not(neg_branch), le(l2,zero))
def fd_ext(x,d): return E(z3.IntVal(FIN), pyfd(x.v,d.v))   # only used when both finite
lo_div=ite(le(lo,zero),dl,pmin([add(lo,one),du]))
hi_div=ite(ge(hi,zero),dl,pmin([sub(one,hi),du]))
flo=ite(isfin(lo),fd_ext(lo,lo_div),lo); fhi=ite(isfin(hi),fd_ext(hi,hi_div),hi)
rlo=ite(zero_branch,E(z3.IntVal(NINF),z3.IntVal(0)),flo); rhi=ite(zero_branch,E(z3.IntVal(PINF),z3.IntVal(0)),fhi)
fdv=z3.If(b==0,0,pyfd(a,b))
prove('FloorDivide sound',H, inb(fdv,rlo,rhi))
prove('FloorDivide wf (divisors finite!)',H, z3.And(wf(rlo,rhi), z3.Implies(z3.And(z3.Not(zero_branch),isfin(lo)),isfin(lo_div)), z3.Implies(z3.And(z3.Not(zero_branch),isfin(hi)),isfin(hi_div))))
# InRange(index[l,u] value a, length[l2,u2] value b); evalf asserts 0<=a<b
upper=pmin([u,pmax([zero,sub(u2,one)])]); lower=pmax([zero,pmin([l,upper])])
prove('InRange',H+[0<=a,a<b], z3.And(inb(a,lower,upper),wf(lower,upper)))
prove('InRange._simplified',H+[le(zero,l),le(l,u),lt(u,l2)], z3.And(0<=a,a<b))
# NormDim(length[l2,u2] value b, index[l,u] value a): normdim(b,a): a<0 -> a+b ; must be 0<=r<b else IndexError
r=z3.If(a<0,a+b,a); defined=z3.And(r>=0,r<b)
nb1=ge(l,zero); nb2=z3.And(lt(u,zero),isfin(l2),eq(l2,u2))
nlo=ite(nb1,pmin([l,sub(u2,one)]),ite(nb2,pmax([add(l,l2),zero]),zero)); nhi=ite(nb1,pmin([u,sub(u2,one)]),ite(nb2,pmax([add(u,l2),zero]),sub(u2,one)))
prove('NormDim sound',H+[defined,b>=0], inb(r,nlo,nhi))
prove('NormDim wf',H+[defined,b>=0,le(zero,l2)], wf(nlo,nhi))
prove('NormDim wf w/o witness value',[wf(l,u),wf(l2,u2),le(zero,l2)], wf(nlo,nhi))
prove('NormDim._simplified r1',H+[b>=0,le(zero,l),lt(u,l2)], z3.And(defined,r==a))
prove('NormDim._simplified r2',H+[b>=0,isfin(l2),eq(l2,u2),le(neg(l2),l),lt(u,zero)], z3.And(defined,r==a+l2.v))
# Range(length[l,u]) values 0..n-1, n=a in [l,u], element e
e=z3.Int('e')
prove('Range',[wf(l,u),le(zero,l),inb(a,l,u),0<=e,e<a], z3.And(inb(e,zero,pmax([zero,sub(u,one)])), wf(zero,pmax([zero,sub(u,one)]))))
# RavelIndex: ia[l,u] a, ib[l2,u2] b, nb[l3,u3] n ; value a*n+b ; code: (ia_min*nb_min + ib_min, (ia_max and nb_max and ia_max*nb_max)+ib_max)
l3,u3=sym('l3'),sym('u3'); n=z3.Int('n')
rlo2=add(mul(l,l3),l2); rhi2=add(pand(pand(u,u3),mul(u,u3)),u2)
Hr=H+[wf(l3,u3),inb(n,l3,u3)]
prove('RavelIndex (no sign preconds)',Hr, z3.And(inb(a*n+b,rlo2,rhi2), wf(rlo2,rhi2)))
prove('RavelIndex (ia,ib,nb >= 0)',Hr+[le(zero,l),le(zero,l2),le(zero,l3)], z3.And(inb(a*n+b,rlo2,rhi2), wf(rlo2,rhi2)))
# AssertEqual: values equal
prove('AssertEqual',H+[a==b], z3.And(inb(a,pmax([l,l2]),pmin([u,u2])), wf(pmax([l,l2]),pmin([u,u2]))))
prove('AssertEqual wf on empty arrays',[wf(l,u),wf(l2,u2)], wf(pmax([l,l2]),pmin([u,u2])))
