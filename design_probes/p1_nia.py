import z3, time
def pyfloordiv(a,b):
    # python floor division for b != 0 using z3 euclidean div
    q = a / b  # z3 int div: euclidean: a = b*q + r, 0<=r<|b|
    # floor: if b>0: floor = euclid q ; if b<0: floor(a/b) = -ceil(a/-b)... 
    return z3.If(b > 0, q, z3.If(a % b == 0, q, q - 1))
# 1. multiply bounds, finite
l1,u1,l2,u2,a,b = z3.Ints('l1 u1 l2 u2 a b')
def mn(*xs):
    r = xs[0]
    for x in xs[1:]: r = z3.If(x<r,x,r)
    return r
def mx(*xs):
    r = xs[0]
    for x in xs[1:]: r = z3.If(x>r,x,r)
    return r
corners=[l1*l2,l1*u2,u1*l2,u1*u2]
for name,solver in [('z3',None)]:
    s=z3.Solver(); s.set('timeout',60000)
    s.add(l1<=a,a<=u1,l2<=b,b<=u2)
    s.add(z3.Or(a*b<mn(*corners), a*b>mx(*corners)))
    t=time.time(); print('mul finite', s.check(), time.time()-t)
# 2. floordiv lower bound: dl>0
lo,hi,dl,du = z3.Ints('lo hi dl du')
s=z3.Solver(); s.set('timeout',60000)
s.add(lo<=a,a<=hi,dl<=b,b<=du,dl>0)
lower = z3.If(lo<=0, pyfloordiv(lo,dl), pyfloordiv(lo, mn(lo+1,du)))
upper = z3.If(hi>=0, pyfloordiv(hi,dl), pyfloordiv(hi, mn(1-hi,du)))
s.add(z3.Or(pyfloordiv(a,b)<lower, pyfloordiv(a,b)>upper))
t=time.time(); print('floordiv', s.check(), time.time()-t)
