# C17 probes: (i) tag decodability  name1+[0]+p1 == name2+[0]+p2, 0 not in names => equal parts
# (ii) fixed-length block decodability via extract
import z3, time
S=z3.SeqSort(z3.IntSort())
def prove(name, hyps, goal, to=30000):
    s=z3.Solver(); s.set('timeout',to); s.add(*hyps); s.add(z3.Not(goal))
    t=time.time(); r=s.check(); print(name, r, round(time.time()-t,2)); return r
n1,n2,p1,p2=z3.Consts('n1 n2 p1 p2',S)
zero=z3.Unit(z3.IntVal(0))
i=z3.Int('i')
nozero=lambda n: z3.Not(z3.Contains(n, zero))
r=prove('tag-decodable (z3 seq)', [z3.Concat(n1,zero,p1)==z3.Concat(n2,zero,p2), nozero(n1), nozero(n2)], z3.And(n1==n2,p1==p2))
# alternative formulation with index-of
r2=prove('tag-decodable via indexof', [z3.Concat(n1,zero,p1)==z3.Concat(n2,zero,p2), nozero(n1), nozero(n2)], z3.Length(n1)==z3.Length(n2))
# (ii) two buffers equal, block j of each is H(item_j): then hashes equal blockwise and counts equal
b1,b2=z3.Consts('b1 b2',S); k1,k2,j=z3.Ints('k1 k2 j')
h1=z3.Function('h1',z3.IntSort(),S); h2=z3.Function('h2',z3.IntSort(),S)
hy=[b1==b2, k1>=0,k2>=0, z3.Length(b1)==20*k1, z3.Length(b2)==20*k2,
    z3.ForAll([j], z3.Implies(z3.And(0<=j,j<k1), z3.Extract(b1,20*j,20)==h1(j))),
    z3.ForAll([j], z3.Implies(z3.And(0<=j,j<k2), z3.Extract(b2,20*j,20)==h2(j)))]
jj=z3.Int('jj')
prove('fixlen blocks', hy, z3.And(k1==k2, z3.Implies(z3.And(0<=jj,jj<k1), h1(jj)==h2(jj))))
