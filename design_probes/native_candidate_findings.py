import numpy, io
from nutils import evaluable as ev, function, types, matrix
print('--- Einsum bounds with variable-length summed axis')
try:
    i = ev.loop_index('i', ev.constant(3))
    n = i + ev.constant(1)                     # length in [1,3]
    a = ev.InsertAxis(ev.constant(2), n)       # n entries equal to 2
    e = ev.Einsum((a,), ((0,),), ())
    print(' n bounds', n._intbounds, 'einsum bounds', e._intbounds, '(true values: 2,4,6)')
    s = ev.Sum(a); print(' Sum bounds', s._intbounds)
except Exception as ex:
    print(' raised', type(ex).__name__, ex)
print('--- TransformIndex bounds for empty target')
try:
    from nutils import transformseq
    empty = transformseq.EmptyTransforms(1,1)
    t = ev.TransformIndex(empty, empty, ev.constant(0)) if hasattr(ev,'TransformIndex') else None
    print(' ', t._intbounds)
except Exception as ex:
    print(' raised', type(ex).__name__, ex)
print('--- _argument_to_array with Argument key')
u = function.Argument('u', (), float); v = function.Argument('v', (), float)
f = u*2
for spec in [{'u':'v'}, 'u:v', [('u','v')], {'u': v}, [(u, v)]]:
    try:
        r = function.replace_arguments(f, spec)
        print(' ', repr(spec)[:40], '->', sorted(r.arguments))
    except Exception as ex:
        print(' ', repr(spec)[:40], 'raised', type(ex).__name__, ex)
print('--- _Replace substring `in`')
uw = function.Argument('uw', (), float)
g = u + uw
for spec in ['uw:x', {'uw':'x'}, [('uw','x')]]:
    r = function.replace_arguments(g, spec)
    print(' ', repr(spec), '->', sorted(r.arguments))
print('--- nutils_hash file branch')
a = io.BytesIO(b'0X'); a.seek(1); b = io.BytesIO(b'X'); b.seek(10)
print(' equal hashes:', types.nutils_hash(a) == types.nutils_hash(b), 'reads', a.read(), b.read())
print('--- assemble_csr')
for args in [([1.,2.],[0,2],[0,0],1), ([1.],[0,1],[-1],2)]:
    try:
        m = matrix.assemble_csr(numpy.array(args[0]), numpy.array(args[1]), numpy.array(args[2]), args[3])
        print(' accepted', args, '->', m.export('dense').tolist())
    except Exception as ex:
        print(' rejected', args, type(ex).__name__)
