import numpy
from nutils import function
a = function.Array.cast(numpy.arange(3.))
for s in [slice(-10,None), slice(1,10), slice(2,1), slice(None,-10)]:
    try:
        r = a[s]
        print(s, 'shape', r.shape, 'value', r.eval(), 'numpy', numpy.arange(3.)[s])
    except Exception as e:
        print(s, 'raised', type(e).__name__, str(e)[:100], 'numpy', numpy.arange(3.)[s])
