import z3, time
I=z3.IntSort(); B=z3.BoolSort()
def run(strict, check_nonneg):
    rowptr=z3.Array('rowptr',I,I); nrp=z3.Int('nrp')   # len(rowptr)
    colidx=z3.Array('colidx',I,I); n=z3.Int('n')       # len(colidx)
    nvals=z3.Int('nvals'); ncols=z3.Int('ncols')
    inc0=z3.Array('inc0',I,B)  # numpy.empty contents
    i,k,r=z3.Ints('i k r')
    s=z3.Solver(); s.set('timeout',30000)
    s.add(nrp>=1,n>=0,nvals>=0)
    s.add(z3.Select(rowptr,0)==0)
    s.add(z3.ForAll([i], z3.Implies(z3.And(0<=i,i<nrp-1), z3.Select(rowptr,i+1)>=z3.Select(rowptr,i))))
    s.add(z3.Select(rowptr,nrp-1)==nvals)
    s.add(n==z3.Select(rowptr,nrp-1))
    s.add(z3.ForAll([i], z3.Implies(z3.And(0<=i,i<n), z3.Select(colidx,i)<ncols)))
    # inc1: after ufunc out=inc[1:-1]: inc1[j] for 1<=j<=n-1 = colidx[j] >(=) colidx[j-1]
    inc1=z3.Array('inc1',I,B)
    cmp=(lambda a,b:a>b) if strict else (lambda a,b:a>=b)
    s.add(z3.ForAll([i], z3.Select(inc1,i)==z3.If(z3.And(1<=i,i<=n-1), cmp(z3.Select(colidx,i),z3.Select(colidx,i-1)), z3.Select(inc0,i))))
    # inc2[rowptr]=True
    inc2=z3.Array('inc2',I,B)
    isrp=z3.Function('isrp',I,B)
    s.add(z3.ForAll([i], isrp(i)==z3.Exists([r], z3.And(0<=r,r<nrp,z3.Select(rowptr,r)==i))))
    s.add(z3.ForAll([i], z3.Select(inc2,i)==z3.If(isrp(i), True, z3.Select(inc1,i))))
    s.add(z3.ForAll([i], z3.Implies(z3.And(0<=i,i<=n), z3.Select(inc2,i))))
    # negated post
    bad_order=z3.And(0<=r,r<nrp-1, z3.Select(rowptr,r)<=k, k+1<z3.Select(rowptr,r+1), z3.Not(z3.Select(colidx,k)<z3.Select(colidx,k+1)))
    bad_range=z3.And(0<=k,k<n, z3.Select(colidx,k)<0)
    s.add(z3.Or(bad_order, bad_range) if check_nonneg else bad_order)
    t=time.time(); res=s.check(); dt=time.time()-t
    print('strict',strict,'nonneg',check_nonneg,res,round(dt,2))
    if res==z3.sat:
        m=s.model(); nn=m.eval(n).as_long(); print(' n',nn,'nrp',m.eval(nrp),'rowptr',[m.eval(z3.Select(rowptr,j)) for j in range(m.eval(nrp).as_long())],'colidx',[m.eval(z3.Select(colidx,j)) for j in range(nn)], 'ncols', m.eval(ncols))
run(True, False); run(False, False); run(True, True)
