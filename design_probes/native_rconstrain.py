import numpy
from nutils import matrix
A = matrix.assemble_csr(numpy.array([2.,3.]), numpy.array([0,1,2]), numpy.array([0,1]), 2)
try:
    print(A.solve(numpy.array([2.,3.]), rconstrain=numpy.array([False,False])))
except Exception as e:
    print('raised', type(e).__name__, e)
try:
    # float constrain + rconstrain
    print(A.solve(numpy.array([2.,3.]), constrain=numpy.array([numpy.nan,numpy.nan]), rconstrain=numpy.array([False,False])))
except Exception as e:
    print('raised', type(e).__name__, e)
