# ExtInt = Python int | float('inf') | float('-inf') | float('nan'); probe Multiply._intbounds_impl and Sum._intbounds_impl soundness incl. infinities
import z3, time
FIN,PINF,NINF,NAN=0,1,2,3
class E:
    def __init__(s,t,v): s.t=t; s.v=v
def sym(name):
    t=z3.Int(name+'_t'); v=z3.Int(name+'_v'); return E(t,v)
def fin(v): return E(z3.IntVal(FIN), v if not isinstance(v,int) else z3.IntVal(v))
def ite(c,a,b): return E(z3.If(c,a.t,b.t), z3.If(c,a.v,b.v))
def isfin(a): return a.t==FIN
def truthy(a): return z3.Not(z3.And(a.t==FIN,a.v==0))   # nan, inf truthy
def sign(a): # -1,0,1 for non-nan
    return z3.If(a.t==PINF,1,z3.If(a.t==NINF,-1,z3.If(a.v>0,1,z3.If(a.v<0,-1,0))))
def mul(a,b):
    anynan=z3.Or(a.t==NAN,b.t==NAN)
    bothfin=z3.And(a.t==FIN,b.t==FIN)
    s=sign(a)*sign(b)
    t=z3.If(anynan,NAN,z3.If(bothfin,FIN,z3.If(s==0,NAN,z3.If(s>0,PINF,NINF))))
    return E(t,z3.If(bothfin,a.v*b.v,0))
def lt(a,b):
    nn=z3.And(a.t!=NAN,b.t!=NAN)
    return z3.And(nn, z3.Or(z3.And(a.t==NINF,b.t!=NINF), z3.And(b.t==PINF,a.t!=PINF), z3.And(a.t==FIN,b.t==FIN,a.v<b.v)))
def le(a,b):
    nn=z3.And(a.t!=NAN,b.t!=NAN)
    return z3.And(nn, z3.Or(a.t==NINF, b.t==PINF, z3.And(a.t==FIN,b.t==FIN,a.v<=b.v), z3.And(a.t==b.t,a.t!=FIN)))
def eq(a,b): return z3.And(a.t!=NAN,b.t!=NAN,a.t==b.t,z3.Or(a.t!=FIN,a.v==b.v))
def pand(a,b): return ite(truthy(a),b,a)       # python `a and b`
def pmin(xs):
    r=xs[0]
    for x in xs[1:]: r=ite(lt(x,r),x,r)
    return r
def pmax(xs):
    r=xs[0]
    for x in xs[1:]: r=ite(lt(r,x),x,r)   # builtin max: if x > r
    return r
def wf(lo,hi): # Array._intbounds invariant
    return z3.And(z3.Or(lo.t==FIN,lo.t==NINF), z3.Or(hi.t==FIN,hi.t==PINF), le(lo,hi))
def inb(v,lo,hi): return z3.And(le(lo,fin(v)), le(fin(v),hi))
def prove(name,hyps,goal):
    s=z3.Solver(); s.set('timeout',60000); s.add(*hyps); s.add(z3.Not(goal))
    t=time.time(); r=s.check(); print(name,r,round(time.time()-t,2))
    if r==z3.sat: print(s.model())
l1,u1,l2,u2=sym('l1'),sym('u1'),sym('l2'),sym('u2'); a,b=z3.Ints('a b')
ext=[pand(pand(b1,b2),mul(b1,b2)) for b1 in (l1,u1) for b2 in (l2,u2)]
lo,hi=pmin(ext),pmax(ext)
prove('Multiply sound+wf',[wf(l1,u1),wf(l2,u2),inb(a,l1,u1),inb(b,l2,u2)], z3.And(inb(a*b,lo,hi),wf(lo,hi)))
# Sum: n terms each in [lf,uf], n in [ll,ul], ll>=0 ; use lemma n*lf<=S<=n*uf for finite lf/uf (S symbolic)
lf,uf,ll,ul=sym('lf'),sym('uf'),sym('ll'),sym('ul'); n,S=z3.Ints('n S')
zero=fin(0)
br1=eq(ul,zero); br2=eq(ll,zero)
r_lo=ite(br1,zero,ite(br2,pmin([zero,mul(lf,ul)]),pmin([mul(lf,ll),mul(lf,ul)])))
r_hi=ite(br1,zero,ite(br2,pmax([zero,mul(uf,ul)]),pmax([mul(uf,ll),mul(uf,ul)])))
lemma=z3.And(z3.Implies(lf.t==FIN, n*lf.v<=S), z3.Implies(uf.t==FIN, S<=n*uf.v), z3.Implies(n==0,S==0))
prove('Sum sound+wf',[wf(lf,uf),wf(ll,ul),le(zero,ll),inb(n,ll,ul),n>=0,lemma], z3.And(inb(S,r_lo,r_hi),wf(r_lo,r_hi)))
# Inflate (current code): result = sum of a subset of m terms, 0<=k<=m terms each in [lf,uf]; bound min(lf,0),max(uf,0)
k=z3.Int('k')
lemma2=z3.And(z3.Implies(lf.t==FIN, k*lf.v<=S), z3.Implies(uf.t==FIN, S<=k*uf.v), z3.Implies(k==0,S==0))
prove('Inflate (expected to FAIL)',[wf(lf,uf),k>=0,lemma2], inb(S,pmin([lf,zero]),pmax([uf,zero])))
