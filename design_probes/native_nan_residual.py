import numpy, warnings
from nutils import mesh, function, solver
from nutils.expression_v2 import Namespace
domain, x = mesh.rectilinear([2])
basis = domain.basis('std', degree=1)
u = function.dotarg('u', basis)
res = domain.integral(basis * (numpy.sqrt(u) - 2) , degree=2)  # nonlinear; sqrt(negative) -> nan
args0 = {'u': -numpy.ones(3)}
sysm = solver.System([res], trial='u')
try:
    out = sysm.solve(arguments=args0, tol=1e-8)
    print('returned', out)
    print('residual at returned:', res.eval(**{k:v for k,v in out.items()}) if hasattr(res,'eval') else None)
except Exception as e:
    print('raised', type(e).__name__, e)
try:
    out = solver.newton('u', res, arguments=args0).solve(tol=1e-8)
    print('legacy returned', out)
except Exception as e:
    print('legacy raised', type(e).__name__, e)
