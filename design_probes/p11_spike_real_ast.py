# SPIKE (probe, throw-away): drive the ExtInt model of p4/p8 from the REAL AST of /repo/src/nutils/evaluable.py.
# Reads <Class>._intbounds_impl, symbolically executes it path by path, and proves the node lemma per path.
import ast, z3, time, sys, itertools
exec(open('p8.py').read().split("l,u,l2,u2=sym('l')")[0])      # model: E, fin, ite, le, lt, mul, add, pmin, pmax, pabs, wf, inb, pyfd, ...
SRC='/repo/src/nutils/evaluable.py'; tree=ast.parse(open(SRC).read())
def method(cls,name):
    c=[n for n in tree.body if isinstance(n,ast.ClassDef) and n.name==cls][0]
    return [n for n in c.body if isinstance(n,ast.FunctionDef) and n.name==name][0]
NINF_=E(z3.IntVal(NINF),z3.IntVal(0)); PINF_=E(z3.IntVal(PINF),z3.IntVal(0))
class Ret(Exception): pass
def truth(v):
    if isinstance(v,E): return truthy(v)
    if isinstance(v,bool): return z3.BoolVal(v)
    return v
def floordiv(a,b): # python // on ExtInt; non-finite operands give a float -> model as NAN (INV then fails)
    ok=z3.And(a.t==FIN,b.t==FIN,b.v!=0)
    return E(z3.If(ok,FIN,NAN), z3.If(ok,pyfd(a.v,z3.If(b.v==0,1,b.v)),0))
class Exec:
    def __init__(self,attrs): self.attrs=attrs
    def expr(self,n,env):
        if isinstance(n,ast.Constant): return fin(n.value) if isinstance(n.value,int) and not isinstance(n.value,bool) else n.value
        if isinstance(n,ast.Name): return env[n.id]
        if isinstance(n,ast.Tuple): return tuple(self.expr(e,env) for e in n.elts)
        if isinstance(n,ast.Attribute):
            path=ast.unparse(n)
            if path in self.attrs: return self.attrs[path]
            raise NotImplementedError('attr '+path)
        if isinstance(n,ast.UnaryOp) and isinstance(n.op,ast.USub): return neg(self.expr(n.operand,env))
        if isinstance(n,ast.BinOp):
            a,b=self.expr(n.left,env),self.expr(n.right,env)
            return {ast.Add:add,ast.Sub:sub,ast.Mult:mul,ast.FloorDiv:floordiv}[type(n.op)](a,b)
        if isinstance(n,ast.Compare):
            vals=[self.expr(n.left,env)]+[self.expr(c,env) for c in n.comparators]
            ops={ast.Lt:lt,ast.LtE:le,ast.Gt:gt,ast.GtE:ge,ast.Eq:eq}
            return z3.And(*[ops[type(o)](x,y) for o,x,y in zip(n.ops,vals,vals[1:])])
        if isinstance(n,ast.BoolOp):
            vals=[self.expr(v,env) for v in n.values]
            if all(isinstance(v,E) for v in vals):          # value-returning and/or on ExtInt
                r=vals[0]
                for v in vals[1:]: r=pand(r,v) if isinstance(n.op,ast.And) else ite(truthy(r),r,v)
                return r
            f=z3.And if isinstance(n.op,ast.And) else z3.Or
            return f(*[truth(v) for v in vals])
        if isinstance(n,ast.IfExp):
            c=truth(self.expr(n.test,env)); a,b=self.expr(n.body,env),self.expr(n.orelse,env); return ite(c,a,b)
        if isinstance(n,ast.ListComp):                     # only over fixed-size tuples
            out=[{}]
            for g in n.generators:
                it=self.expr(g.iter,env); out=[dict(o,**{g.target.id:x}) for o in out for x in it]
            return [self.expr(n.elt,dict(env,**o)) for o in out]
        if isinstance(n,ast.Call):
            f=ast.unparse(n.func)
            if f=='isinstance' and ast.unparse(n.args[1])=='int': return isfin(self.expr(n.args[0],env))
            args=[self.expr(a,env) for a in n.args]
            if f in('min','builtins.min'): return pmin(list(args[0]) if len(args)==1 else args)
            if f in('max','builtins.max'): return pmax(list(args[0]) if len(args)==1 else args)
            if f in('abs','builtins.abs'): return pabs(args[0])
            if f=='float': return {'inf':PINF_,'-inf':NINF_}[args[0]]
            if f=='isinstance' and ast.unparse(n.args[1])=='int': return isfin(args[0])
            raise NotImplementedError('call '+f)
        raise NotImplementedError(ast.dump(n)[:80])
    def assign(self,t,v,env):
        if isinstance(t,ast.Name): env[t.id]=v
        else:
            for tt,vv in zip(t.elts,v): self.assign(tt,vv,env)
    def block(self,stmts,env,pc):
        """returns list of (env,pc) that fall through; appends finished paths to self.done"""
        states=[(env,pc)]
        for st in stmts:
            nxt=[]
            for env,pc in states:
                if isinstance(st,ast.Assign): e=dict(env); self.assign(st.targets[0],self.expr(st.value,e),e); nxt.append((e,pc))
                elif isinstance(st,ast.AugAssign):
                    e=dict(env); cur=e[st.target.id]; rhs=self.expr(st.value,e)
                    e[st.target.id]={ast.FloorDiv:floordiv,ast.Add:add,ast.Sub:sub,ast.Mult:mul}[type(st.op)](cur,rhs); nxt.append((e,pc))
                elif isinstance(st,ast.Return): self.done.append((pc,self.expr(st.value,env)))
                elif isinstance(st,ast.If):
                    c=truth(self.expr(st.test,env))
                    for cond,body in((c,st.body),(z3.Not(c),st.orelse)):
                        s=z3.Solver(); s.add(*self.pre,*pc,cond)
                        if s.check()==z3.unsat: continue           # infeasible
                        nxt+=self.block(body,dict(env),pc+[cond])
                elif isinstance(st,ast.Expr) and isinstance(st.value,ast.Constant): nxt.append((env,pc))   # docstring/comment
                else: raise NotImplementedError(type(st).__name__)
            states=nxt
        return states
    def run(self,fn,pre):
        self.done=[]; self.pre=pre
        rest=self.block(fn.body,{},[])
        assert not rest, 'fell off the end'
        return self.done
def child(name): lo,hi=sym(name+'_lo'),sym(name+'_hi'); v=z3.Int(name+'_v'); return (lo,hi),v
def check(cls,attrs,pre,meaning):
    fn=method(cls,'_intbounds_impl'); t0=time.time()
    paths=Exec(attrs).run(fn,pre); res=[]
    for k,(pc,(rlo,rhi)) in enumerate(paths):
        for clause,goal in(('INV',wf(rlo,rhi)),('value-in-range',inb(meaning,rlo,rhi))):
            s=z3.Solver(); s.set('timeout',20000); s.add(*pre,*pc,z3.Not(goal)); r=s.check(); res.append(r)
            if r!=z3.unsat: print(f'   {cls} path{k} {clause}: {r}', {str(d):s.model()[d] for d in s.model().decls()} if r==z3.sat else '')
    print(f'{cls:12s} lines {fn.lineno}-{fn.end_lineno}: {len(paths)} paths, {len(res)} obligations, {sum(r==z3.unsat for r in res)} discharged, {time.time()-t0:.2f}s')
(bx,ux),x=child('x'); (by,uy),y=child('y'); zero=fin(0)
base=[wf(bx,ux),wf(by,uy),inb(x,bx,ux),inb(y,by,uy)]
check('Negative',{'self.arg._intbounds':(bx,ux)},base[:1]+base[2:3],-x)
check('Absolute',{'self.arg._intbounds':(bx,ux)},base[:1]+base[2:3],z3.If(x<0,-x,x))
check('Minimum',{'self.x._intbounds':(bx,ux),'self.y._intbounds':(by,uy)},base,z3.If(x<y,x,y))
check('Maximum',{'self.x._intbounds':(bx,ux),'self.y._intbounds':(by,uy)},base,z3.If(x>y,x,y))
check('FloorDivide',{'self.dividend._intbounds':(bx,ux),'self.divisor._intbounds':(by,uy)},base,z3.If(y==0,0,pyfd(x,y)))
check('InRange',{'self.index._intbounds':(bx,ux),'self.length._intbounds':(by,uy)},base+[0<=x,x<y],x)
check('Multiply',{'self.funcs':(None,None),'func1._intbounds':(bx,ux),'func2._intbounds':(by,uy)},base,x*y) if False else None
# Inflate on the pinned tree: value = sum of k>=0 operand elements (k*lo<=S<=k*hi by L-SUM)
k,S=z3.Ints('k S')
lsum=[k>=0, z3.Implies(bx.t==FIN,k*bx.v<=S), z3.Implies(ux.t==FIN,S<=k*ux.v), z3.Implies(k==0,S==0)]
check('Inflate',{'self.func._intbounds':(bx,ux)},base[:1]+lsum,S)
