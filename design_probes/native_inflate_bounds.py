import numpy
from nutils import evaluable as ev
a = ev.Argument('a', (ev.constant(2),), int)
f = ev.Inflate(a, ev.constant(numpy.array([0,0])), ev.constant(1))
print('bounds arg', a._intbounds)
g = ev.Inflate(ev.InRange(a, ev.constant(2)), ev.constant(numpy.array([0,0])), ev.constant(1))
print('bounds', g._intbounds, 'simplified bounds', g.simplified._intbounds, type(g.simplified).__name__)
val = ev.eval_once(g, arguments={'a': numpy.array([1,1])})
print('value', val)
h = ev.Minimum(g, ev.constant(numpy.array([1])))
print('min simplified:', h.simplified, 'value', ev.eval_once(h, arguments={'a': numpy.array([1,1])}), 'unsimplified', ev.eval_once(h, _simplify=False, arguments={'a': numpy.array([1,1])}))
m = ev.Mod(g, ev.constant(numpy.array([2])))
print('mod value', ev.eval_once(m, arguments={'a': numpy.array([1,1])}), 'unsimplified', ev.eval_once(m, _simplify=False,_optimize=False, arguments={'a': numpy.array([1,1])}))
