import numpy
from nutils import function
for n in (0, 2):
    try:
        a = function.Argument('a', (n,), float)
        i = function.Argument('i', (0,), int)
        r = numpy.take(a, i)
        print(n, 'take shape', r.shape, 'value', r.eval(arguments=dict(a=numpy.zeros(n), i=numpy.zeros(0,dtype=int))), 'numpy', numpy.take(numpy.zeros(n), numpy.zeros(0,dtype=int)))
    except Exception as e:
        print(n, 'user-level raised', type(e).__name__, e)
