#!/usr/bin/env python3
"""Kill list and harmless edits (DESIGN 2.9): apply each small source edit to a scratch copy of /repo/src,
run the property's check against the copy (VERIF_REPO), and compare the verdict with the expectation.

  kill:     expect exit 1 and a failed obligation whose name contains `expect`
  harmless: expect exit 0

usage: selftest/run.py [property ...] [--jobs N]
"""
import json, os, shutil, subprocess, sys, tempfile, concurrent.futures, re

HERE = os.path.dirname(os.path.dirname(os.path.abspath(__file__)))
REPO = os.environ.get('VERIF_REPO', '/repo')
SCRATCH = os.path.join(os.path.expanduser('~'), '.cache', 'verif-scratch')


def load():
    muts = []
    d = os.path.join(HERE, 'selftest', 'mutations')
    for f in sorted(os.listdir(d)):
        if f.endswith('.json'):
            for m in json.load(open(os.path.join(d, f))):
                m.setdefault('id', '%s:%d' % (f[:-5], len(muts)))
                muts.append(m)
    return muts


def run_one(m):
    os.makedirs(SCRATCH, exist_ok=True)
    d = tempfile.mkdtemp(prefix='m-', dir=SCRATCH)
    try:
        shutil.copytree(os.path.join(REPO, 'src'), os.path.join(d, 'src'), ignore=shutil.ignore_patterns('__pycache__'))
        p = os.path.join(d, 'src', 'nutils', m['file'])
        s = open(p).read()
        if s.count(m['old']) != m.get('count', 1):
            return m, 'STALE', 'pattern occurs %d times' % s.count(m['old'])
        s = s.replace(m['old'], m['new'])
        open(p, 'w').write(s)
        try:
            compile(s, p, 'exec')
        except SyntaxError as e:
            return m, 'STALE', 'mutant does not compile: %s' % e
        env = dict(os.environ, VERIF_REPO=d, VERIF_EVIDENCE_DIR=os.path.join(d, 'evidence'), VERIF_REPLAY_DIR=os.path.join(d, 'replay'))
        cmd = [os.path.join(HERE, 'check'), m['property'], '--tier', 'quick']
        if m.get('only'):  # restrict to the contracts the edit can affect (saves e.g. the Lean run); the full check is a superset
            cmd += ['--only=' + m['only']]
        r = subprocess.run(cmd, capture_output=True, text=True, env=env, timeout=3000)
        out = r.stdout + r.stderr
        kind = m.get('kind', 'kill')
        if kind == 'kill':
            ok = r.returncode == 1 and 'VIOLATION property=%s' % m['property'] in out and (m.get('expect', '') in out)
            replayed = 'input replayed on the real code' in out
            return m, 'KILLED' + ('+replayed' if replayed else '') if ok else 'MISSED(exit %d)' % r.returncode, out[-1500:]
        else:
            ok = r.returncode == 0 and 'VIOLATION' not in out
            if not ok and m.get('allow_undecided') and r.returncode == 2 and 'VIOLATION' not in out and 'ledger clause not generated' in out:
                # a refactoring that changes WHICH obligations are generated: the ledger makes the run undecided (exit 2), never a violation
                return m, 'QUIET(undecided: ledger)', out[-1500:]
            return m, 'QUIET' if ok else 'FALSE-ALARM(exit %d)' % r.returncode, out[-1500:]
    finally:
        shutil.rmtree(d, ignore_errors=True)


def main():
    args = [a for a in sys.argv[1:] if not a.startswith('--')]
    jobs = 4
    for a in sys.argv[1:]:
        if a.startswith('--jobs='):
            jobs = int(a.split('=')[1])
    muts = [m for m in load() if not args or m['property'] in args or m['id'] in args]
    bad = 0
    with concurrent.futures.ThreadPoolExecutor(jobs) as ex:
        for m, verdict, out in ex.map(run_one, muts):
            good = verdict.startswith('KILLED') or verdict.startswith('QUIET') or verdict == 'STALE'
            print('%-12s %-4s %-28s %s' % (verdict, m['property'], m['id'], m.get('what', '')), flush=True)
            if not good:
                bad += 1
                print('    ' + out.replace('\n', '\n    ')[-1200:])
    print('%d mutations, %d unexpected' % (len(muts), bad))
    return 1 if bad else 0


if __name__ == '__main__':
    sys.exit(main())
