#!/usr/bin/env python3
"""Regenerate MANIFEST.json from the table below (kept as code so it is always valid JSON)."""
import json, os
HERE = os.path.dirname(os.path.abspath(__file__))
BASELINE = "cd /repo && /venv/bin/python -m pytest -ra -q -p no:cacheprovider --timeout=900 --continue-on-collection-errors"

CLAIMED = {
    'C16': dict(
        design='4.16',
        text='Kernel only (no schedules): parallel.range.__next__ reads and writes the shared index only while holding its lock, returns the old index and stores old+1, or raises StopIteration '
             'without writing when old >= stop (so successive calls from any process hand out 0..stop-1 exactly once, given mutual exclusion). BOUNDED configurations (two shared variables with '
             'distinct locks + one private, all subsets per operand; labelled bounded): every statement the code generator _BlockBuilder emits (exec, assign_to, assert_true, raise_, if_) that mentions '
             'a shared array is nested in `with lock` blocks of all its shared variables, each lock once, and if_ never tests a shared array outside its lock. Ground frame check: every _pyast expression '
             'class lists in `variables` every child its generated code prints.',
        note='All interleavings, visibility of shared memory, worker failure/kill (fork/_wait) and the registration of shared arrays are OUTSIDE: this family is silent on concurrency and faults. '
             'Assumed: Lock gives mutual exclusion, RawValue is sequentially consistent, each shared array has its own lock.',
        technique='contract-based verification: symbolic execution of the real methods with lock/event ghost state; syntactic frame check on _pyast'),
    'C18': dict(
        design='4.18',
        text='Kernel, complete histories only: symbolic execution of the real closure cache.function.wrapper under assumed pickle/file contracts decides, for each outcome of pickle.load (valid entry, '
             'old-format entry, EOFError, UnpicklingError, IndexError, old-format failure) and for caching disabled: a hit returns the stored value after replaying its log without calling func; a miss '
             'calls func exactly once with caching disabled, dumps (value, log) at offset 0 of the locked file and returns the value; the key digest covers the function key and every positional and '
             'keyword argument (kwargs through sorted blocks); cache.function derives the function key from module, qualname and version.',
        note='NOT covered, by the nature of the family: kill/crash at an arbitrary byte, truncated pickles (which exception a cut-off stream raises is ASSUMED), partial overwrite of a longer stale entry, '
             'flock mutual exclusion between processes, Recursion resumption. Key injectivity relies on the C17 argument (SHA-1 idealised).',
        technique='contract-based deductive verification: symbolic execution of the real closure against external (pickle, file, lock) contracts; outcomes are ground obligations'),
    'C19': dict(
        design='4.19',
        text='Kernel of expression_v2. BOUNDED (<= 4 indices per term, <= 2 incoming summed indices; index characters and axis lengths symbolic; labelled bounded): _Parser._trace keeps exactly '
             'the indices that occur once, in order, traces each pair once, adds exactly the paired indices to the summed set, and raises ExpressionSyntaxError exactly when an index is used more than twice '
             'or paired axes differ in length; _merge_summed_indices_same_term is a disjoint union that raises exactly on overlap. Unbounded proofs with loop invariants (any string): '
             '_Substring.trim_start/trim_end return the maximal range without leading/trailing spaces, _Substring.__getitem__ follows Python slicing, all preserve 0 <= start <= stop <= len(base).',
        note='That the produced array MEANS the index-notation reading (array backend), precedence, function calls, gradients, jump/mean, bracket-level scanning (_find/split) and expression_v1 are outside. '
             'Trusted: small symbolic set/str domain, array.trace uninterpreted.',
        technique='contract-based verification: ast->z3 with loop invariants for the scanners; bounded unrolling with symbolic indices for _trace'),
    'C10': dict(
        design='4.10',
        text='Very narrow kernel: structured-axis arithmetic of transformseq for all integer axes [i,j) incl. periodic ones: the two interface axes of a DimAxis have equal length and pair each '
             'interior face with its two neighbouring elements exactly once (mod the period); boundaries are exactly the first and last element faces and absent when periodic; refinement doubles '
             'i, j and the period and commutes with taking boundaries; IntAxis.opposite is an involution shifting to the neighbour; slicing keeps the right sub-range.',
        note='Measures, trimming, hierarchical/unstructured topologies, unions, products, connectivity tables and closedness of boundaries are global geometric invariants over histories of '
             'operations and are OUTSIDE this family; the claim says only that the index arithmetic of structured axes is right.',
        technique='contract-based deductive verification: ast->z3 on the real method bodies (harness contracts for compositions)'),
    'C08': dict(
        design='4.8',
        text='Very narrow kernel: numeric.ext(A) for n = 1, 2, 3 (all cases implemented) and all real entries is orthogonal to every column of A, has squared length det(A^T A) '
             '(the surface measure) and the orientation det([A|ext]) = +|ext|^2 (n=1,3) / -|ext|^2 (n=2) that the edge transforms rely on; transform.Updim.ext negates it exactly when isflipped. '
             'Polynomial identities over the reals, z3 nonlinear arithmetic, no bound.',
        note='Everything else in the property (gradients, div, curl, laplace, Jacobians, divergence theorem, normalisation, orientation parity of tensor edges, independence of parametrisation) '
             'needs calculus and n-dimensional array semantics and is OUTSIDE: read this claim as "the algebraic core of the edge normal is right". Floats treated as reals.',
        technique='contract-based deductive verification: ast->z3 (NRA) on the real function bodies'),
    'C04': dict(
        design='4.4',
        text='Kernel only: for 13 Pointwise classes (Cos, Sin, Tan, ArcSin, ArcCos, ArcTan, CosH, SinH, TanH, Exp, Log, Minimum, Maximum; 15 table entries) a Lean 4 theorem '
             'HasDerivAt (numpy meaning of the class, read from _compile_expression) (the deriv lambda, translated mechanically from its AST) is generated from the current source on every run '
             'and checked by Lean against Mathlib, for all real arguments in the domain of differentiability. A failed proof is followed by a native central-difference search for a failing input.',
        note='The chain-rule plumbing through arrays (einsum), Multiply/Inverse/Determinant/Product/Polyval/loops/Inflate/Take derivatives, ArcTan2/ArcTanH/Sinc/Power, derivative shapes and the '
             'integer zero rule are OUTSIDE. Trusted: Lean kernel + Mathlib, the AST->Lean translator, numpy functions = real functions, floats = reals. Cold start of Lean+Mathlib takes ~4 min.',
        technique='contract-based deductive verification: Lean 4 + Mathlib theorems generated from the AST of the deriv tables'),
    'C20': dict(
        design='4.20',
        text='Deductive proof of the dimension algebra kernel: each dispatch handler of SI.Quantity (unary, add-like, mul-like, div-like, laplace, sqrt, setitem, pow-like, unary-op, '
             'binary-op, stack-like, curvature, field, interp, sample; real bodies incl. Quantity.__unpack) returns wrap(prescribed dimension, op(unwrapped values)) for arbitrary rational '
             'exponent vectors and raises DimensionError exactly when dimensions that must agree differ; Dimension.__mul__/__truediv__/_binop/__pow__ compute exponents pointwise, '
             'Dimension.wrap returns the bare value exactly for the dimensionless class; the @register dispatch table (read from the AST on every run) equals the expected map of ~95 callables to rules.',
        note='Wrapped numpy/nutils functions are uninterpreted (a handler is checked to call op once on the unwrapped values). Algebra contracts are BOUNDED to two named bases (labelled). '
             'Not covered: from_powers naming/interning, unit string parsing/formatting round trip, float values in reference units, __locate/__attribute/evaluate handler bodies.',
        technique='contract-based deductive verification (ast->z3) of the handler bodies; ground comparison of the decorator table'),
    'C07': dict(
        design='4.7',
        text='Kernel only (shape calculus of indexing). Deductive proof: function._takeslice selects exactly range(n)[s] for every axis length and every present/absent, positive/negative, '
             'in- or out-of-range start/stop (unit step), never raising; numeric.normdim normalises or raises IndexError exactly when out of range. BOUNDED (rank <= 3, <= 3 basic index items, '
             'symbolic lengths and slice bounds; labelled bounded): Array.__getitem__ produces NumPy\'s shape for every pattern of int/slice/ellipsis/newaxis and rejects exactly the patterns NumPy rejects.',
        note='Outside: values at sample points, dtype promotion, arithmetic/reduction/einsum/linalg dispatch, index arrays, broadcasting, concatenate, reshape: the property is decided only for basic indexing shapes. '
             'Trusted: Range(length)+start / numpy.take meaning, Python slice.indices as the NumPy rule.',
        technique='contract-based deductive verification (ast->z3) of _takeslice/normdim; bounded pattern enumeration with symbolic lengths for __getitem__'),
    'C05': dict(
        design='4.5',
        text='Kernel only. Deductive proof (arrays of any length) of UniqueMask.evalf (mask[0] true, mask[i] <=> a[i] != a[i-1]) and UniqueInverse.evalf (for a permutation sorter: '
             'inverse[sorter[k]] = cumsum(mask)[k] - 1, stepwise). numeric.compress_indices is covered only by a BOUNDED stand-in (exhaustive native enumeration, length <= 6, all index '
             'vectors of len <= 6 over [-1, length]): equals searchsorted, monotone row pointer from 0 to nnz, ValueError exactly for invalid input; labelled bounded, not counted as proved.',
        note='Outside: the structural recursion _assparse over the node classes and "scatter of the listed values reproduces the dense array" (needs n-dimensional array semantics); '
             'assparse ravel/unravel loops not built. Trusted: numpy externals (slice stores, not_equal out=, cumsum recurrence, injective fancy store).',
        technique='contract-based deductive verification (ast->z3) for two functions; bounded exhaustive enumeration stand-in for one'),
    'C17': dict(
        design='4.17',
        text='Deductive proof, SHA-1 idealised as injective, of the encoding kernel of types.nutils_hash: the real function is run twice on symbolic values of one kind and the two outer SHA-1 '
             'input buffers are compared: equal buffers force equal type names (NUL-terminated prefix) and equal leaf bytes / equal number of children with bytewise-equal child digests '
             '(bool/int/float/complex, str, bytes, type, None/Ellipsis, tuple/list and __getnewargs__ with loop invariants over the number of items, dict, set/frozenset); for dict and set the '
             'buffer is the same for every iteration order (only sorted() discharges it). No bound on lengths or item counts.',
        note='Trusted/assumed: SHA-1, repr and str.encode injective; type names NUL-free and distinct per type; sorted() and set iteration as specified; structural induction over values (meta). '
             'Not yet under contract: ndarray, seekable-file, MethodType, dataclass branches, Immutable/DataClass/frozendict/frozenmultiset.__nutils_hash__, interning. Pickle round trips, other processes, GC: outside.',
        technique='contract-based deductive verification: two-run harness over the real function body, byte strings as arrays, loop invariants, ast->z3'),
    'C11': dict(
        design='4.11',
        text='Deductive proof of the lookup kernel: for IndexTransforms, MaskedTransforms, ReorderedTransforms, UniformDerivedTransforms and DerivedTransforms a harness composes the REAL '
             '__getitem__ and index_with_tail bodies and proves index_with_tail(self[i] + tail) == (i, tail) for every valid i, sequence length, mask/permutation/offset table and tail '
             '(modular: the parent sequence is abstract with the same contract); foreign chains raise ValueError (Index, Masked); negative indices alias; Axis.map/unmap are mutual inverses incl. periodic axes.',
        note='Trusted: pyvc executor; numpy.searchsorted (with sortedness proved at each call site), argsort-of-permutation and cumsum axioms; L-MONO. Assumed: A-NF (uppermost/canonical keep a '
             'derived transform at the head of the tail), documented class preconditions, structural induction over nesting. Outside / not built: PlainTransforms, StructuredTransforms, ChainedTransforms, '
             'canonical/uppermost/promote map preservation, TransformIndex/TransformCoords evaluation, locate(), interfaces.',
        technique='contract-based deductive verification: harness contracts over two real method bodies, ast->z3 VC generation'),
    'C13': dict(
        design='4.13',
        text='Deductive proof of the specification-handling kernel: function._argument_to_array item lemma for every spelling (dict, pairs, string, sequence of strings) x key kind '
             '(name, Argument, other) x value kind (name, Argument, array): yields exactly the array\'s own argument paired with the replacement, ValueError exactly for a bad key or a '
             'shape/dtype mismatch, nothing else escapes; _Replace.__init__ announces (arguments minus replaced names) joined with the replacements\' arguments for every spelling; '
             '_join_arguments / arguments_for are unions that raise on a clash. Names, shapes and dtypes symbolic.',
        note='BOUNDED in sizes (labelled in the evidence, not counted as unbounded proof): the array has two arguments, one item per call (iterations are independent: meta-argument). '
             'Trusted: str.split external, association-list reading of dicts with symbolic keys, eager generators. Outside: that replace/linearize/factor EVALUATE to what the definition says (semantic).',
        technique='contract-based deductive verification: ast->z3 VC generation on the real function bodies, sidecar contracts'),
    'C12': dict(
        design='4.12',
        text='Deductive proof of util.merge_index_map (the union-find behind multipatch/merged bases): for every nin, every number and length of merge sets, with four loop '
             'invariants and a ghost representative array: members of a merge set get equal indices (documented condition), two indices are equal only if related by EVERY '
             'equivalence containing the merge pairs (no over-merging), labels lie in [0,count) when condensing, the parent chase terminates (decreases clause). No bound.',
        note='Only this function: concrete basis classes, partition of unity and continuity are numeric and outside; Basis._computed_support is not built. Trusted: pyvc loop rule, '
             'numpy integer-array store axiom, min() axiom, ghost update text. Failing obligations are replayed by an exhaustive native search over small inputs.',
        technique='contract-based deductive verification: loop invariants + ghost state, ast->z3 VC generation on the real function body'),
    'C09': dict(
        design='4.9',
        text='Proof by exact computation of the kernel: every branch of the real points.gauss2 / points.gauss3 table code (degrees 0..8 / 0..9, i.e. all branches incl. the '
             'fall-through) is executed with exact rational arithmetic and the arrays it builds must have weights summing to 1/d!, all points inside the simplex, and integrate every '
             'monomial up to the advertised degree exactly (|error| <= 5e-15 for the 16-digit decimal constants, 0 for the rational tables); gauss1 requests enough Gauss-Legendre points '
             'for every degree >= 0 (symbolic). Exhaustive over the finite table; ground obligations discharged by z3.',
        note='Machine arithmetic treated as mathematical (decimal literals are the rationals they spell). Trusted: exactness 2N-1 of the N-point Gauss-Legendre rule and the eigen-solver gauss() '
             'itself; linearity (monomials => polynomials). The sample/integral half of the property (index partition, zipping, weights times Jacobian) is outside; not built.',
        technique='contract-based verification: real table code executed symbolically in exact-rational mode, ground obligations to z3'),
    'C14': dict(
        design='4.14',
        text='Deductive proof of the certification logic: Matrix._solver (normal return => zero solution only within tolerance, or the backend result is finite and meets '
             'atol\'=max(atol, rtol|b|); only MatrixError escapes whatever the backend does), Matrix.solve for all 22 combinations of rhs/lhs0/constrain kind/rconstrain '
             '(constrained entries equal their prescribed values bit for bit, also in ToleranceNotReached.best; only MatrixError escapes), System.solve (direct, iterative, default '
             'method: tol>0 and normal return => reported residual norm of the returned arguments <= tol) and _with_solve.solve_withinfo (loop invariant; resnorm <= tol, miniter <= niter <= maxiter). '
             'IEEE comparison semantics incl. nan; vectors of arbitrary length; all numerics uninterpreted.',
        note='Trusted: pyvc executor; SFp model of float comparisons; numpy mask/array externals as axioms. Assumed: finite matrix/rhs without overflow for _solver; a method reports the '
             'true residual norm of its iterate (generators are not executed); 1-D right-hand sides. Outside: correctness of the residual, accuracy, initial-guess independence, line searches, solve_constraints.',
        technique='contract-based deductive verification: ast->z3 VC generation with loop invariants on the real function bodies, sidecar contracts'),
    'C15': dict(
        design='4.15',
        text='Deductive proof of the validation kernel: matrix.assemble_csr returns normally only if exactly the triple it was given is handed to the backend and that triple '
             'is well-formed CSR (row pointer starts at 0, monotone, ends at nnz; every column index in [0,ncols); column indices strictly increasing within every row), and it '
             'raises only for input that is not well-formed. Arrays of arbitrary length (quantified obligations over z3 arrays), no bound.',
        note='Trusted: pyvc executor; numpy externals as axioms (elementwise comparison, basic slices as views, out= write-through, integer-array store in Skolem-witness form, .all()); '
             'lemmas L-MONO and L-ROW; int64 as mathematical integers. Counterexamples for array obligations are searched on a bounded instance (lengths <= 3) and replayed natively. '
             'Backends (scipy/MKL), arithmetic, export and pickling are outside.',
        technique='contract-based deductive verification: ast->z3 VC generation (quantified array obligations) on the real function bodies, sidecar contracts'),
    'C01': dict(
        design='4.1',
        text='Deductive proof of the kernel only: for each range-guarded integer rewrite (Mod/Minimum/Maximum/InRange/NormDim._simplified, Power._simplified p in {0,1,2}, '
             'Multiply unit / minus-one factor rules, Array._const_uniform): for all child ranges satisfying the invariant and all element values inside them, a returned '
             'replacement evaluates bit-exactly to the original and is defined exactly when the original is. All paths, all integers incl. infinite ranges; no bound.',
        note='Relative to C06 (child ranges sound). Termination of the simplification fixed point, the axis-moving swap protocols and all float/complex rules are OUTSIDE: '
             'the property is decided only for the listed rules. Trusted: pyvc executor, numpy meaning of %, minimum, maximum, power, normdim; elementwise reading of integer IR constructors.',
        technique='contract-based deductive verification: ast->z3 VC generation on the real _simplified bodies, sidecar contracts'),
    'C06': dict(
        design='4.6',
        text='Deductive proof, per _intbounds_impl rule in evaluable.py (41 functions: 39 array rules, 2 tuple rules): for all child ranges satisfying the '
             'Array._intbounds invariant (including +-inf) and all child element values inside them, the rule returns normally, its result satisfies the '
             'invariant, and every element of the node\'s numpy meaning lies inside it. One SMT obligation per feasible path and clause, generated from the '
             'current AST of /repo on every run and discharged by z3/cvc5 with no bound on values. Whole-DAG soundness follows by structural induction (meta-argument, DESIGN 4.6).',
        note='Trusted: the pyvc symbolic executor and its model of Python (DESIGN 2.3); numpy meaning of each node operation (table in contracts/C06.py); int64 treated as '
             'mathematical; lemma L-SUM; external nutils_poly monotonicity; call-site precondition ia,ib>=0 for RavelIndex; the shape/dtype/arguments half of the property is outside.',
        technique='contract-based deductive verification: ast->z3 weakest-precondition style VC generation on the real function bodies, sidecar contracts'),
}

NOT_APPLICABLE = {
    'C02': 'whole-DAG faithful translation into generated numpy programs: no function-level postcondition carries it; would need a denotational semantics of ~150 node classes and of the generated code (DESIGN 4.2)',
    'C03': 'history/non-interference property of a program that exists only as a generated string; no per-function contract expresses it (DESIGN 4.3)',
}
PENDING = []


def main():
    checks = []
    for pid, d in sorted(CLAIMED.items()):
        checks.append(dict(
            property_id=pid, quick_cmd='./check %s --tier quick' % pid, thorough_cmd='./check %s --tier thorough' % pid,
            evidence_file='evidence/%s.json' % pid, replay_cmd_template='./check %s --replay {path}' % pid, engine='pyvc',
            level_claimed=dict(category=d.get('category', 'proof'), text=d['text'], design_ref='DESIGN.md section ' + d['design']),
            level_note=d['note'], technique=d['technique']))
    na = [dict(property_id=k, reason=v) for k, v in sorted(NOT_APPLICABLE.items())]
    for p in PENDING:
        if p not in CLAIMED and p not in NOT_APPLICABLE:
            na.append(dict(property_id=p, reason='within reach of the technique per DESIGN.md section 4 but no check is built (yet); not claimed'))
    na.sort(key=lambda d: d['property_id'])
    m = dict(
        version=1, setup_cmd='./setup.sh',
        hooks=dict(guard='NUTILS_VERIF', enable='no hooks: contracts are sidecar files under /verif/contracts, /repo is read with ast and not instrumented',
                   baseline_off_cmd=BASELINE, source_commits=[], add_only=True),
        engines=[dict(name='pyvc', path='pyvc/', serves_properties=sorted(CLAIMED),
                      kind_free_text='verification-condition generator: re-parses the real function bodies under /repo/src/nutils with ast on every run, executes them symbolically path by path under sidecar contracts, one SMT obligation per (path, clause), discharged by z3 5.1 / cvc5 1.0.3 / z3 4.8.12; counter-models are replayed natively under /venv/bin/python')],
        checks=checks, not_applicable=na,
        notes='Exit codes of ./check: 0 all obligations discharged (known findings listed), 1 violation, 2 undecided, 3 checker error. fix: commits in /repo are listed in known_findings.json.')
    json.dump(m, open(os.path.join(HERE, 'MANIFEST.json'), 'w'), indent=1)


if __name__ == '__main__':
    main()
