#!/usr/bin/env python3
"""Regenerate MANIFEST.json from the table below (kept as code so it is always valid JSON)."""
import json, os
HERE = os.path.dirname(os.path.abspath(__file__))
BASELINE = "cd /repo && /venv/bin/python -m pytest -ra -q -p no:cacheprovider --timeout=900 --continue-on-collection-errors"

CLAIMED = {
    'C01': dict(
        design='4.1 and 9.5',
        text='Kernel of value-preserving rewrites. Unbounded deductive proof (all integers incl. infinite ranges): the range-guarded integer rewrites Mod/Minimum/Maximum/InRange/NormDim._simplified, '
             'Power._simplified (p in {0,1,2}), Multiply unit / minus-one rules, Array._const_uniform, Power._power for integer exponents and for a uniform even constant float exponent, '
             'Multiply._optimized_for_numpy (x*sign(x) -> |x|), LogicalNot._simplified: a returned replacement evaluates bit-exactly to the original wherever the original is defined; and, because these rewrites consult the integer ranges, every '
             '_intbounds_impl rule of C06 is re-run as an obligation of C01 (range soundness). '
             'BOUNDED (labelled; concrete rank <= 3, symbolic axis lengths, elements an uninterpreted function of the index tuple): the axis-moving swap protocols Ravel._takediag, Transpose._takediag, '
             'InsertAxis._take, Inflate._take and a few configurations of 20 further _take/_takediag/_unravel/_power/_sign rules, and Multiply._add (<= 3 factors): the replacement has the rank, '
             'every announced length and every element the protocol promises. The real rule bodies AND the real helpers (_take, _takediag, unravel, ravel, insertaxis, transpose, _inflate, Transpose._end ...) are executed.',
        note='Relative to C06 (child ranges sound). Termination of the simplification fixed point, the alignment/_inflations/_diagonals branches of Add/Multiply._simplified, most float/complex rules, '
             'shape properties of node classes and the simplified driver are OUTSIDE. One recorded KNOWN FINDING (Power._power with a non-constant even exponent). Trusted: pyvc executor, elementwise / index-tuple '
             'denotation of the IR constructors (cross-checked against the real nodes on random arrays, native/axioms_c01.py), numpy meaning of %, minimum, maximum, power, normdim.',
        technique='contract-based deductive verification: ast->z3 VC generation on the real rule bodies; bounded n-d array model (concrete rank, symbolic lengths) for the swap protocols'),
    'C04': dict(
        design='4.4 and 9.5',
        text='(a) Lean 4 + Mathlib: for 15 Pointwise classes (Cos, Sin, Tan, ArcSin, ArcCos, ArcTan, CosH, SinH, TanH, ArcTanH, Exp, Log, ArcTan2 on the half plane y>0, Minimum, Maximum; 18 table entries) '
             'a theorem HasDerivAt (numpy meaning read from _compile_expression) (deriv lambda translated mechanically from its AST) is generated from the current source on every run and checked by Lean, '
             'for all real arguments in the domain of differentiability. (b) BOUNDED (fixed small shapes, all entries symbolic reals; labelled): the real bodies of the array-level rules '
             'InsertAxis, Transpose, Sum, TakeDiag, Take, Inflate, Diagonalize, Ravel, Unravel, Multiply, Add, Product, Inverse, Determinant, Power (constant exponents incl. 0, and variable exponent), '
             'Legendre, Choose, Guard, Pointwise/Holomorphic (chain-rule plumbing with abstract partials), IntToFloat, Sign, Argument, WithDerivative, the Array default ._derivative and the derivative() driver (zero rule for integer targets / independent functions, memo, shape assertion) are executed on tensors of symbols; the result must equal, entry by entry, the '
             'mechanically differentiated (sympy.diff) dense meaning of the node, and the rule must be DEFINED wherever the node is differentiable (catches 0*x**-1); polynomial/rational identities are discharged by z3.',
        note='Outside: Polyval, Choose, Orthonormal, LoopSum/LoopConcatenate, TransformCoords, WithDerivative targets, the derivative() driver memo, function._Derivative, repeated differentiation beyond what the '
             'rules compose to; ArcTan2 outside y>0, Sinc. Trusted: Lean kernel + Mathlib, the AST->Lean translator, numpy functions = real functions, floats = reals; for (b) the dense numpy meaning of the IR '
             'constructors (same reading as C05/C06), sympy.diff and sympy normal forms for entries with log / non-integer powers. Cold start of Lean+Mathlib takes 2-4 min.',
        technique='contract-based deductive verification: Lean 4 + Mathlib theorems generated from the AST of the deriv tables; symbolic execution of the real _derivative bodies on tensors of symbols with z3 discharging the polynomial identities (bounded shapes)'),
    'C05': dict(
        design='4.5 and 9.5',
        text='Unbounded deductive proofs (arrays of any length): UniqueMask.evalf, UniqueInverse.evalf, numeric.compress_indices (row-pointer form, each c[i] the searchsorted insertion point, ValueError exactly for invalid '
             'input; prefix-sum, zero-run and offset facts by explicit base+step induction obligations), evaluable.unique (strictly increasing, unique[inverse[k]] = array[k], every value occurs), evaluable.as_csr (compress_indices '
             'precondition, monotone row pointer, strictly increasing columns per row), function.as_coo/as_csr. BOUNDED (rank <= 3, chunk counts fixed; lengths, indices and values symbolic): Array.assparse -- every chunk entry lands in the '
             'slot that carries exactly its index tuple after the divmod unravel, indices inside the shape, index tuples strictly increasing lexicographically; _assparse of Array (default), InsertAxis, Transpose, Diagonalize, Ravel, '
             'Unravel, Sum, Zeros, Add, Multiply and Inflate: GIVEN children whose chunks denote them, scattering the returned chunks into zeros equals the node\'s dense value at every position (fixed axis lengths 2-4). '
             'numeric.accumulate and compress_indices additionally by exhaustive native enumeration.',
        note='LoopSum/LoopConcatenate._assparse (need loop semantics) are OUTSIDE. The dense meaning of the IR constructors is a trusted table (same reading as C04/C06), cross-checked against the real nodes on random arrays '
             '(native/axioms_c05.py). numpy externals are exact axioms (nonzero via a counting function, stable argsort, repeat with block offsets, out= stores through slice views, cumsum, injective fancy store).',
        technique='contract-based deductive verification (ast->z3) with induction lemmas as explicit obligations; bounded positional array model for the _assparse rules; two bounded native enumerations as cross-checks'),
    'C06': dict(
        design='4.6 and 9.5',
        text='(a) Integer ranges, unbounded: per _intbounds_impl rule in evaluable.py (42 functions): for all child ranges satisfying the Array._intbounds invariant (incl. +-inf) and all child element values inside them, the rule returns '
             'normally, its result satisfies the invariant and every element of the node\'s numpy meaning lies inside it; whole-DAG soundness by structural induction (meta). (b) Announced metadata, BOUNDED (rank <= 3 or number of '
             'dependencies fixed; lengths, kinds and argument sets arbitrary): for 37 node classes the real __post_init__/shape/dtype/ndim and the real _compile/_compile_expression/evalf are executed -- the _pyast builders interpreted eagerly on '
             'metadata-only arrays -- and the announced ndim, shape and dtype equal those of what the code itself computes (Einsum subscript bookkeeping, Ravel/Unravel products, Take, Inflate, Polyval/PolyGrad/PolyMul coefficient counts, '
             'LoopConcatenate via the real _SizesToOffsets prefix sums, ...); configurations the constructor must reject are rejected; the dtype of 30 Pointwise classes for every tuple of operand kinds is numpy\'s result kind or a rejection; '
             'Evaluable.arguments is exactly the union of the dependencies\' arguments, Loop.arguments removes exactly the loop index, isconstant is consistent; function.Array.__init__ stores valid metadata as given.',
        note='One recorded KNOWN FINDING (Sign of a boolean array announces bool; numpy.sign has no boolean loop). Two defects repaired here (NameError on three rejection paths; complex FloorDivide). Trusted: numpy meaning of each node '
             'operation for (a); numpy shape/kind rules of pyvc/npshape.py for (b), each cross-checked by running the model code against real numpy (native/axioms_c06b.py); int64 as mathematical integers. Outside: remaining node classes, '
             'ranks > 3, lowering agreement of function arrays, that the generated source text matches the eager interpretation (C02).',
        technique='contract-based deductive verification: ast->z3 weakest-precondition style VC generation on the real function bodies; bounded-rank metadata interpretation of the real compile/evalf code for shapes and dtypes'),
    'C07': dict(
        design='4.7 and 9.5',
        text='Shape calculus of function arrays. Unbounded: function._takeslice selects exactly range(n)[s]; numeric.normdim. BOUNDED (ranks, operand counts, axis arguments and the position of -1 concrete; every length, '
             'requested length, index value and index count symbolic; labelled): Array.__getitem__ patterns, broadcast_shapes / broadcast_to / broadcast_arrays / _Wrapper.broadcasted_arrays, transpose / swapaxes / '
             '_Transpose.to_end/from_end, _Concatenate / concatenate / stack, expand_dims / insertaxis / _append_axes / _prepend_axes, unravel, get, take with constant index arrays of rank 1 and 2 (incl. negative axis '
             'and axis=None), reshape / ravel (incl. "no internal assertion can fail"), typecast_arrays kind-join table: the announced shape (kind) is the one NumPy produces and the call is rejected exactly when NumPy rejects it. '
             'The real bodies of every nutils function on the call path are executed in line; postconditions are NumPy rules written as spec functions; replays run real nutils against real numpy.',
        note='Values at sample points, the lowering protocol, einsum/linalg/reduction dispatch, function-array indices are OUTSIDE. Recorded KNOWN FINDING: reshape/ravel with zero-length axes (carve-out: the same pattern with '
             'all lengths >= 1 fully discharged). Three defects found here were repaired (transpose axes, reshape negative lengths, unravel size check). Trusted: _Wrapper(...)/Array.cast/NEP-18 dispatch as leaf models, divmod in characteristic form.',
        technique='contract-based deductive verification (ast->z3): unbounded for _takeslice/normdim; bounded structural unrolling with symbolic lengths for the shape rules'),
    'C08': dict(
        design='4.8 and 9.5',
        text='Algebraic and orientation kernel of the edge normal. Unbounded (NRA): numeric.ext(A) for n = 1, 2, 3 and all real entries is orthogonal to every column of A, has squared length det(A^T A) and the orientation the edge transforms '
             'rely on; Updim.ext negates it exactly when isflipped. BOUNDED (ndims <= 3; entries symbolic; the real constructors of SimplexEdge, TensorEdge1, TensorEdge2, ScaledUpdim, Updim, Matrix, every `flipped`, numeric.blockdiag and '
             'SimplexReference / TensorReference.edge_transforms are executed): a tensor edge\'s ext is the factor\'s ext padded with zeros with the same sign; ScaledUpdim: A^T ext\' = |det A| ext and the transported normal keeps its side '
             '(orientation = trans1.isflipped xor trans2.isflipped); SimplexEdge maps onto the face opposite its vertex; all edge normals of line, triangle, tetrahedron, square, cube and the two prisms point out of the element; flipped negates flag and ext.',
        note='Everything about calculus (gradients, div, curl, laplace, Jacobians, divergence theorem on meshes, normalisation, independence of parametrisation) needs n-dimensional array semantics and is OUTSIDE. Floats treated as reals.',
        technique='contract-based deductive verification: ast->z3 (NRA) on the real function bodies and constructors'),
    'C09': dict(
        design='4.9 and 9.5',
        text='(a) Tables: every branch of the real points.gauss2 / gauss3 code executed in exact rational arithmetic: weights sum to 1/d!, points inside, every monomial up to the advertised degree integrated exactly '
             '(|error| <= 5e-15 for the 16-digit constants); gauss1 point count; TensorPoints.weights/.coords; TransformPoints.weights = w*|det|. (b) INDEX PARTITION, unbounded (symbolic nelems, npoints, counts): PART(s) := '
             'getindex(0..nelems-1) are pairwise disjoint, cover range(npoints) and have the element point counts, stated as a bijection with ghost inverses; proved for _DefaultIndex, _TakeElements (+_offsets), _CustomIndex, _Add, _Mul '
             '(divmod lemmas proved as obligations), _Zip, _Empty getindex and the constructors that fix nelems/npoints, assuming PART of the operands (modular). (c) the evaluable twins get_evaluable_indices of '
             '_DefaultIndex/_CustomIndex/_Mul/_Zip/_Empty/_TakeElements and sample._offsets denote the array getindex returns (a 13-constructor denotation table; _Mul/_TakeElements bounded to one point axis).',
        note='Outside: _Integral.lower (weights x integrand), get_evaluable_weights/get_lower_args, _Zip.__init__ invariant (assumed), ConcatPoints dedup, gauss() eigen-solver, child/mosaic point sets. '
             'Trusted: exactness 2N-1 of Gauss-Legendre, linearity, IR constructor denotations (cross-checked against the real nodes in native/axioms.py), machine arithmetic as mathematical for the tables.',
        technique='contract-based verification: real table code executed in exact-rational mode with ground obligations to z3; ast->z3 with ghost inverse functions and modular operand contracts for the index partition'),
    'C10': dict(
        design='4.10 and 9.5',
        text='Index bookkeeping of structured and derived topologies. Unbounded: transformseq DimAxis.intaxis/boundaries/refined/getitem, IntAxis.refined/opposite (interface axes pair each interior face with its two neighbours exactly once incl. '
             'periodic; refinement doubles i, j and the period and commutes with boundaries). BOUNDED (<= 3 axes; axis ranges, periods, periodic flags symbolic; real bodies of StructuredTopology.connectivity / boundary / interfaces / refined / '
             'slice_unchecked with their constructors and all Axis methods): connectivity is neighbour-or-wrap-or--1 and symmetric; boundary = the 2 sides per non-periodic axis with outward opposites; interfaces pair e with e + unit_k exactly once '
             '(count formula); refined doubles every axis and commutes with boundary. SubsetTopology.connectivity (<= 4 base elements, symbolic table and kept set): renumbered-or-boundary, symmetric if the base is. Native exhaustive enumerations: '
             'Reference.connectivity / edgechildren tables (7 reference types), RefinedTopology.connectivity, SubsetTopology.connectivity/boundary/interfaces against the geometry (~9,100 cases).',
        note='Two recorded KNOWN FINDINGS (RefinedTopology.connectivity and SubsetTopology.interfaces when two elements share two faces; carve-out: the same enumerations over bases without such pairs). One defect repaired (invmap of an empty list). '
             'Measures, trimming by a level set, hierarchical refinement-by-subset, unions and closedness of boundaries are global geometric invariants over histories: OUTSIDE.',
        technique='contract-based deductive verification: ast->z3 on the real method bodies (harness contracts for compositions, objects of real classes executed from source); bounded native enumeration for the connectivity tables'),
    'C11': dict(
        design='4.11 and 9.5',
        text='Lookup kernel: for IndexTransforms, MaskedTransforms, ReorderedTransforms, UniformDerivedTransforms, DerivedTransforms, EmptyTransforms and (bounded) ChainedTransforms, StructuredTransforms (<= 3 axes, <= 2 refinements, axis values symbolic), PlainTransforms a harness composes the REAL '
             '__getitem__ and index_with_tail bodies and proves index_with_tail(self[i] + tail) == (i, tail) for every valid i, table and tail (parent abstract with the same contract); Axis.map/unmap mutual inverses. '
             'Chain rewriting, unbounded (any chain length, loop invariants on the real while/for bodies, composition as a fold in an abstract monoid): transform.canonical / uppermost / promote keep the length, the composed map '
             'and the outer dimensions, stay in range at every index, and end canonical / uppermost / with the documented head/tail split, GIVEN the item-level swap contract. That swap contract is itself checked (bounded, native '
             'exhaustive in exact Fraction arithmetic on the real matrices): SimplexEdge/TensorEdge1/TensorEdge2/ScaledUpdim.swapup/swapdown, Updim.swapdown over all adjacent pairs of chains of <= 3 child/edge transforms of line, '
             'square, cube, triangle, tetrahedron, prism. '
             'Array indexing, unbounded: the integer-array branch of Transforms.__getitem__ (item k of the result is self[index[k]] for every accepted index array, rejected exactly for out-of-range or repeated indices); Transforms.index/contains; '
             '_Uniform/_Take/_Repeat/_Product.get of the elementseq/pointsseq containers. Bounded native enumerations: slice/mask/array forms of every transform-sequence class, transformseq.chain, take/compress/repeat/product/chain of the containers (incl. chained take()); Topology.locate on small structured topologies (also one element wide) with separable affine / one-direction-nonlinear geometries: raises or returns points whose images lie within the tolerance of the targets, in input order (floating point: native stand-in only).',
        note='Trusted: pyvc executor; numpy.searchsorted/argsort/cumsum axioms; L-MONO; monoid fold lemmas (cross-checked on random matrices). Assumed: A-NF, A-DIM, well-formed input chains. One defect repaired (chained take() order). Outside / not built: '
             'StructuredTransforms with symbolic nrefine, TransformIndex/TransformCoords evaluation, interfaces, locate() beyond the bounded native family (unstructured and trimmed topologies, coupled nonlinear geometries, eps/maxdist/skip_missing).',
        technique='contract-based deductive verification: harness contracts over real method bodies, loop invariants with an abstract monoid for chain rewriting (ast->z3, E-matching); bounded native enumeration for the item-level swap tables'),
    'C12': dict(
        design='4.12 and 9.5',
        text='Dof bookkeeping kernel, unbounded unless noted: util.merge_index_map (union-find; four loop invariants, ghost representatives, no over-merging, termination of the chase); Basis._computed_support (two nested loop '
             'invariants: every support strictly increasing and e in support[d] <=> d in get_dofs(e), both directions); function._int_or_vec and its _dof/_ielem wrappers (index normalisation, exact IndexError conditions, result = '
             'strictly increasing union of f over the selected indices); PlainBasis / DiscontBasis (contiguous blocks; get_support exact inverse) / MaskedBasis (same selection on dofs and coefficient rows; get_support) / '
             'PrunedBasis.f_dofs_coeffs and get_support; numeric.invmap, sorted_index, sorted_contains; the constructors of Plain/Discont/Masked/Pruned/StructuredBasis establish the class invariants the method contracts use; StructuredBasis.f_dofs_coeffs (bounded 1-3 axes) and '
             'get_support (1-2 axes, loop invariant over the periodic images). Bounded native enumerations: get_edge_dofs (6 reference types, degree 1-3), _basis_c0_structured (two local functions share a dof exactly when their Lagrange nodes coincide), '
             'StructuredTopology._basis_spline dof numbering and multiplicity-expanded local knot vectors (1260 cases), _DiscontinuousPartitionBasis (one dof per distinct (part, parent dof) pair).',
        note='Coefficient tables are tracked as WHICH stored rows are combined, not polynomial values. Basis constructors (class invariants assumed), StructuredBasis.get_support, PrunedBasis.get_support, '
             'spline coefficient VALUES, partition of unity and continuity are OUTSIDE. One recorded KNOWN FINDING (_basis_c0_structured with a periodic direction exactly two elements wide). One defect found here was repaired (_int_or_vec single item).',
        technique='contract-based deductive verification: loop invariants + ghost state, ast->z3 on the real bodies; denotation table for the evaluable nodes the bases build'),
    'C13': dict(
        design='4.13 and 9.5',
        text='Specification handling and announced metadata. _argument_to_array (every spelling x key kind x value kind), _Replace.__init__, _join_arguments, arguments_for; function.derivative / _Derivative.__init__, '
             'replace_arguments, linearize, field, dotarg: announced shape, dtype, spaces and ARGUMENT TABLE for every spelling, ValueError exactly for unknown/inconsistent specifications (bounded: f has two arguments, one item per call). '
             '_util.shallow_replace / evaluable.replace_arguments / zero_all_arguments on five DAG shapes with symbolic identities (bounded): every matching argument replaced by the given object, simultaneously, sharing preserved, '
             'each node rebuilt at most once, replacements never entered. Argument._compile run-time shape check (unbounded): a value of the wrong shape raises, never broadcasts. argument_degree: one contract per _argument_degree '
             'rule (17 classes) against an abstract polynomial-degree semantics (an upper bound of the true degree; a dropped independence check is caught). Monomial._derivative ravel arithmetic (rank <= 3).',
        note='VALUES of replace/linearize/derivative/factor are OUTSIDE (only announced metadata and index arithmetic); evaluable.factor / function.factor themselves are not under contract. '
             'Trusted: str.split external, association-list reading of dicts with symbolic keys, metadata axioms of *, +, sum, transpose on function arrays (cross-checked natively).',
        technique='contract-based deductive verification: ast->z3 VC generation on the real function bodies, sidecar contracts; bounded DAG shapes with symbolic identities for the traversal'),
    'C14': dict(
        design='4.14 and 9.5',
        text='Certification logic, IEEE comparison semantics incl. nan, all numerics uninterpreted, vectors of any length. Matrix._solver, Matrix.solve (22 combinations), Matrix.solve_leniently, Matrix.submatrix cache guard, '
             'System.solve (3 method kinds), _with_solve.solve_withinfo, System.solve_constraints, System.step (bounded retry scenario): normal return => constrained entries exact, residual within tolerance, finite; only solver/matrix errors escape. '
             'Iteration methods Direct, Newton, ReuseNewton, LinesearchNewton, Minimize, Pseudotime as generators with loop invariants and a per-yield obligation: every yielded (arguments, resnorm) pair is construct(args0, x) and '
             'norm(R(args0, x)) for the SAME x; line searches exit only by an accepted step or SolverError. NormBased.__call__ control flow. System.deconstruct/construct round trip (bounded <= 2 trials): constrained entries bit for bit, '
             'free entries from x in order. BOUNDED native grid: NormBased strict clauses on 9^4 finite inputs.',
        note='Recorded KNOWN FINDING: NormBased is not robust to float cancellation/overflow for finite inputs (351 recorded grid points; any other failing point is a violation). Two defects found here were repaired earlier (nan residual, '
             'rconstrain dtype) and one now (System.step retry time). Outside: correctness of the residual function, accuracy, initial-guess independence, MedianBased, Arnoldi, termination of line searches.',
        technique='contract-based deductive verification: ast->z3 with loop invariants, yield hooks and uninterpreted numerics on the real bodies; bounded native grid for the float corner cases of NormBased'),
    'C15': dict(
        design='4.15 and 9.5',
        text='Validation and bookkeeping kernel. Unbounded (arrays of any length): matrix.assemble_csr returns normally only if exactly the well-formed CSR triple it was given is handed to the backend and raises only for input that is not well-formed; '
             'matrix.assemble_coo (composition with the compress_indices contract of C05); matrix.diag / empty / eye; the deprecated matrix.assemble argument order; Matrix.diagonal (loop invariant), Matrix.rowsupp, Matrix.__reduce__, '
             'Matrix.__sub__/__rmul__/__truediv__ (right sign / inverse), Matrix.submatrix cache guard (the returned object was built for masks equal to the requested rows AND cols). BOUNDED (block grids 1x1 .. 2x2, 3x1, 1x3; block contents '
             'symbolic arrays of symbolic length; loop invariant over the rows): matrix.assemble_block_csr hands a well-formed triple to assemble_csr that denotes the block matrix (entry k of block (R,C), row r, lands in global row rowoffset(R)+r at '
             'column coloffset(C)+col), on the fast path and the interleaving path, AssertionError exactly for inconsistent blocks.',
        note='The numpy/scipy/MKL backends themselves (2-D array model), arithmetic inside the backends, export and pickling VALUES are OUTSIDE. Four defects found here were repaired (repeated columns, negative columns, 0-row matrices in the numpy backend; '
             'rconstrain dtype under C14). Trusted: numpy externals as axioms, chunk-list model of Python lists of arrays (pyvc/chunks.py), L-MONO, L-ROW, int64 as mathematical integers.',
        technique='contract-based deductive verification: ast->z3 VC generation (quantified array obligations) on the real function bodies, callee contracts for composition; bounded block-grid unrolling for assemble_block_csr'),
    'C16': dict(
        design='4.16 and 9.5',
        text='Sequential kernel (no schedules): parallel.range.__next__ under its lock; parallel._wait / _fork (bounded nprocs = 3: parent waits for every child and raises if any failed, kills children and re-raises when the block raises; '
             'child runs the block under maxprocs(1) and exits 0/1 without returning) / fork / maxprocs / shempty / shzeros / ctxrange; BOUNDED configurations of the code generator _BlockBuilder (exec, assign_to, assert_true, raise_, if_): '
             'every emitted statement that mentions a shared array is nested in `with lock` of all its shared variables (exec, assign_to, assert_true, raise_, if_, array_copy/iadd/imul/add_at/fill_zeros, eval, assert_equal); '
             '_BlockTreeBuilder.new_empty_array_for_evaluable (bounded block-id depth <= 3): an array is shared exactly when the run is parallel and the array lives at loop depth 0, it then has its own lock created before the allocation and is allocated through shempty; '
             'the parallel section of compile(): ctxrange wraps only outermost loops and only when maxprocs > 1; the _pyast statement printer read back by CPython\'s parser (the generated `with lock:` really encloses its statements); Topology._locate shared bookkeeping (bounded); ground frame check of _pyast `variables`.',
        note='All interleavings, visibility of shared memory and kill faults are OUTSIDE: this family is silent on concurrency. Assumed: Lock gives mutual exclusion, RawValue is sequentially consistent. Later READERS of a shared array are unlocked and safe only by block order, which is not under contract (noted in NOT_COVERED).',
        technique='contract-based verification: symbolic execution of the real methods with lock/event ghost state and OS externals as contracts; syntactic frame check on _pyast'),
    'C17': dict(
        design='4.17 and 9.5',
        text='Encoding kernel of types.nutils_hash, SHA-1 idealised as injective, two-run harness over the real body, no bound on lengths: leaves, str, bytes, type, None/Ellipsis, tuple/list, __getnewargs__, dict, set/frozenset, ndarray, '
             'numpy scalars (kinds b/i/u/f/c hash as the equal Python scalar), MethodType, dataclasses (symbolic number of fields), seekable file; Immutable/DataClass/frozendict/frozenmultiset.__nutils_hash__: equal buffers force equal '
             'type tag and children, order-independent for unordered containers. Interning and canonicalisation (BOUNDED signature shapes, symbolic argument values, real inspect.Signature.bind): argument_canonicalizer, ImmutableMeta.__call__ -> '
             'Immutable.__new__ -> _new, SingletonMeta._new, Immutable/DataClass.__reduce__, DataClassMeta.__call__ (hit returns the cached object, a miss stores only after successful __post_init__, differently spelled equal calls give the '
             'same object, pickle round trip rebuilds the canonical args), arraydata.__new__ (integer width canonicalised), _hashable_function_wrapper / hashable_function, System.__nutils_hash__.',
        note='One recorded KNOWN FINDING (seekable-file position not delimited; pinned by a test). Two defects found here were repaired (unsigned numpy scalars, hashable_function re-wrap). Outside: weak-reference lifetimes / GC, '
             'pickling in another process, types.lru_cache / frozenarray (need a heap model of numpy objects). Assumed: distinct hashed types have distinct __name__; frozenmultiset counts < 10^4.',
        technique='contract-based deductive verification: two-run harness over the real function body, byte strings as arrays, loop invariants, ast->z3; bounded call-shape enumeration with the real inspect module for interning'),
    'C18': dict(
        design='4.18 and 9.5',
        text='Complete and cleanly interrupted histories. cache.function.wrapper (closure) under pickle/file contracts: for each load outcome (hit, old format, EOFError, UnpicklingError, IndexError) and caching disabled: a hit returns the '
             'stored value after replaying its log without calling func; a miss calls func once with caching disabled, dumps (value, log) at offset 0 of the locked file; an exception of func propagates with nothing stored and the entry '
             'path neither removed nor replaced (frame); a shorter new entry over a longer stale one is read back correctly; key covers function key and all arguments. Recursion.__iter__ (BOUNDED: <= 4 consumed items; cached count, '
             'length, end position and tail state symbolic): yields equal the uncached sequence, the generator is resumed at most once with the last min(index,length) values, stored exceptions re-raised in place; caching/enable/disable '
             'contexts nest and restore; _lock_file_fcntl.',
        note='NOT covered, by the nature of the family: kill at an arbitrary byte while overwriting a longer stale entry, arbitrary corrupt bytes, flock mutual exclusion across processes, concurrent callers. ASSUMED: a truncated entry raises '
             'one of the caught classes (cross-checked for every truncation point of random entries).',
        technique='contract-based deductive verification: symbolic execution of the real closures against external (pickle, file, lock) contracts; bounded unrolling of the item loop'),
    'C19': dict(
        design='4.19 and 9.5',
        text='expression_v2. Unbounded (strings of any length, loop invariants): _Substring._find (first level-0 match with bracket depth invariant), _match*, partition, split/isplit (pieces tile the input, no piece contains a level-0 separator), '
             'partition_scope, trim/trim_start/trim_end, strip_prefix/suffix, __getitem__; 0 <= start <= stop <= len(base) preserved by every construction. BOUNDED structure with symbolic characters, lengths and signs: _Parser.parse_expression, '
             'parse_fraction, parse_term, parse_power, parse_item against an uninterpreted array backend: indices occurring once stay free in order, twice are summed, more often rejected; terms of a sum need equal index sets and are aligned to '
             'the first term; numerals select elements; whitespace/bracket rules; ONLY ExpressionSyntaxError escapes for malformed input. _trace, _merge_summed_indices_same_term, _FunctionArrayOps.align (bounded).',
        note='That the produced array MEANS the index-notation reading (_FunctionArrayOps multiply/trace/get_element, Namespace.__setattr__), number parsing, termination of split and expression_v1 are outside. '
             'Trusted: small symbolic set/str domain, uninterpreted array backend.',
        technique='contract-based verification: ast->z3 with loop invariants for the scanners; bounded structural unrolling with symbolic characters for the recursive descent'),
    'C20': dict(
        design='4.20 and 9.5',
        text='Dimension algebra: the 18 Quantity dispatch handlers, Dimension._binop/__mul__/__truediv__/__pow__/wrap/__call__, the @register table; unbounded: Quantity.__array_ufunc__/__array_function__/__nutils_dispatch__ '
             '(an unregistered numpy function or ufunc method never yields a value), _try_or_noimp, _reverse, the operator partialmethod table, __truediv__, __bool__, __len__, __iter__, dispatch coverage of every @nutils_dispatch function. '
             'BOUNDED (<= 3 factors; names, numbers, exponents symbolic; token-string model): Dimension.from_powers (canonical, order independent), name decodability via __getattr__, Dimension.create, _split_factors, parse, '
             'Quantity.__format__ and the parse->format round trip in exact arithmetic, Units.__setattr__ (all 19 SI prefixes, collision refusal); unit._Quantity.__pow__/__imul__, _Bound.__stringly_loads__.',
        note='Wrapped numpy/nutils functions are uninterpreted. Outside: float rounding and float.__format__ text, unit._Units.parse / create (re-based), from_powers interning lifetimes.',
        technique='contract-based deductive verification (ast->z3) of the handler bodies; ground comparison of the decorator table; bounded token-string model for names and unit strings'),
}

NOT_APPLICABLE = {
    'C02': 'whole-DAG faithful translation into generated numpy programs: no function-level postcondition carries it; would need a denotational semantics of ~150 node classes and of the generated code (DESIGN 4.2)',
    'C03': 'history/non-interference property of a program that exists only as a generated string; no per-function contract expresses it (DESIGN 4.3)',
}
PENDING = []


def main():
    checks = []
    for pid, d in sorted(CLAIMED.items()):
        checks.append(dict(
            property_id=pid, quick_cmd='./check %s --tier quick' % pid, thorough_cmd='./check %s --tier thorough' % pid,
            evidence_file='evidence/%s.json' % pid, replay_cmd_template='./check %s --replay {path}' % pid, engine='pyvc',
            level_claimed=dict(category=d.get('category', 'proof'), text=d['text'], design_ref='DESIGN.md section ' + d['design']),
            level_note=d['note'], technique=d['technique']))
    na = [dict(property_id=k, reason=v) for k, v in sorted(NOT_APPLICABLE.items())]
    for p in PENDING:
        if p not in CLAIMED and p not in NOT_APPLICABLE:
            na.append(dict(property_id=p, reason='within reach of the technique per DESIGN.md section 4 but no check is built (yet); not claimed'))
    na.sort(key=lambda d: d['property_id'])
    m = dict(
        version=1, setup_cmd='./setup.sh',
        hooks=dict(guard='NUTILS_VERIF', enable='no hooks: contracts are sidecar files under /verif/contracts, /repo is read with ast and not instrumented',
                   baseline_off_cmd=BASELINE, source_commits=[], add_only=True),
        engines=[dict(name='pyvc', path='pyvc/', serves_properties=sorted(CLAIMED),
                      kind_free_text='verification-condition generator: re-parses the real function bodies under /repo/src/nutils with ast on every run, executes them symbolically path by path under sidecar contracts, one SMT obligation per (path, clause), discharged by z3 5.1 / cvc5 1.0.3 / z3 4.8.12; counter-models are replayed natively under /venv/bin/python')],
        checks=checks, not_applicable=na,
        notes='Exit codes of ./check: 0 all obligations discharged (known findings listed), 1 violation, 2 undecided, 3 checker error. fix: commits in /repo are listed in known_findings.json.')
    json.dump(m, open(os.path.join(HERE, 'MANIFEST.json'), 'w'), indent=1)


if __name__ == '__main__':
    main()
