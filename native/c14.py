"""Native replays for C14: the real solver/matrix functions run on stub collaborators that behave as the
counter-model says (a backend returning a given vector, a method reporting given residual norms)."""
import itertools, math, types, numpy
nan, inf = float('nan'), float('inf')


def _floats(m, prefix):
    t, v = m.get(prefix + '.t'), m.get(prefix + '.v')
    if t is None:
        return None
    t = int(t)
    if t == 3:
        return nan
    if t == 1:
        return inf
    if t == 2:
        return -inf
    try:
        return float(eval(str(v).replace('?', ''), {}))
    except Exception:
        return 0.0


def system_solve(kind, m):
    """System.solve with a stub system and a stub method; tries the residual-norm sequences suggested by the
    model class (nan / inf / above tol) and checks the certified-residual clause on what is returned."""
    from nutils import solver
    tol = _floats(m, 'tol') or 1e-6
    if not tol > 0:
        tol = 1e-6
    seqs = [[nan], [1., nan], [nan, nan, nan], [1., inf, nan], [2 * tol, 3 * tol]]
    for seq in seqs:
        for miniter, maxiter in ((0, None), (1, None), (0, 1), (2, 5)):
            reported = {}

            def method(system, *, arguments, constrain, seq=seq):
                items = [({'k': k}, r) for k, r in enumerate(seq)]
                for a, r in items:
                    reported[a['k']] = r
                if kind == 'direct':
                    return items[0]
                return iter(items)
            stub = types.SimpleNamespace(is_linear=(kind != 'iterative'), is_symmetric=False, _trial_info='u')
            try:
                if kind == 'default':
                    continue
                args = solver.System.solve(stub, arguments={}, constrain={}, tol=tol, miniter=miniter, maxiter=maxiter, method=method)
            except (solver.SolverError, StopIteration, ValueError, RuntimeError) as e:
                continue
            r = reported[args['k']]
            if not r <= tol:
                print('System.solve(tol=%r, miniter=%r, maxiter=%r) with a %s method reporting residual norms %r returned the iterate with residual norm %r' % (tol, miniter, maxiter, kind, seq, r))
                print('REPLAY: VIOLATION-CONFIRMED returned without raising although the residual norm %r is not <= tol' % r)
                return
    print('REPLAY: not reproduced on the residual-norm sequences tried')


def with_solve(m):
    from nutils import solver
    tol = 1e-6
    for seq in [[nan], [1., nan], [1., inf, nan], [2 * tol, 3 * tol]]:
        for miniter, maxiter in ((0, inf), (1, inf), (0, 1), (1, 3)):
            def method(system, *, arguments, constrain, seq=seq):
                for k, r in enumerate(seq):
                    yield {'u': numpy.array([float(k)])}, r
            ws = solver._with_solve(None, method, {}, {}, 'u')
            try:
                lhs, info = type(ws).solve_withinfo.__wrapped__(ws, tol, maxiter, miniter) if hasattr(type(ws).solve_withinfo, '__wrapped__') else ws.solve_withinfo(tol, maxiter, miniter)
            except (solver.SolverError, StopIteration, ValueError, RuntimeError):
                continue
            if not info.resnorm <= tol or info.niter < miniter:
                print('solve_withinfo(tol=%r, maxiter=%r, miniter=%r) over residual norms %r returned iterate %s with resnorm %r after %d iterations' % (tol, maxiter, miniter, seq, lhs, info.resnorm, info.niter))
                print('REPLAY: VIOLATION-CONFIRMED returned without raising although the reported residual norm is not <= tol (or too few iterations)')
                return
    print('REPLAY: not reproduced on the residual-norm sequences tried')


def _stub_matrix(n, backend_result, product):
    from nutils.matrix import Matrix

    class Stub(Matrix):
        def __init__(self):
            super().__init__((n, n), float)

        def _solver_stub(self, rhs, atol, **kw):
            return backend_result(rhs)

        def __matmul__(self, other):
            return product(other)

        def _submatrix(self, rows, cols):
            k = int(numpy.sum(cols))
            return _stub_matrix(k, backend_result, product)
    return Stub()


def matrix_solver(m, clause):
    from nutils import matrix
    tried = 0
    for lhs_val, res_scale, atol, rtol in itertools.product([0., 1., nan, inf], [0., 1., 10., nan], [0., 1e-3], [0., 1e-3]):
        n = 2
        rhs = numpy.ones(n)
        lhs = numpy.full(n, lhs_val)
        A = _stub_matrix(n, lambda r: lhs.copy(), lambda x: rhs - res_scale * numpy.ones(n) if numpy.isfinite(x).all() else numpy.full(n, nan))
        try:
            out = A._solver(rhs, 'stub', atol=atol, rtol=rtol)
        except matrix.MatrixError:
            continue
        except Exception as e:
            print('REPLAY: VIOLATION-CONFIRMED Matrix._solver raised %s (not a MatrixError) for backend result %r' % (type(e).__name__, lhs))
            return
        tried += 1
        tol1 = max(atol, rtol * numpy.linalg.norm(rhs))
        resnorm = numpy.linalg.norm(rhs - A @ out)
        bad = (not numpy.isfinite(out).all()) or (tol1 > 0 and not resnorm <= tol1 and not (out == 0).all()) or ((out == 0).all() and lhs_val != 0 and not numpy.linalg.norm(rhs) <= tol1)
        if bad:
            print('Matrix._solver(rhs=%s, atol=%r, rtol=%r) with a backend returning %s (residual norm %r) returned %s' % (rhs, atol, rtol, lhs, resnorm, out))
            print('REPLAY: VIOLATION-CONFIRMED uncertified result returned without raising')
            return
    print('REPLAY: not reproduced on the %d backend behaviours tried' % tried)


def matrix_solve(scn, m, clause):
    from nutils import matrix
    has_rhs, has_lhs0, ckind, has_rc = scn
    n = 3
    for cons_pattern in ([True, False, True], [False, False, True], [True, True, True], [False, False, False]):
        rhs = numpy.arange(1., n + 1) if has_rhs else None
        lhs0 = numpy.array([5., 6., 7.]) if has_lhs0 else None
        if ckind == 'none':
            constrain = None
        elif ckind == 'bool':
            constrain = numpy.array(cons_pattern)
        else:
            constrain = numpy.where(cons_pattern, numpy.array([.5, -2., 9.]), nan)
        rcons = numpy.array(cons_pattern) if has_rc else None
        for tolfail in (False, True):
            def backend(r, tolfail=tolfail):
                return numpy.full(len(r), 42.)
            A = _stub_matrix(n, backend, lambda x: numpy.zeros(n))
            kw = dict(lhs0=lhs0, constrain=constrain, rconstrain=rcons, solver='stub')
            if tolfail:
                kw.update(atol=1e-30)
            try:
                out = A.solve(rhs, **kw) if has_rhs else A.solve(**kw)
            except matrix.ToleranceNotReached as e:
                out = e.best
            except matrix.MatrixError:
                continue
            except Exception as e:
                print('Matrix.solve(rhs=%s, lhs0=%s, constrain=%s, rconstrain=%s)' % (rhs, lhs0, constrain, rcons))
                print('REPLAY: VIOLATION-CONFIRMED raised %s: %s (neither a result nor a MatrixError)' % (type(e).__name__, e))
                return
            if constrain is not None:
                if constrain.dtype == bool:
                    want = numpy.where(constrain, lhs0 if lhs0 is not None else 0., nan)
                else:
                    want = constrain
                mask = ~numpy.isnan(want)
                if not (out[mask] == want[mask]).all():
                    print('Matrix.solve(rhs=%s, lhs0=%s, constrain=%s, rconstrain=%s) -> %s' % (rhs, lhs0, constrain, rcons, out))
                    print('REPLAY: VIOLATION-CONFIRMED constrained entries differ from their prescribed values %s' % want)
                    return
    print('REPLAY: not reproduced on the inputs tried')


def solve_constraints():
    """Real System.solve_constraints on tiny quadratic functionals whose hessian has columns with negative / small entries."""
    from nutils import solver, function, mesh
    import numpy
    for signs in ([1., -1.], [-1., -1.], [1., 1e-20], [-1., 0.]):
        u = function.field('u', numpy.array([1., 1.]) * 0 + 1, shape=(2,)) if False else function.Argument('u', (2,))
        f = sum(s * (u[i] - (i + 1.))**2 for i, s in enumerate(signs))
        try:
            sys_ = solver.System(f, trial='u')
            cons = sys_.solve_constraints(droptol=1e-12)
        except Exception as e:
            print('functional with curvatures %s raised %s: %s' % (signs, type(e).__name__, e))
            continue
        got = numpy.isnan(cons['u'])
        want = numpy.array([abs(2 * s) <= 1e-12 for s in signs])
        print('curvatures %s -> constraints %s' % (signs, cons['u']))
        if (got != want).any():
            print('REPLAY: VIOLATION-CONFIRMED entries left NaN %s, entries without influence above droptol %s' % (got.tolist(), want.tolist()))
            return
    print('REPLAY: not reproduced on the functionals tried')
