"""Cross-check of the n-d array externals the C10 StructuredTopology contracts assume (contracts/c10_real.py: NdInt, Merged),
against the real numpy on random small inputs: row-major ravel (Horner form), arange + reshape, reshape merging consecutive
axes, basic-index stores with clamped constant slices / negative integers / Ellipsis, numpy.prod of a shape tuple."""
import itertools
import numpy


def ravel(ix, shape):
    flat = 0
    for i, n in zip(ix, shape):
        flat = flat * n + i
    return flat


def clamp(x, n, default):
    if x is None:
        return default
    v = x + n if x < 0 else x
    return 0 if v < 0 else n if v > n else v


def run(check, rng):
    nd = int(rng.randint(1, 4))
    shape = tuple(int(x) for x in rng.randint(1, 4, size=nd))
    N = int(numpy.prod(shape, dtype=int))
    check('c10-prod-of-shape', N == ravel([s - 1 for s in shape], shape) + 1, shape)
    ielems = numpy.arange(N).reshape(shape)
    check('c10-arange-reshape-is-row-major-ravel', all(ielems[ix] == ravel(ix, shape) for ix in itertools.product(*[range(s) for s in shape])), shape)
    # reshape merging consecutive axes: R[ravel(g0), ravel(g1)] = A[g0 ++ g1]
    tail = (nd, 2)
    A = rng.randint(-9, 10, size=shape + tail)
    R = A.reshape(N, nd * 2)
    ok = all(R[ravel(e, shape), ravel(t, tail)] == A[e + t] for e in itertools.product(*[range(s) for s in shape]) for t in itertools.product(range(nd), range(2)))
    check('c10-reshape-merges-consecutive-axes-row-major', ok and R.shape == (N, 2 * nd), shape)
    # basic-index store: x[idx] = v writes v at the selected region and nothing else; region by the clamp rule
    x = rng.randint(-9, 10, size=shape + tail)
    old = x.copy()
    idx, plan = [], []
    use_ellipsis = bool(rng.randint(0, 2))
    lead = int(rng.randint(0, nd + 1)) if use_ellipsis else nd
    for k in range(lead):
        n = shape[k]
        kind = int(rng.randint(0, 3))
        if kind == 0:
            c = int(rng.randint(-n, n))
            idx.append(c)
            plan.append(('int', c + n if c < 0 else c))
        else:
            a = [None, 0, 1, -1, 2, -2][int(rng.randint(0, 6))]
            b = [None, -1, 1, 0, 2, -2][int(rng.randint(0, 6))]
            idx.append(slice(a, b))
            st, sp = clamp(a, n, 0), clamp(b, n, n)
            plan.append(('slice', st, max(sp - st, 0)))
    if use_ellipsis:
        idx.append(Ellipsis)
        plan += [('slice', 0, shape[k]) for k in range(lead, nd)]
    kd, sd = int(rng.randint(0, nd)), int(rng.randint(0, 2))
    idx += [kd, sd]
    plan += [('int', kd), ('int', sd)]
    tshape = tuple(p[2] for p in plan if p[0] == 'slice')
    v = rng.randint(100, 200, size=tshape)
    x[tuple(idx)] = v
    good = True
    for ix in itertools.product(*[range(s) for s in shape + tail]):
        inside, jx = True, []
        for p, i in zip(plan, ix):
            if p[0] == 'int':
                inside = inside and i == p[1]
            else:
                inside = inside and p[1] <= i < p[1] + p[2]
                jx.append(i - p[1])
        want = v[tuple(jx)] if inside else old[ix]
        good = good and x[ix] == want
    check('c10-basic-index-store', good, shape, [str(i) for i in idx])
    # the same region read back
    got = x[tuple(idx)]
    check('c10-basic-index-load', got.shape == tshape and (got == v).all(), shape, [str(i) for i in idx])
