"""Cross-check of the external (numpy / stdlib) axioms the contracts assume, against the real numpy, on random small inputs.
A wrong axiom is the easiest way to prove something false; this runs in the thorough tier."""
import json, random
import numpy


def run(seed=0, rounds=400):
    rng = numpy.random.RandomState(seed)
    fails = []

    def check(name, cond, *info):
        if not cond:
            fails.append((name, [numpy.asarray(x).tolist() if hasattr(x, 'tolist') or isinstance(x, (list, tuple)) else x for x in info]))
    for _ in range(rounds):
        n = rng.randint(0, 7)
        a = numpy.sort(rng.randint(-3, 4, size=n))
        v = int(rng.randint(-4, 5))
        for side in ('left', 'right'):
            p = int(numpy.searchsorted(a, v, side=side))
            lo = (a[:p] < v).all() if side == 'left' else (a[:p] <= v).all()
            hi = (a[p:] >= v).all() if side == 'left' else (a[p:] > v).all()
            check('searchsorted-' + side, 0 <= p <= n and lo and hi, a, v, p)
        b = rng.randint(0, 2, size=n).astype(bool)
        c = numpy.cumsum(b)
        check('cumsum', all(c[k] == (c[k - 1] if k else 0) + b[k] for k in range(n)), b, c)
        perm = rng.permutation(n)
        check('argsort-of-permutation-is-inverse', (numpy.argsort(perm)[perm] == numpy.arange(n)).all(), perm)
        x = rng.randint(-5, 6, size=n)
        y = x.copy()
        vals = rng.randint(10, 20, size=n)
        y[perm] = vals
        check('fancy-store-injective', all(y[perm[k]] == vals[k] for k in range(n)), x, perm, vals)
        m = rng.randint(0, 2, size=n).astype(bool)
        z = x.copy()
        z[m] = 99
        check('mask-store', all((z[i] == 99) if m[i] else (z[i] == x[i]) for i in range(n)), x, m)
        z = x.astype(float)
        src = rng.rand(n)
        z[~m] = src[~m]
        check('mask-to-mask-store', all(z[i] == (src[i] if not m[i] else x[i]) for i in range(n)), x, m)
        if n >= 2:
            out = numpy.empty(n + 1, dtype=bool)
            out[:] = False
            numpy.greater(x[1:], x[:-1], out=out[1:-1])
            check('ufunc-out-writes-through-a-slice-view', all(out[i] == (x[i] > x[i - 1]) for i in range(1, n)) and not out[0] and not out[n], x, out)
        if n:
            check('min-max-attained', x.min() in x and x.max() in x and (x >= x.min()).all() and (x <= x.max()).all(), x)
        k = rng.randint(0, n + 1)
        ii = numpy.unique(rng.randint(0, n + 1, size=k)) if n else numpy.zeros(0, int)
        w = numpy.zeros(n + 1, dtype=bool)
        w[ii] = True
        check('fancy-store-constant', all(w[j] == (j in ii) for j in range(n + 1)), ii, w)
        s = slice(int(rng.randint(-9, 10)), int(rng.randint(-9, 10)))
        st, sp, _ = s.indices(n)
        check('slice-indices', x[s].tolist() == [x[i] for i in range(st, max(st, sp))], x, (s.start, s.stop))
        # pyvc/npext.py: nonzero, repeat, ufunc out= into slice / 0-d views, concatenate
        st = rng.randint(-1, 3, size=n + 1)
        nzp, = st.nonzero()
        check('nonzero', (numpy.diff(nzp) > 0).all() and (st[nzp] != 0).all() and set(nzp.tolist()) == set(k for k in range(n + 1) if st[k] != 0) and len(nzp) <= n + 1, st, nzp)
        cnts = rng.randint(-1 if rng.rand() < .2 else 0, 3, size=n)
        try:
            rep = numpy.repeat(x, cnts)
            raised = False
        except ValueError:
            raised = True
        check('repeat-raises-iff-negative-count', raised == bool((cnts < 0).any()), x, cnts)
        if not raised:
            off = [0]
            for cj in cnts:
                off.append(off[-1] + int(cj))
            okr = len(rep) == off[-1] and all(off[i] <= off[j] for i in range(n + 1) for j in range(i, n + 1))
            okr = okr and all(rep[p_] == x[j] for j in range(n) for p_ in range(off[j], off[j + 1]))
            okr = okr and all(any(off[j] <= p_ < off[j + 1] and rep[p_] == x[j] for j in range(n)) for p_ in range(len(rep)))
            check('repeat-blocks', okr, x, cnts, rep)
        if n >= 1:
            o = numpy.full(n + 1, 77)
            numpy.add(x[0], 1, out=o[0, ...], dtype=o.dtype)
            numpy.subtract(x[1:], x[:-1], out=o[1:-1], dtype=o.dtype)
            numpy.subtract(5, x[-1], out=o[-1, ...], dtype=o.dtype)
            check('ufunc-out-into-0d-and-slice-views', o[0] == x[0] + 1 and o[n] == 5 - x[-1] and all(o[k_] == x[k_] - x[k_ - 1] for k_ in range(1, n)), x, o)
            check('fancy-take', (st[nzp] == numpy.array([st[k_] for k_ in nzp], dtype=int)).all(), st, nzp)
        parts = [rng.randint(0, 9, size=rng.randint(0, 4)) for _ in range(rng.randint(1, 4))]
        cat = numpy.concatenate(parts)
        offs = numpy.cumsum([0] + [len(p_) for p_ in parts])
        check('concatenate', len(cat) == offs[-1] and all(cat[offs[j] + i] == parts[j][i] for j in range(len(parts)) for i in range(len(parts[j]))), cat)
        # pyvc/chunks.py (assemble_block_csr): a list of arrays grown by append is modelled by (number of chunks, concatenation);
        # append = concatenation extended, truthiness = number of chunks, concatenate([]) raises ValueError; list.extend(array);
        # numpy.array(list of ints); unpacking a length-2 slice; a[i:j] for 0 <= i <= j <= len needs no clamping
        grown, model = [], numpy.zeros(0, dtype=int)
        for p_ in parts:
            grown.append(p_)
            model = numpy.concatenate([model, p_])
            check('list-of-arrays-by-concatenation', bool(grown) and (numpy.concatenate(grown) == model).all() and len(numpy.concatenate(grown)) == len(model), grown)
        try:
            numpy.concatenate([])
            check('concatenate-empty-list-raises', False)
        except ValueError:
            pass
        lst = [0]
        lst.extend(parts[0] + 3)
        lst.append(int(7))
        check('list-extend-array', numpy.array(lst).tolist() == [0] + [int(v_) + 3 for v_ in parts[0]] + [7] and numpy.array(lst).dtype.kind == 'i', lst)
        big = rng.randint(0, 9, size=rng.randint(2, 6))
        i_ = int(rng.randint(0, len(big) - 1))
        a_, b_ = big[i_:i_ + 2]
        check('unpack-length-2-slice', (a_, b_) == (big[i_], big[i_ + 1]))
        j_ = int(rng.randint(i_, len(big) + 1))
        check('slice-without-clamping', big[i_:j_].tolist() == [big[k_] for k_ in range(i_, j_)] and len(big[i_:j_]) == j_ - i_)
        fl = float(rng.choice([numpy.nan, numpy.inf, -numpy.inf, 0., 1., -2.5]))
        g = float(rng.choice([numpy.nan, numpy.inf, 0., 3.]))
        check('ieee-comparisons', (not (fl > g) if numpy.isnan(fl) or numpy.isnan(g) else True) and ((max(fl, g) == g) == (g > fl) or numpy.isnan(max(fl, g)) or fl == g), fl, g)
    # ---- C17 extension axioms (contracts/C17.py, contracts/C17_intern.py)
    import functools, inspect
    seen = {}
    for c in range(10000):
        t = '{:04d}'.format(c)
        check('count-field-4-digits-injective', len(t) == 4 and t.isdigit() and t not in seen, c)
        seen[t] = c
    check('count-field-wider-from-10000', len('{:04d}'.format(10000)) == 5)
    for _ in range(rounds // 4):
        v = int(rng.randint(-100, 100))
        for T in (numpy.int8, numpy.int16, numpy.int32, numpy.int64):
            x = T(v)
            check('int(numpy-int)-is-the-equal-python-int', type(int(x)) is int and int(x) == v and repr(int(x)) == repr(v), v)
        fv = float(rng.choice([0.5, -1.25, 3.0, 1e10, float(numpy.float32(0.1))]))
        for T in (numpy.float32, numpy.float64):
            x = T(fv)
            check('float(numpy-float)-is-the-equal-python-float', type(float(x)) is float and float(x) == x and repr(float(x)) == repr(float(x).__float__()), fv)
        check('bool(numpy-bool)', bool(numpy.bool_(v % 2)) is bool(v % 2))
        check('complex(numpy-complex)', complex(numpy.complex64(complex(v, 1))) == complex(v, 1) and type(complex(numpy.complex64(1j))) is complex)
        # arrays: astype / tobytes / equal
        n = int(rng.randint(0, 5))
        vals = rng.randint(-100, 100, size=(n, 2))
        a8, a32, a64 = vals.astype(numpy.int8), vals.astype(numpy.int32), vals.astype(numpy.int64)
        check('astype-int-then-tobytes-is-width-independent', a8.astype(int, copy=False).tobytes() == a32.astype(int, copy=False).tobytes() == a64.astype(int, copy=False).tobytes(), vals)
        check('astype-to-own-dtype-changes-nothing', a64.astype(int, copy=False).tobytes() == a64.tobytes() and a64.astype(int, copy=False).dtype == a64.dtype, vals)
        check('astype-keeps-shape', a8.astype(int, copy=False).shape == a8.shape and a8.astype(float).shape == a8.shape)
        big = numpy.array([2**63 + int(rng.randint(0, 9)), 1], dtype=numpy.uint64)
        check('equal-all-detects-lossy-cast', not numpy.equal(big.astype(int), big).all() and numpy.equal(a8.astype(int), a8).all(), big)
        check('asarray-of-ndarray-is-itself', numpy.asarray(a32) is a32 and (n == 0 or (numpy.asarray(a32.tolist()) == a32).all()))
        fo = numpy.asfortranarray(a64)
        check('tobytes-depends-on-dtype-shape-values-only', fo.tobytes() == a64.tobytes() and (n == 0 or a64.tobytes() != a32.tobytes()), vals)
        # sorted of (name, value) pairs with distinct names
        names = list(rng.permutation(['p', 'q', 'k', 'kw', 'a']))[:int(rng.randint(0, 5))]
        pairs = [(nm, object()) for nm in names]
        check('sorted-pairs-by-distinct-name', [p[0] for p in sorted(pairs)] == sorted(names), names)

    def f(x):
        return x
    f.extra = 1
    f.__nutils_hash__ = b'stale'

    class W:
        pass
    w = W()
    w.__nutils_hash__ = b'fresh'
    functools.update_wrapper(w, f)
    check('update_wrapper-updates-dict-and-sets-wrapped', w.__wrapped__ is f and w.extra == 1 and w.__nutils_hash__ == b'stale' and w.__name__ == 'f')
    # ---- C18 externals: pickle on files, fcntl constants, contextlib.contextmanager
    import io, pickle, contextlib
    for _ in range(min(rounds, 120)):
        obj = _random_entry(rng)
        blob = pickle.dumps(obj)
        tail = bytes(rng.randint(0, 256, size=rng.randint(0, 40)).tolist())
        f = io.BytesIO(blob + tail)
        got = pickle.load(f)
        check('pickle.load-returns-the-first-pickle-and-ignores-what-follows', _same(got, obj) and f.tell() == len(blob), len(blob), len(tail))
        stale = pickle.dumps(_random_entry(rng)) + b'x' * int(rng.randint(0, 300))
        f = io.BytesIO()
        f.write(stale)
        f.seek(0)
        pickle.dump(obj, f)  # no truncate: the rest of the longer stale entry stays behind
        size_after = len(f.getvalue())
        f.seek(0)
        check('dump-at-offset-0-does-not-truncate-and-load-reads-the-new-entry', _same(pickle.load(f), obj) and size_after == max(len(stale), len(blob)), len(stale), len(blob))
        bad = {}
        for k in range(len(blob)):
            try:
                pickle.load(io.BytesIO(blob[:k]))
                bad[k] = 'returned'
            except (EOFError, pickle.UnpicklingError, IndexError):
                pass
            except Exception as e:
                bad[k] = type(e).__name__
        check('ASSUMPTION-a-cut-off-pickle-raises-EOFError-UnpicklingError-or-IndexError', not bad, sorted(bad.items())[:3])
    try:
        import fcntl
        check('fcntl-lock-constants', (fcntl.LOCK_SH, fcntl.LOCK_EX, fcntl.LOCK_NB, fcntl.LOCK_UN) == (1, 2, 4, 8))
    except ImportError:
        pass
    trace = []

    @contextlib.contextmanager
    def cm():
        trace.append('enter')
        try:
            yield
        finally:
            trace.append('exit')
    try:
        with cm():
            trace.append('body')
            raise KeyError('x')
    except KeyError:
        trace.append('propagated')
    check('contextmanager-runs-the-body-at-the-yield-and-raises-its-exception-there', trace == ['enter', 'body', 'exit', 'propagated'], trace)
    from native import axioms_c01  # n-d denotations of the evaluable node constructors (contracts/c01_nd.py)
    for _ in range(max(1, rounds // 40)):
        axioms_c01.run(check, rng, 0)
    from native import axioms_c05  # externals of the C05 extension contracts (argsort / nonzero-by-count, IR meaning table)
    for _ in range(rounds):
        axioms_c05.run(check, rng, int(rng.randint(0, 7)))
    try:
        import nutils  # noqa: F401 (only when the repository is importable, i.e. under the native interpreter)
    except ImportError:
        pass
    else:
        for _ in range(20):
            axioms_c05.run_ir(check, rng)
    from native import axioms_c14  # externals of the C14 extension contracts (mask rank function, math.fsum/sqrt, float ** 2)
    for _ in range(rounds):
        axioms_c14.run(check, rng, int(rng.randint(0, 7)))
    from native import axioms_c08  # small-matrix numpy facts of the C08 edge-transform contracts
    for _ in range(rounds):
        axioms_c08.run(check, rng)
    from native import axioms_c10  # n-d array externals of the C10 StructuredTopology contracts (ravel, reshape, basic-index stores)
    for _ in range(rounds):
        axioms_c10.run(check, rng)
    # L-MONOID (C11 chain contracts): the fold of an associative operation with identity over a list -- split, singleton,
    # empty, frame (the fold depends only on the items of the range), and the splice form used for `items[i:i+2] = pair`;
    # instantiated with 2x2 integer matrices under multiplication (a non-commutative monoid)
    def fold(xs, lo, hi):
        r = numpy.eye(2, dtype=int)
        for k in range(lo, hi):
            r = r @ xs[k]
        return r
    for _ in range(rounds // 4):
        n = rng.randint(0, 7)
        xs = [rng.randint(-2, 3, size=(2, 2)) for _ in range(n)]
        lo = rng.randint(0, n + 1)
        hi = rng.randint(lo, n + 1)
        k = rng.randint(lo, hi + 1)
        check('monoid-fold-split', (fold(xs, lo, hi) == fold(xs, lo, k) @ fold(xs, k, hi)).all(), lo, k, hi)
        check('monoid-fold-empty', (fold(xs, lo, lo) == numpy.eye(2, dtype=int)).all(), lo)
        if lo < n:
            check('monoid-fold-singleton', (fold(xs, lo, lo + 1) == xs[lo]).all(), lo)
        ys = [rng.randint(-2, 3, size=(2, 2)) for _ in range(rng.randint(0, 3))] + xs[lo:hi] + [rng.randint(-2, 3, size=(2, 2))]
        lo2 = len(ys) - 1 - (hi - lo)
        check('monoid-fold-frame', (fold(xs, lo, hi) == fold(ys, lo2, lo2 + hi - lo)).all(), lo, hi, lo2)
        if n >= 2:
            i = rng.randint(0, n - 1)
            s0 = rng.randint(-2, 3, size=(2, 2))
            zs = xs[:i] + [s0, numpy.eye(2, dtype=int)] + xs[i + 2:]
            zs[i + 1] = rng.randint(-2, 3, size=(2, 2))
            check('monoid-fold-splice', (fold(zs, 0, n) == fold(xs, 0, i) @ (zs[i] @ zs[i + 1]) @ fold(xs, i + 2, n)).all(), i)
    # str axioms used by the C19 substring contracts (contracts/c19_text.py)
    alphabet = 'a +-/^_()[]{}<>09.zA\u0663'
    for _ in range(rounds):
        n = rng.randint(0, 8)
        t = ''.join(alphabet[i] for i in rng.randint(0, len(alphabet), size=n))
        for p in (' + ', ' - ', ' / ', '^', '_', ' ', '-', ')'):
            check('str.startswith', t.startswith(p) == (len(t) >= len(p) and all(t[k] == p[k] for k in range(len(p)))), t, p)
            check('str.endswith', t.endswith(p) == (len(t) >= len(p) and all(t[len(t) - len(p) + k] == p[k] for k in range(len(p)))), t, p)
        c = len(t) - len(t.lstrip(' '))
        check('str.lstrip', 0 <= c <= n and all(t[k] == ' ' for k in range(c)) and (c == n or t[c] != ' ') and t.lstrip(' ') == t[c:], t)
        sl = slice(int(rng.randint(-9, 10)), int(rng.randint(-9, 10)))
        st, sp, _ = sl.indices(n)
        check('str-slice', t[sl] == ''.join(t[i] for i in range(st, max(st, sp))), t, (sl.start, sl.stop))
        for ch in t:
            check('char-order-is-code-point-order', ('0' <= ch <= '9') == (48 <= ord(ch) <= 57) and ('a' <= ch <= 'z') == (97 <= ord(ch) <= 122), ch)
            if '0' <= ch <= '9':
                check('int-of-ascii-digit', int(ch) == ord(ch) - 48, ch)
        # ---- C07 shape calculus (contracts/c07shape.py, pyvc/pybuiltins.py)
        n = int(rng.randint(0, 7))
        xa = rng.randint(-5, 6, size=n)  # own array: other blocks reuse the name x
        z = xa.copy()
        cc = int(rng.randint(-3, 4))
        z[xa < 0] += cc
        check('mask-iadd', all(z[i] == (xa[i] + cc if xa[i] < 0 else xa[i]) for i in range(n)), xa, cc)
        lst = [int(t) for t in rng.randint(-3, 4, size=n)]
        check('argsort-concrete-stable', numpy.argsort(lst, kind='stable').tolist() == sorted(range(n), key=lst.__getitem__), lst)
        if len(set(lst)) == n:
            check('argsort-concrete-distinct', numpy.argsort(lst).tolist() == sorted(range(n), key=lst.__getitem__), lst)
        init = int(rng.choice([-1, 1]))
        pr = init
        for t in lst:
            pr *= t
        check('prod-initial', int(numpy.prod(lst, initial=init)) == pr, lst, init)
        aa, bb = int(rng.randint(-20, 21)), int(rng.choice([-5, -3, -1, 1, 2, 4, 7]))
        q, r = divmod(aa, bb)
        uniq = [(q2, r2) for q2 in range(-25, 26) for r2 in (range(0, bb) if bb > 0 else range(bb + 1, 1)) if aa == bb * q2 + r2]
        check('divmod-characteristic', aa == bb * q + r and (0 <= r < bb if bb > 0 else bb < r <= 0) and uniq == [(q, r)] and q == aa // bb and r == aa % bb, aa, bb)
        st_ = set(lst)
        check('set-cardinality', len(st_) == sum(1 for i in range(n) if lst[i] not in lst[:i]), lst)
        if st_:
            check('set-next-iter-is-member', next(iter(st_)) in lst and max(st_) == max(lst), lst)
        d1 = set(lst)
        d1.discard(1)
        check('set-discard', d1 == set(t for t in lst if t != 1), lst)
        if n:
            key = [3, 1, 2, 0, 5, 4, 6][:7]
            ks = [int(t) % 7 for t in lst]
            want = None
            for t in ks:
                if want is None or key.index(t) > key.index(want):
                    want = t
            check('max-key-first-maximal', max(ks, key=key.index) == want, ks)
    kinds = (bool, int, float, complex)
    for a_ in kinds:
        for b_ in kinds:
            check('result-kind-is-join', numpy.result_type(a_, b_).kind == numpy.dtype(kinds[max(kinds.index(a_), kinds.index(b_))]).kind, a_.__name__, b_.__name__)
        # -- C09 index partition (contracts/samplepart.py)
        n = int(rng.randint(0, 7))  # own inputs: the blocks above reuse the names n and x
        x = rng.randint(-5, 6, size=n)
        lo, hi = int(rng.randint(-3, 6)), int(rng.randint(-3, 6))
        ar = numpy.arange(lo, hi)
        check('arange(a,b)', len(ar) == max(hi - lo, 0) and all(ar[i] == lo + i for i in range(len(ar))), lo, hi)
        c1, c2, stride = rng.randint(0, 4), rng.randint(0, 4), int(rng.randint(0, 6))
        xa, ya = rng.randint(-5, 6, size=c1), rng.randint(-5, 6, size=c2)
        outer = (xa[:, None] * stride + ya[None, :])
        rav = outer.ravel()
        check('column*n + row broadcasts to the outer grid; ravel is C order', outer.shape == (c1, c2) and len(rav) == c1 * c2 and all(rav[q] == xa[q // c2] * stride + ya[q % c2] for q in range(c1 * c2)), xa, ya, stride)
        if n:
            ind = rng.randint(-n, n, size=rng.randint(0, 5))
            tk = numpy.take(x, ind)
            check('take(a, ind)[k] = a[ind[k]] (negative entries wrap)', len(tk) == len(ind) and all(tk[k] == x[ind[k] + n if ind[k] < 0 else ind[k]] for k in range(len(ind))) and (x[ind] == tk).all(), x, ind)
            for badi in (n, -n - 1):
                try:
                    numpy.take(x, numpy.array([badi]))
                    check('take raises IndexError out of range', False, x, badi)
                except IndexError:
                    pass
        cnts = rng.randint(0, 4, size=n).tolist()
        cs = numpy.cumsum([0] + cnts)
        check('cumsum([0]+counts)', len(cs) == n + 1 and cs[0] == 0 and all(cs[k + 1] == cs[k] + cnts[k] for k in range(n)), cnts)
        if n:
            e = rng.randint(0, n)
            pair = cs[e:e + 2]
            perm2 = rng.permutation(int(cs[-1]))
            check('slice(*offsets[e:e+2]) selects the block', len(pair) == 2 and perm2[slice(*pair)].tolist() == [perm2[q] for q in range(cs[e], cs[e + 1])] and numpy.arange(*pair).tolist() == list(range(cs[e], cs[e + 1])), cnts, e)
    # -- C09 evaluable twins (contracts/sampleeval.py): the denotation table of the IR constructors against the real nodes
    try:
        from nutils import evaluable as ev
    except Exception:
        ev = None
    if ev is not None:
        def run_ir(node, **args):
            return numpy.asarray(ev.compile(node)(args))
        for _ in range(12):
            n, m = int(rng.randint(0, 5)), int(rng.randint(1, 4))
            arr = rng.randint(-5, 6, size=n + 1)
            idx = rng.randint(0, n + 1, size=(m,))
            k = ev.Argument('k', (), int)
            kv = int(rng.randint(0, n + 1))
            check('IR Range', run_ir(ev.Range(ev.constant(n))).tolist() == list(range(n)), n)
            check('IR Take(Constant(a), i)', run_ir(ev.Take(ev.constant(arr), ev.constant(idx))).tolist() == arr[idx].tolist(), arr, idx)
            check('IR get(a, 0, k)', int(run_ir(ev.get(ev.constant(arr), 0, ev.InRange(k, ev.constant(n + 1))), k=kv)) == int(arr[kv]), arr, kv)
            d = int(rng.randint(1, 5))
            q, r_ = ev.divmod(ev.InRange(k, ev.constant(n + 1)), d)
            check('IR divmod', (int(run_ir(q, k=kv)), int(run_ir(r_, k=kv))) == divmod(kv, d), kv, d)
            v = ev.constant(idx)
            ap = run_ir(ev.appendaxes(v, (ev.constant(n + 1),)))
            pp = run_ir(ev.prependaxes(v, (ev.constant(n + 1),)))
            check('IR appendaxes/prependaxes', ap.shape == (m, n + 1) and pp.shape == (n + 1, m) and all((ap[:, c] == idx).all() for c in range(n + 1)) and all((pp[c] == idx).all() for c in range(n + 1)), idx, n)
            check('IR scalar + vector, vector * int', run_ir(ev.Range(ev.constant(m)) + ev.InRange(k, ev.constant(n + 1)), k=kv).tolist() == [c + kv for c in range(m)] and run_ir(v * 3).tolist() == (idx * 3).tolist(), m, kv)
            check('IR Zeros', run_ir(ev.Zeros((ev.constant(0), ev.constant(0)), dtype=int)).size == 0)
            sizes = rng.randint(0, 4, size=n)
            if n:  # an EMPTY constant announces the range (-inf, inf), which _SizesToOffsets.__post_init__ rejects
                check('IR _SizesToOffsets', run_ir(ev._SizesToOffsets(ev.constant(sizes))).tolist() == numpy.cumsum([0] + sizes.tolist()).tolist(), sizes)
            if n:
                li = ev.loop_index('_i', n)
                lc = ev.loop_concatenate(ev.InsertAxis(ev.Take(ev.constant(sizes), li), ev.constant(1)), li)
                check('IR loop_concatenate of one-element chunks', run_ir(lc).tolist() == sizes.tolist(), sizes)
    # ---- C20: the facts the token-string domain (pyvc/tokstr.py) and the Fraction model rely on
    from fractions import Fraction
    import string
    rnd = random.Random(seed)
    letters = string.ascii_letters + 'μΩθ_0123456789.,+-'

    def name(first_not, last_not, excludes='*/'):
        while True:
            w = ''.join(rnd.choice(letters) for _ in range(rnd.randint(1, 4)))
            if w[0] not in first_not and w[-1] not in last_not and not (set(w) & set(excludes)):
                return w
    for _ in range(rounds):
        p, q = rnd.randint(-30, 30), rnd.randint(1, 12)
        f, g = Fraction(p, q), Fraction(3 * p, 3 * q)
        check('fraction-lowest-terms-is-a-function-of-the-value', f.denominator >= 1 and f.numerator == f * f.denominator and (f.numerator, f.denominator) == (g.numerator, g.denominator)
              and (f.denominator == 1) == (f == int(f)), p, q)
        n, d = rnd.randint(0, 10**rnd.randint(0, 6)), rnd.randint(0, 999)
        check('int-of-str', int(str(n)) == n and str(n).isdigit(), n)
        b = name('', '0123456789_')
        u = name('+-0123456789.,', '0123456789_')
        num = rnd.choice(['5', '2.5', '-.5', '+12', '1250.'])
        check('rstrip-stops-at-a-name', (b + str(n)).rstrip('0123456789_') == b and (b + str(n) + '_' + str(d)).rstrip('0123456789_') == b and (num + u + str(n)).rstrip('0123456789_') == num + u, b, n, d)
        check('lstrip-stops-at-a-name', (num + u).lstrip('+-0123456789.') == u and (rnd.choice(['.3', '10.2', ',.1', '']) + u).lstrip('0123456789.,') == u and ('*' + b).lstrip('*') == b, num, u)
        parts = [name('', '') + rnd.choice(['', str(n), '_' + str(d)]) for _ in range(rnd.randint(1, 3))]
        check('split-inverts-join', '*'.join(parts).split('*') == parts and '/'.join(parts).split('/') == parts and ''.split('*') == [''], parts)
        check('partition', (str(n) + '_' + str(d)).partition('_') == (str(n), '_', str(d)) and str(n).partition('_') == (str(n), '', '') and ''.partition('_') == ('', '', ''), n, d)
        s1 = num + u
        tail = s1.lstrip('+-0123456789.')
        check('prefix-by-length-difference', s1[:len(s1) - len(tail)] == num and (b + str(n))[len(b):] == str(n), s1)
        items = [(name('', ''), Fraction(rnd.randint(-3, 3), rnd.randint(1, 3))) for _ in range(3)]
        srt = sorted(items, key=lambda item: item[::-1], reverse=True)
        check('sorted-descending-by-key', all(srt[i][::-1] >= srt[i + 1][::-1] for i in range(2)) and sorted(srt) == sorted(items), items)
        da, db = {'m': rnd.randint(-2, 2), 's': rnd.randint(-2, 2)}, {'s': rnd.randint(-2, 2), 'm': rnd.randint(-2, 2)}
        check('dict-equality-is-pointwise', (da == db) == (set(da) == set(db) and all(da[k] == db[k] for k in da)), da, db)
    from native import axioms_c13
    axioms_c13.run(rng, check)
    # C16b: Python orders tuples of ints lexicographically; builtins.max/min return the FIRST extremal element; sorted(key, reverse) is stable
    for _ in range(rounds):
        ts = [tuple(int(x) for x in rng.randint(0, 3, size=rng.randint(1, 4))) for _ in range(rng.randint(1, 4))]
        a, b = ts[0], ts[-1]
        k = next((j for j in range(min(len(a), len(b))) if a[j] != b[j]), None)
        spec_gt = (a[k] > b[k]) if k is not None else len(a) > len(b)
        check('tuple-order-lexicographic', (a > b) == spec_gt, a, b)
        r = ts[0]
        for t in ts[1:]:
            if t > r:
                r = t
        check('max-first-maximal', max(ts) is r or (max(ts) == r and ts.index(max(ts)) == ts.index(r)), ts)
        r = ts[0]
        for t in ts[1:]:
            if t < r:
                r = t
        check('min-first-minimal', min(ts) == r and ts.index(min(ts)) == ts.index(r), ts)
        order = sorted(range(len(ts)), key=lambda n: (len(ts[n]), ts[n][-1]), reverse=True)
        check('sorted-key-reverse', [ts[n] for n in order] == sorted(ts, key=lambda t: (len(t), t[-1]), reverse=True), ts)
    from native import axioms_c06b  # numpy METADATA axioms of pyvc/npshape.py + nutils_poly plan shapes (contracts/C06b.py)
    axioms_c06b.run(rng, check, rounds=max(10, rounds // 8))
    from native import axioms_c11b  # L-RADIX, ground L-DIVMOD, searchsorted on object arrays, Axis callee contract, A-NF-S / A-NF-P (C11 second round)
    axioms_c11b.run(check, rng)
    print('AXIOMS ' + json.dumps(dict(rounds=rounds, failures=fails[:5])))
    ok_sets = run_sets(seed)
    ok_ev = evaluable_nodes(seed)
    ok_c12b = run_c12b(seed)
    return not fails and ok_sets and ok_ev and ok_c12b


def run_sets(seed=0, rounds=300):
    """numpy.unique / union1d / nonzero / functools.reduce(numpy.union1d, .) axioms of pyvc/npsets.py vs the real numpy."""
    import functools
    rng = numpy.random.RandomState(seed)
    fails = []
    for _ in range(rounds):
        n = rng.randint(0, 7)
        v = rng.randint(-3, 4, size=n)
        u = numpy.unique(v)
        if not ((numpy.diff(u) > 0).all() and set(u.tolist()) == set(v.tolist()) and len(u) <= n):
            fails.append(('unique', v.tolist(), u.tolist()))
        w = rng.randint(-3, 4, size=rng.randint(0, 5))
        x = numpy.union1d(v, w)
        if not ((numpy.diff(x) > 0).all() and set(x.tolist()) == set(v.tolist()) | set(w.tolist())):
            fails.append(('union1d', v.tolist(), w.tolist(), x.tolist()))
        m = rng.randint(0, 2, size=n).astype(bool)
        p, = m.nonzero()
        if not ((numpy.diff(p) > 0).all() and p.tolist() == [i for i in range(n) if m[i]]):
            fails.append(('nonzero', m.tolist(), p.tolist()))
        items = [rng.randint(-3, 4, size=rng.randint(0, 4)) for _ in range(rng.randint(1, 4))]
        r = functools.reduce(numpy.union1d, items)
        if len(items) == 1:
            ok = r is items[0]
        else:
            ok = (numpy.diff(r) > 0).all() and set(r.tolist()) == set(a for it in items for a in it.tolist())
        if not ok:
            fails.append(('reduce-union1d', [it.tolist() for it in items], r.tolist()))
    print('AXIOMS-SETS ' + json.dumps(dict(rounds=rounds, failures=fails[:5])))
    return not fails


def evaluable_nodes(seed=0, rounds=60):
    """denotations of contracts/evalsem.py vs real evaluable nodes (compiled and evaluated)."""
    from nutils import evaluable, types
    rng = numpy.random.RandomState(seed)
    fails = []

    def ev(node, **args):
        return numpy.asarray(evaluable.compile(node)(dict(args)))
    for _ in range(rounds):
        n = int(rng.randint(1, 6))
        a = rng.randint(-5, 6, size=n)
        i = int(rng.randint(0, n))
        idx = rng.randint(0, n, size=rng.randint(0, 5))
        ca = evaluable.constant(a)
        I_ = evaluable.InRange(evaluable.Argument('i', (), int), evaluable.constant(n))
        checks = [
            ('Range', ev(evaluable.Range(evaluable.constant(n))).tolist(), list(range(n))),
            ('get', ev(evaluable.get(ca, 0, I_), i=i).tolist(), int(a[i])),
            ('Take-vector', ev(evaluable.Take(ca, evaluable.constant(idx))).tolist(), a[idx].tolist()),
            ('take-axis0', ev(evaluable.take(ca, evaluable.constant(idx), axis=0)).tolist(), a[idx].tolist()),
            ('Less+InsertAxis', ev(evaluable.Less(ca, evaluable.InsertAxis(evaluable.constant(1), evaluable.constant(n)))).tolist(), (a < 1).tolist()),
            ('Find', ev(evaluable.Find(evaluable.Less(ca, evaluable.InsertAxis(evaluable.constant(1), evaluable.constant(n))))).tolist(), (a < 1).nonzero()[0].tolist()),
            ('add-scalar', ev(evaluable.Range(evaluable.constant(n)) + evaluable.get(ca, 0, I_), i=i).tolist(), (numpy.arange(n) + a[i]).tolist()),
            ('mod', ev(ca % 3).tolist(), (a % 3).tolist()),
        ]
        q, r_ = evaluable.divmod(I_, 2)
        checks.append(('divmod', [ev(q, i=i).tolist(), ev(r_, i=i).tolist()], [i // 2, i % 2]))
        b = rng.randint(0, 4, size=int(rng.randint(1, 4)))
        nb = 4
        rv = evaluable.Ravel(evaluable.RavelIndex(ca, evaluable.constant(b), evaluable.constant(100), evaluable.constant(nb)))
        checks.append(('Ravel(RavelIndex)', ev(rv).tolist(), (a[:, None] * nb + b[None, :]).ravel().tolist()))
        tabs = tuple(types.arraydata(rng.randint(0, 9, size=int(rng.randint(0, 4)))) for _ in range(n))
        checks.append(('Elemwise', ev(evaluable.Elemwise(tabs, I_, int), i=i).tolist(), numpy.asarray(tabs[i]).tolist()))
        for name, got, want in checks:
            if got != want:
                fails.append((name, got, want))
    print('AXIOMS-EVALUABLE ' + json.dumps(dict(rounds=rounds, failures=fails[:5])))
    return not fails


def _random_entry(rng):
    """a cache entry like the ones cache.function / Recursion write: (value, log) or (log, stop, value)"""
    import treelog
    rl = treelog.RecordLog()
    with treelog.set(rl):
        for _ in range(int(rng.randint(0, 3))):
            treelog.info('message %d' % rng.randint(0, 100))
    kind = int(rng.randint(0, 4))
    value = [None, float(rng.rand()), numpy.asarray(rng.rand(int(rng.randint(0, 6)))), {'a': (1, 'two', 3.5), 'b': numpy.arange(int(rng.randint(0, 4)))}][kind]
    return (value, rl) if rng.randint(0, 2) else (rl, bool(rng.randint(0, 2)), value)


def _same(a, b):
    import pickle
    return pickle.dumps(a) == pickle.dumps(b)


def run_c12b(seed=0, rounds=300):
    """externals added for the second C12 round (contracts/C12_inverse.py, C12_ctor.py): vectorised searchsorted, arr[mask] in order,
    concatenate (element set; ValueError for an empty list), reduce(add.outer).ravel() in row-major multi-index form, diff, and the
    copy semantics of numpy results (pyvc/nparr.py: a result does not change when an operand is stored into later)."""
    import functools
    rng = numpy.random.RandomState(seed)
    fails = []
    for _ in range(rounds):
        n = rng.randint(0, 7)
        a = numpy.sort(rng.randint(-3, 4, size=n))
        v = rng.randint(-4, 5, size=rng.randint(0, 5))
        for side in ('left', 'right'):
            p = numpy.searchsorted(a, v, side=side)
            ok = len(p) == len(v) and all(0 <= p[k] <= n and ((a[:p[k]] < v[k]).all() if side == 'left' else (a[:p[k]] <= v[k]).all())
                                          and ((a[p[k]:] >= v[k]).all() if side == 'left' else (a[p[k]:] > v[k]).all()) for k in range(len(v)))
            if not ok:
                fails.append(('searchsorted-vector-' + side, a.tolist(), v.tolist(), p.tolist()))
        x = rng.randint(-5, 6, size=n)
        m = rng.randint(0, 2, size=n).astype(bool)
        if x[m].tolist() != [x[i] for i in range(n) if m[i]]:
            fails.append(('mask-selection-in-order', x.tolist(), m.tolist()))
        items = [rng.randint(-3, 4, size=rng.randint(0, 4)) for _ in range(rng.randint(1, 4))]
        c = numpy.concatenate(items)
        if set(c.tolist()) != set(t for it in items for t in it.tolist()):
            fails.append(('concatenate-element-set', [it.tolist() for it in items], c.tolist()))
        axes = [rng.randint(-3, 4, size=rng.randint(0, 4)) for _ in range(rng.randint(1, 4))]
        r = numpy.asarray(functools.reduce(numpy.add.outer, axes).ravel(), dtype=int)
        want = [sum(int(ax[i]) for ax, i in zip(axes, idx)) for idx in numpy.ndindex(*[len(ax) for ax in axes])]
        if r.tolist() != want:
            fails.append(('add-outer-ravel-row-major', [ax.tolist() for ax in axes], r.tolist()))
        if n and numpy.diff(x).tolist() != [int(x[i + 1] - x[i]) for i in range(n - 1)]:
            fails.append(('diff', x.tolist()))
        if n:
            idx = rng.randint(0, n, size=3)
            taken, cmpd, summed = x[idx], numpy.equal(x, x[0]), x + 1
            before = (taken.tolist(), cmpd.tolist(), summed.tolist())
            x[:] = 99
            idx[:] = 0
            if (taken.tolist(), cmpd.tolist(), summed.tolist()) != before:
                fails.append(('results-are-copies', before))
    try:
        numpy.concatenate([])
        fails.append(('concatenate-empty-raises-ValueError',))
    except ValueError:
        pass
    print('AXIOMS-C12B ' + json.dumps(dict(rounds=rounds, failures=fails[:5])))
    return not fails
