"""Cross-check of the external (numpy / stdlib) axioms the contracts assume, against the real numpy, on random small inputs.
A wrong axiom is the easiest way to prove something false; this runs in the thorough tier."""
import json, random
import numpy


def run(seed=0, rounds=400):
    rng = numpy.random.RandomState(seed)
    fails = []

    def check(name, cond, *info):
        if not cond:
            fails.append((name, [numpy.asarray(x).tolist() if hasattr(x, 'tolist') or isinstance(x, (list, tuple)) else x for x in info]))
    for _ in range(rounds):
        n = rng.randint(0, 7)
        a = numpy.sort(rng.randint(-3, 4, size=n))
        v = int(rng.randint(-4, 5))
        for side in ('left', 'right'):
            p = int(numpy.searchsorted(a, v, side=side))
            lo = (a[:p] < v).all() if side == 'left' else (a[:p] <= v).all()
            hi = (a[p:] >= v).all() if side == 'left' else (a[p:] > v).all()
            check('searchsorted-' + side, 0 <= p <= n and lo and hi, a, v, p)
        b = rng.randint(0, 2, size=n).astype(bool)
        c = numpy.cumsum(b)
        check('cumsum', all(c[k] == (c[k - 1] if k else 0) + b[k] for k in range(n)), b, c)
        perm = rng.permutation(n)
        check('argsort-of-permutation-is-inverse', (numpy.argsort(perm)[perm] == numpy.arange(n)).all(), perm)
        x = rng.randint(-5, 6, size=n)
        y = x.copy()
        vals = rng.randint(10, 20, size=n)
        y[perm] = vals
        check('fancy-store-injective', all(y[perm[k]] == vals[k] for k in range(n)), x, perm, vals)
        m = rng.randint(0, 2, size=n).astype(bool)
        z = x.copy()
        z[m] = 99
        check('mask-store', all((z[i] == 99) if m[i] else (z[i] == x[i]) for i in range(n)), x, m)
        z = x.astype(float)
        src = rng.rand(n)
        z[~m] = src[~m]
        check('mask-to-mask-store', all(z[i] == (src[i] if not m[i] else x[i]) for i in range(n)), x, m)
        if n >= 2:
            out = numpy.empty(n + 1, dtype=bool)
            out[:] = False
            numpy.greater(x[1:], x[:-1], out=out[1:-1])
            check('ufunc-out-writes-through-a-slice-view', all(out[i] == (x[i] > x[i - 1]) for i in range(1, n)) and not out[0] and not out[n], x, out)
        if n:
            check('min-max-attained', x.min() in x and x.max() in x and (x >= x.min()).all() and (x <= x.max()).all(), x)
        k = rng.randint(0, n + 1)
        ii = numpy.unique(rng.randint(0, n + 1, size=k)) if n else numpy.zeros(0, int)
        w = numpy.zeros(n + 1, dtype=bool)
        w[ii] = True
        check('fancy-store-constant', all(w[j] == (j in ii) for j in range(n + 1)), ii, w)
        s = slice(int(rng.randint(-9, 10)), int(rng.randint(-9, 10)))
        st, sp, _ = s.indices(n)
        check('slice-indices', x[s].tolist() == [x[i] for i in range(st, max(st, sp))], x, (s.start, s.stop))
        # pyvc/npext.py: nonzero, repeat, ufunc out= into slice / 0-d views, concatenate
        st = rng.randint(-1, 3, size=n + 1)
        nzp, = st.nonzero()
        check('nonzero', (numpy.diff(nzp) > 0).all() and (st[nzp] != 0).all() and set(nzp.tolist()) == set(k for k in range(n + 1) if st[k] != 0) and len(nzp) <= n + 1, st, nzp)
        cnts = rng.randint(-1 if rng.rand() < .2 else 0, 3, size=n)
        try:
            rep = numpy.repeat(x, cnts)
            raised = False
        except ValueError:
            raised = True
        check('repeat-raises-iff-negative-count', raised == bool((cnts < 0).any()), x, cnts)
        if not raised:
            off = [0]
            for cj in cnts:
                off.append(off[-1] + int(cj))
            okr = len(rep) == off[-1] and all(off[i] <= off[j] for i in range(n + 1) for j in range(i, n + 1))
            okr = okr and all(rep[p_] == x[j] for j in range(n) for p_ in range(off[j], off[j + 1]))
            okr = okr and all(any(off[j] <= p_ < off[j + 1] and rep[p_] == x[j] for j in range(n)) for p_ in range(len(rep)))
            check('repeat-blocks', okr, x, cnts, rep)
        if n >= 1:
            o = numpy.full(n + 1, 77)
            numpy.add(x[0], 1, out=o[0, ...], dtype=o.dtype)
            numpy.subtract(x[1:], x[:-1], out=o[1:-1], dtype=o.dtype)
            numpy.subtract(5, x[-1], out=o[-1, ...], dtype=o.dtype)
            check('ufunc-out-into-0d-and-slice-views', o[0] == x[0] + 1 and o[n] == 5 - x[-1] and all(o[k_] == x[k_] - x[k_ - 1] for k_ in range(1, n)), x, o)
            check('fancy-take', (st[nzp] == numpy.array([st[k_] for k_ in nzp], dtype=int)).all(), st, nzp)
        parts = [rng.randint(0, 9, size=rng.randint(0, 4)) for _ in range(rng.randint(1, 4))]
        cat = numpy.concatenate(parts)
        offs = numpy.cumsum([0] + [len(p_) for p_ in parts])
        check('concatenate', len(cat) == offs[-1] and all(cat[offs[j] + i] == parts[j][i] for j in range(len(parts)) for i in range(len(parts[j]))), cat)
        fl = float(rng.choice([numpy.nan, numpy.inf, -numpy.inf, 0., 1., -2.5]))
        g = float(rng.choice([numpy.nan, numpy.inf, 0., 3.]))
        check('ieee-comparisons', (not (fl > g) if numpy.isnan(fl) or numpy.isnan(g) else True) and ((max(fl, g) == g) == (g > fl) or numpy.isnan(max(fl, g)) or fl == g), fl, g)
    print('AXIOMS ' + json.dumps(dict(rounds=rounds, failures=fails[:5])))
    return not fails
