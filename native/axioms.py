"""Cross-check of the external (numpy / stdlib) axioms the contracts assume, against the real numpy, on random small inputs.
A wrong axiom is the easiest way to prove something false; this runs in the thorough tier."""
import json, random
import numpy


def run(seed=0, rounds=400):
    rng = numpy.random.RandomState(seed)
    fails = []

    def check(name, cond, *info):
        if not cond:
            fails.append((name, [numpy.asarray(x).tolist() if hasattr(x, 'tolist') or isinstance(x, (list, tuple)) else x for x in info]))
    for _ in range(rounds):
        n = rng.randint(0, 7)
        a = numpy.sort(rng.randint(-3, 4, size=n))
        v = int(rng.randint(-4, 5))
        for side in ('left', 'right'):
            p = int(numpy.searchsorted(a, v, side=side))
            lo = (a[:p] < v).all() if side == 'left' else (a[:p] <= v).all()
            hi = (a[p:] >= v).all() if side == 'left' else (a[p:] > v).all()
            check('searchsorted-' + side, 0 <= p <= n and lo and hi, a, v, p)
        b = rng.randint(0, 2, size=n).astype(bool)
        c = numpy.cumsum(b)
        check('cumsum', all(c[k] == (c[k - 1] if k else 0) + b[k] for k in range(n)), b, c)
        perm = rng.permutation(n)
        check('argsort-of-permutation-is-inverse', (numpy.argsort(perm)[perm] == numpy.arange(n)).all(), perm)
        x = rng.randint(-5, 6, size=n)
        y = x.copy()
        vals = rng.randint(10, 20, size=n)
        y[perm] = vals
        check('fancy-store-injective', all(y[perm[k]] == vals[k] for k in range(n)), x, perm, vals)
        m = rng.randint(0, 2, size=n).astype(bool)
        z = x.copy()
        z[m] = 99
        check('mask-store', all((z[i] == 99) if m[i] else (z[i] == x[i]) for i in range(n)), x, m)
        z = x.astype(float)
        src = rng.rand(n)
        z[~m] = src[~m]
        check('mask-to-mask-store', all(z[i] == (src[i] if not m[i] else x[i]) for i in range(n)), x, m)
        if n >= 2:
            out = numpy.empty(n + 1, dtype=bool)
            out[:] = False
            numpy.greater(x[1:], x[:-1], out=out[1:-1])
            check('ufunc-out-writes-through-a-slice-view', all(out[i] == (x[i] > x[i - 1]) for i in range(1, n)) and not out[0] and not out[n], x, out)
        if n:
            check('min-max-attained', x.min() in x and x.max() in x and (x >= x.min()).all() and (x <= x.max()).all(), x)
        k = rng.randint(0, n + 1)
        ii = numpy.unique(rng.randint(0, n + 1, size=k)) if n else numpy.zeros(0, int)
        w = numpy.zeros(n + 1, dtype=bool)
        w[ii] = True
        check('fancy-store-constant', all(w[j] == (j in ii) for j in range(n + 1)), ii, w)
        s = slice(int(rng.randint(-9, 10)), int(rng.randint(-9, 10)))
        st, sp, _ = s.indices(n)
        check('slice-indices', x[s].tolist() == [x[i] for i in range(st, max(st, sp))], x, (s.start, s.stop))
        fl = float(rng.choice([numpy.nan, numpy.inf, -numpy.inf, 0., 1., -2.5]))
        g = float(rng.choice([numpy.nan, numpy.inf, 0., 3.]))
        check('ieee-comparisons', (not (fl > g) if numpy.isnan(fl) or numpy.isnan(g) else True) and ((max(fl, g) == g) == (g > fl) or numpy.isnan(max(fl, g)) or fl == g), fl, g)
        # ---- C07 shape calculus (contracts/c07shape.py, pyvc/pybuiltins.py)
        z = x.copy()
        cc = int(rng.randint(-3, 4))
        z[x < 0] += cc
        check('mask-iadd', all(z[i] == (x[i] + cc if x[i] < 0 else x[i]) for i in range(n)), x, cc)
        lst = [int(t) for t in rng.randint(-3, 4, size=n)]
        check('argsort-concrete-stable', numpy.argsort(lst, kind='stable').tolist() == sorted(range(n), key=lst.__getitem__), lst)
        if len(set(lst)) == n:
            check('argsort-concrete-distinct', numpy.argsort(lst).tolist() == sorted(range(n), key=lst.__getitem__), lst)
        init = int(rng.choice([-1, 1]))
        pr = init
        for t in lst:
            pr *= t
        check('prod-initial', int(numpy.prod(lst, initial=init)) == pr, lst, init)
        aa, bb = int(rng.randint(-20, 21)), int(rng.choice([-5, -3, -1, 1, 2, 4, 7]))
        q, r = divmod(aa, bb)
        uniq = [(q2, r2) for q2 in range(-25, 26) for r2 in (range(0, bb) if bb > 0 else range(bb + 1, 1)) if aa == bb * q2 + r2]
        check('divmod-characteristic', aa == bb * q + r and (0 <= r < bb if bb > 0 else bb < r <= 0) and uniq == [(q, r)] and q == aa // bb and r == aa % bb, aa, bb)
        st_ = set(lst)
        check('set-cardinality', len(st_) == sum(1 for i in range(n) if lst[i] not in lst[:i]), lst)
        if st_:
            check('set-next-iter-is-member', next(iter(st_)) in lst and max(st_) == max(lst), lst)
        d1 = set(lst)
        d1.discard(1)
        check('set-discard', d1 == set(t for t in lst if t != 1), lst)
        if n:
            key = [3, 1, 2, 0, 5, 4, 6][:7]
            ks = [int(t) % 7 for t in lst]
            want = None
            for t in ks:
                if want is None or key.index(t) > key.index(want):
                    want = t
            check('max-key-first-maximal', max(ks, key=key.index) == want, ks)
    kinds = (bool, int, float, complex)
    for a_ in kinds:
        for b_ in kinds:
            check('result-kind-is-join', numpy.result_type(a_, b_).kind == numpy.dtype(kinds[max(kinds.index(a_), kinds.index(b_))]).kind, a_.__name__, b_.__name__)
    print('AXIOMS ' + json.dumps(dict(rounds=rounds, failures=fails[:5])))
    return not fails
