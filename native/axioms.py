"""Cross-check of the external (numpy / stdlib) axioms the contracts assume, against the real numpy, on random small inputs.
A wrong axiom is the easiest way to prove something false; this runs in the thorough tier."""
import json, random
import numpy


def run(seed=0, rounds=400):
    rng = numpy.random.RandomState(seed)
    fails = []

    def check(name, cond, *info):
        if not cond:
            fails.append((name, [numpy.asarray(x).tolist() if hasattr(x, 'tolist') or isinstance(x, (list, tuple)) else x for x in info]))
    for _ in range(rounds):
        n = rng.randint(0, 7)
        a = numpy.sort(rng.randint(-3, 4, size=n))
        v = int(rng.randint(-4, 5))
        for side in ('left', 'right'):
            p = int(numpy.searchsorted(a, v, side=side))
            lo = (a[:p] < v).all() if side == 'left' else (a[:p] <= v).all()
            hi = (a[p:] >= v).all() if side == 'left' else (a[p:] > v).all()
            check('searchsorted-' + side, 0 <= p <= n and lo and hi, a, v, p)
        b = rng.randint(0, 2, size=n).astype(bool)
        c = numpy.cumsum(b)
        check('cumsum', all(c[k] == (c[k - 1] if k else 0) + b[k] for k in range(n)), b, c)
        perm = rng.permutation(n)
        check('argsort-of-permutation-is-inverse', (numpy.argsort(perm)[perm] == numpy.arange(n)).all(), perm)
        x = rng.randint(-5, 6, size=n)
        y = x.copy()
        vals = rng.randint(10, 20, size=n)
        y[perm] = vals
        check('fancy-store-injective', all(y[perm[k]] == vals[k] for k in range(n)), x, perm, vals)
        m = rng.randint(0, 2, size=n).astype(bool)
        z = x.copy()
        z[m] = 99
        check('mask-store', all((z[i] == 99) if m[i] else (z[i] == x[i]) for i in range(n)), x, m)
        z = x.astype(float)
        src = rng.rand(n)
        z[~m] = src[~m]
        check('mask-to-mask-store', all(z[i] == (src[i] if not m[i] else x[i]) for i in range(n)), x, m)
        if n >= 2:
            out = numpy.empty(n + 1, dtype=bool)
            out[:] = False
            numpy.greater(x[1:], x[:-1], out=out[1:-1])
            check('ufunc-out-writes-through-a-slice-view', all(out[i] == (x[i] > x[i - 1]) for i in range(1, n)) and not out[0] and not out[n], x, out)
        if n:
            check('min-max-attained', x.min() in x and x.max() in x and (x >= x.min()).all() and (x <= x.max()).all(), x)
        k = rng.randint(0, n + 1)
        ii = numpy.unique(rng.randint(0, n + 1, size=k)) if n else numpy.zeros(0, int)
        w = numpy.zeros(n + 1, dtype=bool)
        w[ii] = True
        check('fancy-store-constant', all(w[j] == (j in ii) for j in range(n + 1)), ii, w)
        s = slice(int(rng.randint(-9, 10)), int(rng.randint(-9, 10)))
        st, sp, _ = s.indices(n)
        check('slice-indices', x[s].tolist() == [x[i] for i in range(st, max(st, sp))], x, (s.start, s.stop))
        fl = float(rng.choice([numpy.nan, numpy.inf, -numpy.inf, 0., 1., -2.5]))
        g = float(rng.choice([numpy.nan, numpy.inf, 0., 3.]))
        check('ieee-comparisons', (not (fl > g) if numpy.isnan(fl) or numpy.isnan(g) else True) and ((max(fl, g) == g) == (g > fl) or numpy.isnan(max(fl, g)) or fl == g), fl, g)
        # -- C09 index partition (contracts/samplepart.py)
        lo, hi = int(rng.randint(-3, 6)), int(rng.randint(-3, 6))
        ar = numpy.arange(lo, hi)
        check('arange(a,b)', len(ar) == max(hi - lo, 0) and all(ar[i] == lo + i for i in range(len(ar))), lo, hi)
        c1, c2, stride = rng.randint(0, 4), rng.randint(0, 4), int(rng.randint(0, 6))
        xa, ya = rng.randint(-5, 6, size=c1), rng.randint(-5, 6, size=c2)
        outer = (xa[:, None] * stride + ya[None, :])
        rav = outer.ravel()
        check('column*n + row broadcasts to the outer grid; ravel is C order', outer.shape == (c1, c2) and len(rav) == c1 * c2 and all(rav[q] == xa[q // c2] * stride + ya[q % c2] for q in range(c1 * c2)), xa, ya, stride)
        if n:
            ind = rng.randint(-n, n, size=rng.randint(0, 5))
            tk = numpy.take(x, ind)
            check('take(a, ind)[k] = a[ind[k]] (negative entries wrap)', len(tk) == len(ind) and all(tk[k] == x[ind[k] + n if ind[k] < 0 else ind[k]] for k in range(len(ind))) and (x[ind] == tk).all(), x, ind)
            for badi in (n, -n - 1):
                try:
                    numpy.take(x, numpy.array([badi]))
                    check('take raises IndexError out of range', False, x, badi)
                except IndexError:
                    pass
        cnts = rng.randint(0, 4, size=n).tolist()
        cs = numpy.cumsum([0] + cnts)
        check('cumsum([0]+counts)', len(cs) == n + 1 and cs[0] == 0 and all(cs[k + 1] == cs[k] + cnts[k] for k in range(n)), cnts)
        if n:
            e = rng.randint(0, n)
            pair = cs[e:e + 2]
            perm2 = rng.permutation(int(cs[-1]))
            check('slice(*offsets[e:e+2]) selects the block', len(pair) == 2 and perm2[slice(*pair)].tolist() == [perm2[q] for q in range(cs[e], cs[e + 1])] and numpy.arange(*pair).tolist() == list(range(cs[e], cs[e + 1])), cnts, e)
    # -- C09 evaluable twins (contracts/sampleeval.py): the denotation table of the IR constructors against the real nodes
    try:
        from nutils import evaluable as ev
    except Exception:
        ev = None
    if ev is not None:
        def run_ir(node, **args):
            return numpy.asarray(ev.compile(node)(args))
        for _ in range(12):
            n, m = int(rng.randint(0, 5)), int(rng.randint(1, 4))
            arr = rng.randint(-5, 6, size=n + 1)
            idx = rng.randint(0, n + 1, size=(m,))
            k = ev.Argument('k', (), int)
            kv = int(rng.randint(0, n + 1))
            check('IR Range', run_ir(ev.Range(ev.constant(n))).tolist() == list(range(n)), n)
            check('IR Take(Constant(a), i)', run_ir(ev.Take(ev.constant(arr), ev.constant(idx))).tolist() == arr[idx].tolist(), arr, idx)
            check('IR get(a, 0, k)', int(run_ir(ev.get(ev.constant(arr), 0, ev.InRange(k, ev.constant(n + 1))), k=kv)) == int(arr[kv]), arr, kv)
            d = int(rng.randint(1, 5))
            q, r_ = ev.divmod(ev.InRange(k, ev.constant(n + 1)), d)
            check('IR divmod', (int(run_ir(q, k=kv)), int(run_ir(r_, k=kv))) == divmod(kv, d), kv, d)
            v = ev.constant(idx)
            ap = run_ir(ev.appendaxes(v, (ev.constant(n + 1),)))
            pp = run_ir(ev.prependaxes(v, (ev.constant(n + 1),)))
            check('IR appendaxes/prependaxes', ap.shape == (m, n + 1) and pp.shape == (n + 1, m) and all((ap[:, c] == idx).all() for c in range(n + 1)) and all((pp[c] == idx).all() for c in range(n + 1)), idx, n)
            check('IR scalar + vector, vector * int', run_ir(ev.Range(ev.constant(m)) + ev.InRange(k, ev.constant(n + 1)), k=kv).tolist() == [c + kv for c in range(m)] and run_ir(v * 3).tolist() == (idx * 3).tolist(), m, kv)
            check('IR Zeros', run_ir(ev.Zeros((ev.constant(0), ev.constant(0)), dtype=int)).size == 0)
            sizes = rng.randint(0, 4, size=n)
            check('IR _SizesToOffsets', run_ir(ev._SizesToOffsets(ev.constant(sizes))).tolist() == numpy.cumsum([0] + sizes.tolist()).tolist(), sizes)
            if n:
                li = ev.loop_index('_i', n)
                lc = ev.loop_concatenate(ev.InsertAxis(ev.Take(ev.constant(sizes), li), ev.constant(1)), li)
                check('IR loop_concatenate of one-element chunks', run_ir(lc).tolist() == sizes.tolist(), sizes)
    print('AXIOMS ' + json.dumps(dict(rounds=rounds, failures=fails[:5])))
    return not fails
