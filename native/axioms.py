"""Cross-check of the external (numpy / stdlib) axioms the contracts assume, against the real numpy, on random small inputs.
A wrong axiom is the easiest way to prove something false; this runs in the thorough tier."""
import json, random
import numpy


def run(seed=0, rounds=400):
    rng = numpy.random.RandomState(seed)
    fails = []

    def check(name, cond, *info):
        if not cond:
            fails.append((name, [numpy.asarray(x).tolist() if hasattr(x, 'tolist') or isinstance(x, (list, tuple)) else x for x in info]))
    for _ in range(rounds):
        n = rng.randint(0, 7)
        a = numpy.sort(rng.randint(-3, 4, size=n))
        v = int(rng.randint(-4, 5))
        for side in ('left', 'right'):
            p = int(numpy.searchsorted(a, v, side=side))
            lo = (a[:p] < v).all() if side == 'left' else (a[:p] <= v).all()
            hi = (a[p:] >= v).all() if side == 'left' else (a[p:] > v).all()
            check('searchsorted-' + side, 0 <= p <= n and lo and hi, a, v, p)
        b = rng.randint(0, 2, size=n).astype(bool)
        c = numpy.cumsum(b)
        check('cumsum', all(c[k] == (c[k - 1] if k else 0) + b[k] for k in range(n)), b, c)
        perm = rng.permutation(n)
        check('argsort-of-permutation-is-inverse', (numpy.argsort(perm)[perm] == numpy.arange(n)).all(), perm)
        x = rng.randint(-5, 6, size=n)
        y = x.copy()
        vals = rng.randint(10, 20, size=n)
        y[perm] = vals
        check('fancy-store-injective', all(y[perm[k]] == vals[k] for k in range(n)), x, perm, vals)
        m = rng.randint(0, 2, size=n).astype(bool)
        z = x.copy()
        z[m] = 99
        check('mask-store', all((z[i] == 99) if m[i] else (z[i] == x[i]) for i in range(n)), x, m)
        z = x.astype(float)
        src = rng.rand(n)
        z[~m] = src[~m]
        check('mask-to-mask-store', all(z[i] == (src[i] if not m[i] else x[i]) for i in range(n)), x, m)
        if n >= 2:
            out = numpy.empty(n + 1, dtype=bool)
            out[:] = False
            numpy.greater(x[1:], x[:-1], out=out[1:-1])
            check('ufunc-out-writes-through-a-slice-view', all(out[i] == (x[i] > x[i - 1]) for i in range(1, n)) and not out[0] and not out[n], x, out)
        if n:
            check('min-max-attained', x.min() in x and x.max() in x and (x >= x.min()).all() and (x <= x.max()).all(), x)
        k = rng.randint(0, n + 1)
        ii = numpy.unique(rng.randint(0, n + 1, size=k)) if n else numpy.zeros(0, int)
        w = numpy.zeros(n + 1, dtype=bool)
        w[ii] = True
        check('fancy-store-constant', all(w[j] == (j in ii) for j in range(n + 1)), ii, w)
        s = slice(int(rng.randint(-9, 10)), int(rng.randint(-9, 10)))
        st, sp, _ = s.indices(n)
        check('slice-indices', x[s].tolist() == [x[i] for i in range(st, max(st, sp))], x, (s.start, s.stop))
        fl = float(rng.choice([numpy.nan, numpy.inf, -numpy.inf, 0., 1., -2.5]))
        g = float(rng.choice([numpy.nan, numpy.inf, 0., 3.]))
        check('ieee-comparisons', (not (fl > g) if numpy.isnan(fl) or numpy.isnan(g) else True) and ((max(fl, g) == g) == (g > fl) or numpy.isnan(max(fl, g)) or fl == g), fl, g)
    # ---- C17 extension axioms (contracts/C17.py, contracts/C17_intern.py)
    import functools, inspect
    seen = {}
    for c in range(10000):
        t = '{:04d}'.format(c)
        check('count-field-4-digits-injective', len(t) == 4 and t.isdigit() and t not in seen, c)
        seen[t] = c
    check('count-field-wider-from-10000', len('{:04d}'.format(10000)) == 5)
    for _ in range(rounds // 4):
        v = int(rng.randint(-100, 100))
        for T in (numpy.int8, numpy.int16, numpy.int32, numpy.int64):
            x = T(v)
            check('int(numpy-int)-is-the-equal-python-int', type(int(x)) is int and int(x) == v and repr(int(x)) == repr(v), v)
        fv = float(rng.choice([0.5, -1.25, 3.0, 1e10, float(numpy.float32(0.1))]))
        for T in (numpy.float32, numpy.float64):
            x = T(fv)
            check('float(numpy-float)-is-the-equal-python-float', type(float(x)) is float and float(x) == x and repr(float(x)) == repr(float(x).__float__()), fv)
        check('bool(numpy-bool)', bool(numpy.bool_(v % 2)) is bool(v % 2))
        check('complex(numpy-complex)', complex(numpy.complex64(complex(v, 1))) == complex(v, 1) and type(complex(numpy.complex64(1j))) is complex)
        # arrays: astype / tobytes / equal
        n = int(rng.randint(0, 5))
        vals = rng.randint(-100, 100, size=(n, 2))
        a8, a32, a64 = vals.astype(numpy.int8), vals.astype(numpy.int32), vals.astype(numpy.int64)
        check('astype-int-then-tobytes-is-width-independent', a8.astype(int, copy=False).tobytes() == a32.astype(int, copy=False).tobytes() == a64.astype(int, copy=False).tobytes(), vals)
        check('astype-to-own-dtype-changes-nothing', a64.astype(int, copy=False).tobytes() == a64.tobytes() and a64.astype(int, copy=False).dtype == a64.dtype, vals)
        check('astype-keeps-shape', a8.astype(int, copy=False).shape == a8.shape and a8.astype(float).shape == a8.shape)
        big = numpy.array([2**63 + int(rng.randint(0, 9)), 1], dtype=numpy.uint64)
        check('equal-all-detects-lossy-cast', not numpy.equal(big.astype(int), big).all() and numpy.equal(a8.astype(int), a8).all(), big)
        check('asarray-of-ndarray-is-itself', numpy.asarray(a32) is a32 and (n == 0 or (numpy.asarray(a32.tolist()) == a32).all()))
        fo = numpy.asfortranarray(a64)
        check('tobytes-depends-on-dtype-shape-values-only', fo.tobytes() == a64.tobytes() and (n == 0 or a64.tobytes() != a32.tobytes()), vals)
        # sorted of (name, value) pairs with distinct names
        names = list(rng.permutation(['p', 'q', 'k', 'kw', 'a']))[:int(rng.randint(0, 5))]
        pairs = [(nm, object()) for nm in names]
        check('sorted-pairs-by-distinct-name', [p[0] for p in sorted(pairs)] == sorted(names), names)

    def f(x):
        return x
    f.extra = 1
    f.__nutils_hash__ = b'stale'

    class W:
        pass
    w = W()
    w.__nutils_hash__ = b'fresh'
    functools.update_wrapper(w, f)
    check('update_wrapper-updates-dict-and-sets-wrapped', w.__wrapped__ is f and w.extra == 1 and w.__nutils_hash__ == b'stale' and w.__name__ == 'f')
    # ---- C18 externals: pickle on files, fcntl constants, contextlib.contextmanager
    import io, pickle, contextlib
    for _ in range(min(rounds, 120)):
        obj = _random_entry(rng)
        blob = pickle.dumps(obj)
        tail = bytes(rng.randint(0, 256, size=rng.randint(0, 40)).tolist())
        f = io.BytesIO(blob + tail)
        got = pickle.load(f)
        check('pickle.load-returns-the-first-pickle-and-ignores-what-follows', _same(got, obj) and f.tell() == len(blob), len(blob), len(tail))
        stale = pickle.dumps(_random_entry(rng)) + b'x' * int(rng.randint(0, 300))
        f = io.BytesIO()
        f.write(stale)
        f.seek(0)
        pickle.dump(obj, f)  # no truncate: the rest of the longer stale entry stays behind
        size_after = len(f.getvalue())
        f.seek(0)
        check('dump-at-offset-0-does-not-truncate-and-load-reads-the-new-entry', _same(pickle.load(f), obj) and size_after == max(len(stale), len(blob)), len(stale), len(blob))
        bad = {}
        for k in range(len(blob)):
            try:
                pickle.load(io.BytesIO(blob[:k]))
                bad[k] = 'returned'
            except (EOFError, pickle.UnpicklingError, IndexError):
                pass
            except Exception as e:
                bad[k] = type(e).__name__
        check('ASSUMPTION-a-cut-off-pickle-raises-EOFError-UnpicklingError-or-IndexError', not bad, sorted(bad.items())[:3])
    try:
        import fcntl
        check('fcntl-lock-constants', (fcntl.LOCK_SH, fcntl.LOCK_EX, fcntl.LOCK_NB, fcntl.LOCK_UN) == (1, 2, 4, 8))
    except ImportError:
        pass
    trace = []

    @contextlib.contextmanager
    def cm():
        trace.append('enter')
        try:
            yield
        finally:
            trace.append('exit')
    try:
        with cm():
            trace.append('body')
            raise KeyError('x')
    except KeyError:
        trace.append('propagated')
    check('contextmanager-runs-the-body-at-the-yield-and-raises-its-exception-there', trace == ['enter', 'body', 'exit', 'propagated'], trace)
    from native import axioms_c14  # externals of the C14 extension contracts (mask rank function, math.fsum/sqrt, float ** 2)
    for _ in range(rounds):
        axioms_c14.run(check, rng, int(rng.randint(0, 7)))
    from native import axioms_c08  # small-matrix numpy facts of the C08 edge-transform contracts
    for _ in range(rounds):
        axioms_c08.run(check, rng)
    from native import axioms_c10  # n-d array externals of the C10 StructuredTopology contracts (ravel, reshape, basic-index stores)
    for _ in range(rounds):
        axioms_c10.run(check, rng)
    # L-MONOID (C11 chain contracts): the fold of an associative operation with identity over a list -- split, singleton,
    # empty, frame (the fold depends only on the items of the range), and the splice form used for `items[i:i+2] = pair`;
    # instantiated with 2x2 integer matrices under multiplication (a non-commutative monoid)
    def fold(xs, lo, hi):
        r = numpy.eye(2, dtype=int)
        for k in range(lo, hi):
            r = r @ xs[k]
        return r
    for _ in range(rounds // 4):
        n = rng.randint(0, 7)
        xs = [rng.randint(-2, 3, size=(2, 2)) for _ in range(n)]
        lo = rng.randint(0, n + 1)
        hi = rng.randint(lo, n + 1)
        k = rng.randint(lo, hi + 1)
        check('monoid-fold-split', (fold(xs, lo, hi) == fold(xs, lo, k) @ fold(xs, k, hi)).all(), lo, k, hi)
        check('monoid-fold-empty', (fold(xs, lo, lo) == numpy.eye(2, dtype=int)).all(), lo)
        if lo < n:
            check('monoid-fold-singleton', (fold(xs, lo, lo + 1) == xs[lo]).all(), lo)
        ys = [rng.randint(-2, 3, size=(2, 2)) for _ in range(rng.randint(0, 3))] + xs[lo:hi] + [rng.randint(-2, 3, size=(2, 2))]
        lo2 = len(ys) - 1 - (hi - lo)
        check('monoid-fold-frame', (fold(xs, lo, hi) == fold(ys, lo2, lo2 + hi - lo)).all(), lo, hi, lo2)
        if n >= 2:
            i = rng.randint(0, n - 1)
            s0 = rng.randint(-2, 3, size=(2, 2))
            zs = xs[:i] + [s0, numpy.eye(2, dtype=int)] + xs[i + 2:]
            zs[i + 1] = rng.randint(-2, 3, size=(2, 2))
            check('monoid-fold-splice', (fold(zs, 0, n) == fold(xs, 0, i) @ (zs[i] @ zs[i + 1]) @ fold(xs, i + 2, n)).all(), i)
    print('AXIOMS ' + json.dumps(dict(rounds=rounds, failures=fails[:5])))
    return not fails


def _random_entry(rng):
    """a cache entry like the ones cache.function / Recursion write: (value, log) or (log, stop, value)"""
    import treelog
    rl = treelog.RecordLog()
    with treelog.set(rl):
        for _ in range(int(rng.randint(0, 3))):
            treelog.info('message %d' % rng.randint(0, 100))
    kind = int(rng.randint(0, 4))
    value = [None, float(rng.rand()), numpy.asarray(rng.rand(int(rng.randint(0, 6)))), {'a': (1, 'two', 3.5), 'b': numpy.arange(int(rng.randint(0, 4)))}][kind]
    return (value, rl) if rng.randint(0, 2) else (rl, bool(rng.randint(0, 2)), value)


def _same(a, b):
    import pickle
    return pickle.dumps(a) == pickle.dumps(b)
