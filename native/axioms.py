"""Cross-check of the external (numpy / stdlib) axioms the contracts assume, against the real numpy, on random small inputs.
A wrong axiom is the easiest way to prove something false; this runs in the thorough tier."""
import json, random
import numpy


def run(seed=0, rounds=400):
    rng = numpy.random.RandomState(seed)
    fails = []

    def check(name, cond, *info):
        if not cond:
            fails.append((name, [numpy.asarray(x).tolist() if hasattr(x, 'tolist') or isinstance(x, (list, tuple)) else x for x in info]))
    for _ in range(rounds):
        n = rng.randint(0, 7)
        a = numpy.sort(rng.randint(-3, 4, size=n))
        v = int(rng.randint(-4, 5))
        for side in ('left', 'right'):
            p = int(numpy.searchsorted(a, v, side=side))
            lo = (a[:p] < v).all() if side == 'left' else (a[:p] <= v).all()
            hi = (a[p:] >= v).all() if side == 'left' else (a[p:] > v).all()
            check('searchsorted-' + side, 0 <= p <= n and lo and hi, a, v, p)
        b = rng.randint(0, 2, size=n).astype(bool)
        c = numpy.cumsum(b)
        check('cumsum', all(c[k] == (c[k - 1] if k else 0) + b[k] for k in range(n)), b, c)
        perm = rng.permutation(n)
        check('argsort-of-permutation-is-inverse', (numpy.argsort(perm)[perm] == numpy.arange(n)).all(), perm)
        x = rng.randint(-5, 6, size=n)
        y = x.copy()
        vals = rng.randint(10, 20, size=n)
        y[perm] = vals
        check('fancy-store-injective', all(y[perm[k]] == vals[k] for k in range(n)), x, perm, vals)
        m = rng.randint(0, 2, size=n).astype(bool)
        z = x.copy()
        z[m] = 99
        check('mask-store', all((z[i] == 99) if m[i] else (z[i] == x[i]) for i in range(n)), x, m)
        z = x.astype(float)
        src = rng.rand(n)
        z[~m] = src[~m]
        check('mask-to-mask-store', all(z[i] == (src[i] if not m[i] else x[i]) for i in range(n)), x, m)
        if n >= 2:
            out = numpy.empty(n + 1, dtype=bool)
            out[:] = False
            numpy.greater(x[1:], x[:-1], out=out[1:-1])
            check('ufunc-out-writes-through-a-slice-view', all(out[i] == (x[i] > x[i - 1]) for i in range(1, n)) and not out[0] and not out[n], x, out)
        if n:
            check('min-max-attained', x.min() in x and x.max() in x and (x >= x.min()).all() and (x <= x.max()).all(), x)
        k = rng.randint(0, n + 1)
        ii = numpy.unique(rng.randint(0, n + 1, size=k)) if n else numpy.zeros(0, int)
        w = numpy.zeros(n + 1, dtype=bool)
        w[ii] = True
        check('fancy-store-constant', all(w[j] == (j in ii) for j in range(n + 1)), ii, w)
        s = slice(int(rng.randint(-9, 10)), int(rng.randint(-9, 10)))
        st, sp, _ = s.indices(n)
        check('slice-indices', x[s].tolist() == [x[i] for i in range(st, max(st, sp))], x, (s.start, s.stop))
        fl = float(rng.choice([numpy.nan, numpy.inf, -numpy.inf, 0., 1., -2.5]))
        g = float(rng.choice([numpy.nan, numpy.inf, 0., 3.]))
        check('ieee-comparisons', (not (fl > g) if numpy.isnan(fl) or numpy.isnan(g) else True) and ((max(fl, g) == g) == (g > fl) or numpy.isnan(max(fl, g)) or fl == g), fl, g)
    # ---- C20: the facts the token-string domain (pyvc/tokstr.py) and the Fraction model rely on
    from fractions import Fraction
    import string
    rnd = random.Random(seed)
    letters = string.ascii_letters + 'μΩθ_0123456789.,+-'

    def name(first_not, last_not, excludes='*/'):
        while True:
            w = ''.join(rnd.choice(letters) for _ in range(rnd.randint(1, 4)))
            if w[0] not in first_not and w[-1] not in last_not and not (set(w) & set(excludes)):
                return w
    for _ in range(rounds):
        p, q = rnd.randint(-30, 30), rnd.randint(1, 12)
        f, g = Fraction(p, q), Fraction(3 * p, 3 * q)
        check('fraction-lowest-terms-is-a-function-of-the-value', f.denominator >= 1 and f.numerator == f * f.denominator and (f.numerator, f.denominator) == (g.numerator, g.denominator)
              and (f.denominator == 1) == (f == int(f)), p, q)
        n, d = rnd.randint(0, 10**rnd.randint(0, 6)), rnd.randint(0, 999)
        check('int-of-str', int(str(n)) == n and str(n).isdigit(), n)
        b = name('', '0123456789_')
        u = name('+-0123456789.,', '0123456789_')
        num = rnd.choice(['5', '2.5', '-.5', '+12', '1250.'])
        check('rstrip-stops-at-a-name', (b + str(n)).rstrip('0123456789_') == b and (b + str(n) + '_' + str(d)).rstrip('0123456789_') == b and (num + u + str(n)).rstrip('0123456789_') == num + u, b, n, d)
        check('lstrip-stops-at-a-name', (num + u).lstrip('+-0123456789.') == u and (rnd.choice(['.3', '10.2', ',.1', '']) + u).lstrip('0123456789.,') == u and ('*' + b).lstrip('*') == b, num, u)
        parts = [name('', '') + rnd.choice(['', str(n), '_' + str(d)]) for _ in range(rnd.randint(1, 3))]
        check('split-inverts-join', '*'.join(parts).split('*') == parts and '/'.join(parts).split('/') == parts and ''.split('*') == [''], parts)
        check('partition', (str(n) + '_' + str(d)).partition('_') == (str(n), '_', str(d)) and str(n).partition('_') == (str(n), '', '') and ''.partition('_') == ('', '', ''), n, d)
        s1 = num + u
        tail = s1.lstrip('+-0123456789.')
        check('prefix-by-length-difference', s1[:len(s1) - len(tail)] == num and (b + str(n))[len(b):] == str(n), s1)
        items = [(name('', ''), Fraction(rnd.randint(-3, 3), rnd.randint(1, 3))) for _ in range(3)]
        srt = sorted(items, key=lambda item: item[::-1], reverse=True)
        check('sorted-descending-by-key', all(srt[i][::-1] >= srt[i + 1][::-1] for i in range(2)) and sorted(srt) == sorted(items), items)
        da, db = {'m': rnd.randint(-2, 2), 's': rnd.randint(-2, 2)}, {'s': rnd.randint(-2, 2), 'm': rnd.randint(-2, 2)}
        check('dict-equality-is-pointwise', (da == db) == (set(da) == set(db) and all(da[k] == db[k] for k in da)), da, db)
    print('AXIOMS ' + json.dumps(dict(rounds=rounds, failures=fails[:5])))
    return not fails
