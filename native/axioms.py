"""Cross-check of the external (numpy / stdlib) axioms the contracts assume, against the real numpy, on random small inputs.
A wrong axiom is the easiest way to prove something false; this runs in the thorough tier."""
import json, random
import numpy


def run(seed=0, rounds=400):
    rng = numpy.random.RandomState(seed)
    fails = []

    def check(name, cond, *info):
        if not cond:
            fails.append((name, [numpy.asarray(x).tolist() if hasattr(x, 'tolist') or isinstance(x, (list, tuple)) else x for x in info]))
    for _ in range(rounds):
        n = rng.randint(0, 7)
        a = numpy.sort(rng.randint(-3, 4, size=n))
        v = int(rng.randint(-4, 5))
        for side in ('left', 'right'):
            p = int(numpy.searchsorted(a, v, side=side))
            lo = (a[:p] < v).all() if side == 'left' else (a[:p] <= v).all()
            hi = (a[p:] >= v).all() if side == 'left' else (a[p:] > v).all()
            check('searchsorted-' + side, 0 <= p <= n and lo and hi, a, v, p)
        b = rng.randint(0, 2, size=n).astype(bool)
        c = numpy.cumsum(b)
        check('cumsum', all(c[k] == (c[k - 1] if k else 0) + b[k] for k in range(n)), b, c)
        perm = rng.permutation(n)
        check('argsort-of-permutation-is-inverse', (numpy.argsort(perm)[perm] == numpy.arange(n)).all(), perm)
        x = rng.randint(-5, 6, size=n)
        y = x.copy()
        vals = rng.randint(10, 20, size=n)
        y[perm] = vals
        check('fancy-store-injective', all(y[perm[k]] == vals[k] for k in range(n)), x, perm, vals)
        m = rng.randint(0, 2, size=n).astype(bool)
        z = x.copy()
        z[m] = 99
        check('mask-store', all((z[i] == 99) if m[i] else (z[i] == x[i]) for i in range(n)), x, m)
        z = x.astype(float)
        src = rng.rand(n)
        z[~m] = src[~m]
        check('mask-to-mask-store', all(z[i] == (src[i] if not m[i] else x[i]) for i in range(n)), x, m)
        if n >= 2:
            out = numpy.empty(n + 1, dtype=bool)
            out[:] = False
            numpy.greater(x[1:], x[:-1], out=out[1:-1])
            check('ufunc-out-writes-through-a-slice-view', all(out[i] == (x[i] > x[i - 1]) for i in range(1, n)) and not out[0] and not out[n], x, out)
        if n:
            check('min-max-attained', x.min() in x and x.max() in x and (x >= x.min()).all() and (x <= x.max()).all(), x)
        k = rng.randint(0, n + 1)
        ii = numpy.unique(rng.randint(0, n + 1, size=k)) if n else numpy.zeros(0, int)
        w = numpy.zeros(n + 1, dtype=bool)
        w[ii] = True
        check('fancy-store-constant', all(w[j] == (j in ii) for j in range(n + 1)), ii, w)
        s = slice(int(rng.randint(-9, 10)), int(rng.randint(-9, 10)))
        st, sp, _ = s.indices(n)
        check('slice-indices', x[s].tolist() == [x[i] for i in range(st, max(st, sp))], x, (s.start, s.stop))
        fl = float(rng.choice([numpy.nan, numpy.inf, -numpy.inf, 0., 1., -2.5]))
        g = float(rng.choice([numpy.nan, numpy.inf, 0., 3.]))
        check('ieee-comparisons', (not (fl > g) if numpy.isnan(fl) or numpy.isnan(g) else True) and ((max(fl, g) == g) == (g > fl) or numpy.isnan(max(fl, g)) or fl == g), fl, g)
    # L-MONOID (C11 chain contracts): the fold of an associative operation with identity over a list -- split, singleton,
    # empty, frame (the fold depends only on the items of the range), and the splice form used for `items[i:i+2] = pair`;
    # instantiated with 2x2 integer matrices under multiplication (a non-commutative monoid)
    def fold(xs, lo, hi):
        r = numpy.eye(2, dtype=int)
        for k in range(lo, hi):
            r = r @ xs[k]
        return r
    for _ in range(rounds // 4):
        n = rng.randint(0, 7)
        xs = [rng.randint(-2, 3, size=(2, 2)) for _ in range(n)]
        lo = rng.randint(0, n + 1)
        hi = rng.randint(lo, n + 1)
        k = rng.randint(lo, hi + 1)
        check('monoid-fold-split', (fold(xs, lo, hi) == fold(xs, lo, k) @ fold(xs, k, hi)).all(), lo, k, hi)
        check('monoid-fold-empty', (fold(xs, lo, lo) == numpy.eye(2, dtype=int)).all(), lo)
        if lo < n:
            check('monoid-fold-singleton', (fold(xs, lo, lo + 1) == xs[lo]).all(), lo)
        ys = [rng.randint(-2, 3, size=(2, 2)) for _ in range(rng.randint(0, 3))] + xs[lo:hi] + [rng.randint(-2, 3, size=(2, 2))]
        lo2 = len(ys) - 1 - (hi - lo)
        check('monoid-fold-frame', (fold(xs, lo, hi) == fold(ys, lo2, lo2 + hi - lo)).all(), lo, hi, lo2)
        if n >= 2:
            i = rng.randint(0, n - 1)
            s0 = rng.randint(-2, 3, size=(2, 2))
            zs = xs[:i] + [s0, numpy.eye(2, dtype=int)] + xs[i + 2:]
            zs[i + 1] = rng.randint(-2, 3, size=(2, 2))
            check('monoid-fold-splice', (fold(zs, 0, n) == fold(xs, 0, i) @ (zs[i] @ zs[i + 1]) @ fold(xs, i + 2, n)).all(), i)
    print('AXIOMS ' + json.dumps(dict(rounds=rounds, failures=fails[:5])))
    return not fails
