"""Cross-check of the external (numpy / stdlib) axioms the contracts assume, against the real numpy, on random small inputs.
A wrong axiom is the easiest way to prove something false; this runs in the thorough tier."""
import json, random
import numpy


def run(seed=0, rounds=400):
    rng = numpy.random.RandomState(seed)
    fails = []

    def check(name, cond, *info):
        if not cond:
            fails.append((name, [numpy.asarray(x).tolist() if hasattr(x, 'tolist') or isinstance(x, (list, tuple)) else x for x in info]))
    for _ in range(rounds):
        n = rng.randint(0, 7)
        a = numpy.sort(rng.randint(-3, 4, size=n))
        v = int(rng.randint(-4, 5))
        for side in ('left', 'right'):
            p = int(numpy.searchsorted(a, v, side=side))
            lo = (a[:p] < v).all() if side == 'left' else (a[:p] <= v).all()
            hi = (a[p:] >= v).all() if side == 'left' else (a[p:] > v).all()
            check('searchsorted-' + side, 0 <= p <= n and lo and hi, a, v, p)
        b = rng.randint(0, 2, size=n).astype(bool)
        c = numpy.cumsum(b)
        check('cumsum', all(c[k] == (c[k - 1] if k else 0) + b[k] for k in range(n)), b, c)
        perm = rng.permutation(n)
        check('argsort-of-permutation-is-inverse', (numpy.argsort(perm)[perm] == numpy.arange(n)).all(), perm)
        x = rng.randint(-5, 6, size=n)
        y = x.copy()
        vals = rng.randint(10, 20, size=n)
        y[perm] = vals
        check('fancy-store-injective', all(y[perm[k]] == vals[k] for k in range(n)), x, perm, vals)
        m = rng.randint(0, 2, size=n).astype(bool)
        z = x.copy()
        z[m] = 99
        check('mask-store', all((z[i] == 99) if m[i] else (z[i] == x[i]) for i in range(n)), x, m)
        z = x.astype(float)
        src = rng.rand(n)
        z[~m] = src[~m]
        check('mask-to-mask-store', all(z[i] == (src[i] if not m[i] else x[i]) for i in range(n)), x, m)
        if n >= 2:
            out = numpy.empty(n + 1, dtype=bool)
            out[:] = False
            numpy.greater(x[1:], x[:-1], out=out[1:-1])
            check('ufunc-out-writes-through-a-slice-view', all(out[i] == (x[i] > x[i - 1]) for i in range(1, n)) and not out[0] and not out[n], x, out)
        if n:
            check('min-max-attained', x.min() in x and x.max() in x and (x >= x.min()).all() and (x <= x.max()).all(), x)
        k = rng.randint(0, n + 1)
        ii = numpy.unique(rng.randint(0, n + 1, size=k)) if n else numpy.zeros(0, int)
        w = numpy.zeros(n + 1, dtype=bool)
        w[ii] = True
        check('fancy-store-constant', all(w[j] == (j in ii) for j in range(n + 1)), ii, w)
        s = slice(int(rng.randint(-9, 10)), int(rng.randint(-9, 10)))
        st, sp, _ = s.indices(n)
        check('slice-indices', x[s].tolist() == [x[i] for i in range(st, max(st, sp))], x, (s.start, s.stop))
        fl = float(rng.choice([numpy.nan, numpy.inf, -numpy.inf, 0., 1., -2.5]))
        g = float(rng.choice([numpy.nan, numpy.inf, 0., 3.]))
        check('ieee-comparisons', (not (fl > g) if numpy.isnan(fl) or numpy.isnan(g) else True) and ((max(fl, g) == g) == (g > fl) or numpy.isnan(max(fl, g)) or fl == g), fl, g)
    print('AXIOMS ' + json.dumps(dict(rounds=rounds, failures=fails[:5])))
    ok_sets = run_sets(seed)
    ok_ev = evaluable_nodes(seed)
    return not fails and ok_sets and ok_ev


def run_sets(seed=0, rounds=300):
    """numpy.unique / union1d / nonzero / functools.reduce(numpy.union1d, .) axioms of pyvc/npsets.py vs the real numpy."""
    import functools
    rng = numpy.random.RandomState(seed)
    fails = []
    for _ in range(rounds):
        n = rng.randint(0, 7)
        v = rng.randint(-3, 4, size=n)
        u = numpy.unique(v)
        if not ((numpy.diff(u) > 0).all() and set(u.tolist()) == set(v.tolist()) and len(u) <= n):
            fails.append(('unique', v.tolist(), u.tolist()))
        w = rng.randint(-3, 4, size=rng.randint(0, 5))
        x = numpy.union1d(v, w)
        if not ((numpy.diff(x) > 0).all() and set(x.tolist()) == set(v.tolist()) | set(w.tolist())):
            fails.append(('union1d', v.tolist(), w.tolist(), x.tolist()))
        m = rng.randint(0, 2, size=n).astype(bool)
        p, = m.nonzero()
        if not ((numpy.diff(p) > 0).all() and p.tolist() == [i for i in range(n) if m[i]]):
            fails.append(('nonzero', m.tolist(), p.tolist()))
        items = [rng.randint(-3, 4, size=rng.randint(0, 4)) for _ in range(rng.randint(1, 4))]
        r = functools.reduce(numpy.union1d, items)
        if len(items) == 1:
            ok = r is items[0]
        else:
            ok = (numpy.diff(r) > 0).all() and set(r.tolist()) == set(a for it in items for a in it.tolist())
        if not ok:
            fails.append(('reduce-union1d', [it.tolist() for it in items], r.tolist()))
    print('AXIOMS-SETS ' + json.dumps(dict(rounds=rounds, failures=fails[:5])))
    return not fails


def evaluable_nodes(seed=0, rounds=60):
    """denotations of contracts/evalsem.py vs real evaluable nodes (compiled and evaluated)."""
    from nutils import evaluable, types
    rng = numpy.random.RandomState(seed)
    fails = []

    def ev(node, **args):
        return numpy.asarray(evaluable.compile(node)(dict(args)))
    for _ in range(rounds):
        n = int(rng.randint(1, 6))
        a = rng.randint(-5, 6, size=n)
        i = int(rng.randint(0, n))
        idx = rng.randint(0, n, size=rng.randint(0, 5))
        ca = evaluable.constant(a)
        I_ = evaluable.InRange(evaluable.Argument('i', (), int), evaluable.constant(n))
        checks = [
            ('Range', ev(evaluable.Range(evaluable.constant(n))).tolist(), list(range(n))),
            ('get', ev(evaluable.get(ca, 0, I_), i=i).tolist(), int(a[i])),
            ('Take-vector', ev(evaluable.Take(ca, evaluable.constant(idx))).tolist(), a[idx].tolist()),
            ('take-axis0', ev(evaluable.take(ca, evaluable.constant(idx), axis=0)).tolist(), a[idx].tolist()),
            ('Less+InsertAxis', ev(evaluable.Less(ca, evaluable.InsertAxis(evaluable.constant(1), evaluable.constant(n)))).tolist(), (a < 1).tolist()),
            ('Find', ev(evaluable.Find(evaluable.Less(ca, evaluable.InsertAxis(evaluable.constant(1), evaluable.constant(n))))).tolist(), (a < 1).nonzero()[0].tolist()),
            ('add-scalar', ev(evaluable.Range(evaluable.constant(n)) + evaluable.get(ca, 0, I_), i=i).tolist(), (numpy.arange(n) + a[i]).tolist()),
            ('mod', ev(ca % 3).tolist(), (a % 3).tolist()),
        ]
        q, r_ = evaluable.divmod(I_, 2)
        checks.append(('divmod', [ev(q, i=i).tolist(), ev(r_, i=i).tolist()], [i // 2, i % 2]))
        b = rng.randint(0, 4, size=int(rng.randint(1, 4)))
        nb = 4
        rv = evaluable.Ravel(evaluable.RavelIndex(ca, evaluable.constant(b), evaluable.constant(100), evaluable.constant(nb)))
        checks.append(('Ravel(RavelIndex)', ev(rv).tolist(), (a[:, None] * nb + b[None, :]).ravel().tolist()))
        tabs = tuple(types.arraydata(rng.randint(0, 9, size=int(rng.randint(0, 4)))) for _ in range(n))
        checks.append(('Elemwise', ev(evaluable.Elemwise(tabs, I_, int), i=i).tolist(), numpy.asarray(tabs[i]).tolist()))
        for name, got, want in checks:
            if got != want:
                fails.append((name, got, want))
    print('AXIOMS-EVALUABLE ' + json.dumps(dict(rounds=rounds, failures=fails[:5])))
    return not fails
