"""Cross-check of the externals assumed by the C14 extension contracts (called from native/axioms.py:run):
boolean-mask extraction / store via a shared rank function, its additivity over numpy.concatenate, the length rules of the
mask store, math.fsum / math.sqrt / float ** 2 exception behaviour, numpy.linalg.norm >= 0 or nan."""
import math, warnings
import numpy


def run(check, rng, n):
    warnings.simplefilter('ignore')
    m = rng.randint(0, 2, size=n).astype(bool)
    a = rng.randint(-9, 10, size=n).astype(float)
    rank = numpy.cumsum(m) - 1  # rank[i] = number of selected positions before i, for selected i
    pos = numpy.flatnonzero(m)
    cnt = int(m.sum())
    check('mask-rank-bijection', all(pos[rank[i]] == i for i in range(n) if m[i]) and all(m[pos[k]] and rank[pos[k]] == k for k in range(cnt))
          and all(rank[i] < rank[j] for i in range(n) for j in range(i + 1, n) if m[i] and m[j]), m)
    check('mask-extraction-by-pos', a[m].tolist() == [a[pos[k]] for k in range(cnt)], a, m)
    y = 100. + numpy.arange(cnt)
    v = a.copy()
    v[m] = y
    check('mask-store-by-rank', all(v[i] == (y[rank[i]] if m[i] else a[i]) for i in range(n)), a, m)
    v = a.copy()
    v[m] = numpy.array([7.])
    check('mask-store-broadcasts-length-1', all(v[i] == (7. if m[i] else a[i]) for i in range(n)), a, m)
    wrong = cnt + 1 + int(rng.randint(0, 3))
    if wrong != 1:
        try:
            v = a.copy()
            v[m] = numpy.zeros(wrong)
            ok = False
        except ValueError:
            ok = True
        check('mask-store-wrong-length-raises-ValueError', ok, m, wrong)
    try:
        a[numpy.ones(n + 1, bool)]
        ok = False
    except IndexError:
        ok = True
    check('mask-of-wrong-length-raises-IndexError', ok, n)
    n2 = int(rng.randint(0, 5))
    m2 = rng.randint(0, 2, size=n2).astype(bool)
    g = numpy.concatenate([m, m2])
    rg = numpy.cumsum(g) - 1
    r2 = numpy.cumsum(m2) - 1
    check('mask-rank-additive-over-concatenate', int(g.sum()) == cnt + int(m2.sum()) and all(rg[i] == rank[i] for i in range(n) if m[i]) and all(rg[n + i] == cnt + r2[i] for i in range(n2) if m2[i]), m, m2)
    check('all-true-mask-is-identity', a[numpy.ones(n, bool)].tolist() == a.tolist(), a)
    # math.fsum / sqrt / pow
    pool = [0., 1., -2.5, 1e308, -1e308, float('inf'), float('-inf'), float('nan')]
    xs = [float(rng.choice(pool)) for _ in range(4)]
    try:
        s = math.fsum(xs)
        exc = None
    except (ValueError, OverflowError) as e:
        s, exc = None, type(e).__name__
    fin = all(math.isfinite(x) for x in xs)
    anynan = any(x != x for x in xs)
    pinf, ninf = float('inf') in xs, float('-inf') in xs
    if exc == 'OverflowError':
        okf = sum(1 for x in xs if math.isfinite(x) and x != 0) >= 2
    elif pinf and ninf:
        okf = exc == 'ValueError'
    elif exc is not None:
        okf = False
    elif anynan:
        okf = s != s
    elif fin:
        okf = math.isfinite(s)
    else:
        okf = s == (float('inf') if pinf else float('-inf'))
    check('math-fsum-exceptions-and-infinities', okf, xs, s, exc)
    x = float(rng.choice([0., 4., 1e308, float('inf'), float('nan')]))
    r = math.sqrt(x)
    check('math-sqrt-nonnegative', (r != r) == (x != x) and (x != x or (r >= 0 and (r == 0) == (x == 0) and math.isinf(r) == math.isinf(x))), x, r)
    try:
        math.sqrt(-1.)
        ok = False
    except ValueError:
        ok = True
    check('math-sqrt-negative-raises-ValueError', ok)
    c = float(rng.choice([2., 1e200, -1e200, 1e154]))
    try:
        r = c ** 2
        ok = math.isfinite(r)
    except OverflowError:
        ok = True
    check('float-pow-finite-or-OverflowError', ok, c)
    w = rng.choice(pool, size=3)
    nr = float(numpy.linalg.norm(w))
    check('linalg-norm-nonnegative-or-nan', nr != nr or nr >= 0, w, nr)
