"""Replay of C18 counter-models on the real nutils.cache code (run under /venv/bin/python with PYTHONPATH=$VERIF_REPO/src).

Recursion: an on-disk history is written DIRECTLY with pickle (never through the code under test): item files 0..n-1 hold
(RecordLog, False, x_i), item file n is missing | empty | cut off | the stop marker, later files hold stale material.  Then the
real Recursion.__iter__ runs with caching enabled and is compared with the sequence x_0, x_1, ... the recursion yields from
scratch.  cache.function: a cache file with a longer stale entry, two consecutive calls.  enable/disable: nesting."""
import contextlib, io, itertools, os, pickle, shutil, sys, tempfile

K_ITEMS = 4
MISSING, EMPTY, TRUNC_UNPICKLING, TRUNC_INDEX, STOPMARK, STALE_VALID = 0, 1, 2, 3, 4, 5
SCRATCH = os.path.join(os.path.expanduser('~'), '.cache', 'verif-scratch')


class GenError(Exception):
    pass


INDEX_MARK = b'cut-off entry on which pickle.load raises IndexError'


class _PickleProxy:
    """The real pickle module, except that loading a file that holds INDEX_MARK raises IndexError: the C unpickler of this
    Python does not raise IndexError on any cut-off stream we could construct, but the code under test (and the contract's
    external) allows for it (the pure-Python unpickler does).  Everything else is the real pickle."""

    def __getattr__(self, name):
        return getattr(pickle, name)

    def load(self, f, *a, **k):
        pos = f.tell()
        head = f.read(len(INDEX_MARK))
        f.seek(pos)
        if head == INDEX_MARK:
            f.read()
            raise IndexError('pop from empty list')
        return pickle.load(f, *a, **k)


@contextlib.contextmanager
def _index_error_injection():
    from nutils import cache
    saved = cache.pickle
    cache.pickle = _PickleProxy()
    try:
        yield
    finally:
        cache.pickle = saved


def X(p):
    return ('x', p)


def _mkdtemp():
    os.makedirs(SCRATCH, exist_ok=True)
    return tempfile.mkdtemp(prefix='c18-', dir=SCRATCH)


_classes = {}


def _recursion_class(length):
    from nutils import cache
    if length not in _classes:
        class R(cache.Recursion, length=length):
            def __init__(self, tag):
                self.tag = tag

            def resume_index(self, history, index):
                st = STATE[self.tag]
                snap = list(history) if isinstance(history, (list, tuple)) else history
                st['resumes'].append((snap, index, type(history).__name__))
                ok = isinstance(history, list) and len(history) <= index and snap == [X(j) for j in range(index - len(history), index)]

                def gen():
                    p = index
                    while p < st['T']:
                        st['nexts'].append((p, cache.caching.current))
                        yield X(p) if ok else ('not-x', p)
                        p += 1
                    st['nexts'].append((p, cache.caching.current))
                    if st['gen_raises']:
                        raise GenError(p)
                return gen()
        _classes[length] = R
    return _classes[length]


STATE = {}
_counter = [0]


def recursion_scenario(length, n, T, tail, gen_raises, stale=None, verbose=False):
    """Returns a list of violated clause descriptions (empty = behaves as the property says)."""
    import treelog
    from nutils import cache
    stale = stale or {}
    _counter[0] += 1
    tag = 'scenario-%d' % _counter[0]
    st = STATE[tag] = dict(T=T, gen_raises=gen_raises, resumes=[], nexts=[])
    obj = _recursion_class(length)(tag)
    root = _mkdtemp()
    bad = []
    try:
        d = os.path.join(root, obj.__nutils_hash__.hex())
        os.makedirs(d)

        def write(i, kind):
            path = os.path.join(d, '%04d' % i)
            full = pickle.dumps((treelog.RecordLog(), False, ('stale', i)))
            if kind == MISSING:
                return
            data = {EMPTY: b'', TRUNC_UNPICKLING: full[:len(full) // 2], TRUNC_INDEX: INDEX_MARK, STOPMARK: pickle.dumps((treelog.RecordLog(), True, None)), STALE_VALID: full}[kind]
            open(path, 'wb').write(data)
        for i in range(n):
            open(os.path.join(d, '%04d' % i), 'wb').write(pickle.dumps((treelog.RecordLog(), False, X(i))))
        write(n, tail)
        for i in range(n + 1, K_ITEMS + 2):
            write(i, stale.get(i, STALE_VALID))
        got, exc = [], None
        with cache.enable(root), _index_error_injection():
            try:
                it = iter(obj)
                for _ in range(K_ITEMS):
                    try:
                        got.append(next(it))
                    except StopIteration:
                        break
                it.close()
            except BaseException as e:
                exc = e
        m = min(T, K_ITEMS)
        want = [X(p) for p in range(m)]
        if got != want:
            bad.append('yields %r, the uncached recursion yields %r' % (got, want))
        want_exc = gen_raises and T < K_ITEMS
        if (exc is not None) != want_exc or (exc is not None and not isinstance(exc, GenError)):
            bad.append('raised %r, uncached raises %s' % (exc, 'GenError after %d items' % T if want_exc else 'nothing'))
        fails_at = n if (tail != STOPMARK and n < K_ITEMS) else None
        if len(st['resumes']) > 1:
            bad.append('generator resumed %d times' % len(st['resumes']))
        if (fails_at is not None) != (len(st['resumes']) >= 1):
            bad.append('resume calls %r but the cache %s' % (st['resumes'], 'is exhausted at %d' % fails_at if fails_at is not None else 'is complete / ends with the stop marker'))
        for snap, idx, tname in st['resumes'][:1]:
            h = min(idx, length) if isinstance(idx, int) else -1
            if idx != fails_at:
                bad.append('resumed at index %r, cache exhausted at %r' % (idx, fails_at))
            elif tname != 'list' or snap != [X(j) for j in range(idx - h, idx)]:
                bad.append('history handed to resume_index(%r) is %r (%s), expected the last min(index, length=%d) values %r' % (idx, snap, tname, length, [X(j) for j in range(idx - h, idx)]))
        if any(cur is not None for _, cur in st['nexts']):
            bad.append('caching enabled while the wrapped generator runs')
        # what is on disk afterwards
        if fails_at is not None:
            todo = [(p, (False, X(p))) for p in range(fails_at, m)]
            if T < K_ITEMS and not gen_raises:
                todo.append((T, (True, None)))
            for p, exp in todo:
                path = os.path.join(d, '%04d' % p)
                try:
                    rec = pickle.load(open(path, 'rb'))
                except Exception as e:
                    bad.append('item file %d unreadable after the run: %r' % (p, e))
                    continue
                if not (isinstance(rec, tuple) and len(rec) == 3 and (rec[1], rec[2]) == exp):
                    bad.append('item file %d holds %r, expected (log, %r, %r)' % (p, rec, exp[0], exp[1]))
        if verbose:
            print('scenario length=%d ncached=%d T=%d tail=%d gen_raises=%s: yields=%r exc=%r resumes=%r -> %s' % (length, n, T, tail, gen_raises, got, exc, st['resumes'], bad or 'ok'))
    finally:
        shutil.rmtree(root, ignore_errors=True)
        STATE.pop(tag, None)
    return bad


def _int(m, k, default):
    try:
        return int(str(m.get(k, default)))
    except Exception:
        return default


def run_recursion(model, clause):
    """Replay the counter-model; if that scenario behaves, search the small family of clean histories."""
    m = model or {}
    length, n, T, tail = _int(m, 'length', 1), _int(m, 'ncached', 0), _int(m, 'T', 0), _int(m, 'tail', EMPTY)
    gen_raises = str(m.get('gen_raises', 'False')) == 'True'
    stale = {i: _int(m, 'stale%d' % i, STALE_VALID) for i in range(K_ITEMS + 2)}
    n, length, T = max(0, min(n, K_ITEMS + 1)), max(0, min(length, K_ITEMS + 2)), max(0, min(T, K_ITEMS + 2))
    T = max(T, n)
    if tail == STOPMARK:
        T, gen_raises = n, False
    print('clause:', clause)
    try:
        bad = recursion_scenario(length, n, T, tail, gen_raises, stale, verbose=True)
    except BaseException as e:
        bad = ['escaped: %r' % (e,)]
        print('scenario of the counter-model: an exception escaped:', repr(e))
    if bad:
        print('REPLAY: VIOLATION-CONFIRMED Recursion.__iter__ on the history of the counter-model:', '; '.join(bad))
        return
    print('the counter-model scenario behaves; searching the family length<=3, ncached<=4, all tails, T<=5 (guided by the failed clause)')
    for length, n, tail, gr in itertools.product(range(0, 4), range(0, K_ITEMS + 1), (MISSING, EMPTY, TRUNC_UNPICKLING, TRUNC_INDEX, STOPMARK), (False, True)):
        for T in ([n] if tail == STOPMARK else range(n, K_ITEMS + 2)):
            if tail == STOPMARK and gr:
                continue
            for st in (STALE_VALID, EMPTY):
                try:
                    bad = recursion_scenario(length, n, T, tail, gr, {i: st for i in range(K_ITEMS + 2)})
                except BaseException as e:
                    bad = ['escaped: %r' % (e,)]
                if bad:
                    print('found: length=%d ncached=%d T=%d tail=%d gen_raises=%s stale=%d' % (length, n, T, tail, gr, st))
                    print('REPLAY: VIOLATION-CONFIRMED Recursion.__iter__ (input found by search):', '; '.join(bad))
                    return
    print('REPLAY: not reproduced')


# ------------------------------------------------------------------------------------------------ cache.function

def run_function_twice(scenario, clause):
    """A cache file with a LONGER stale entry (or none); two calls."""
    import treelog
    from nutils import cache, types
    print('clause:', clause)
    calls = []

    @cache.function
    def f(a, b=2):
        calls.append((a, b, cache.caching.current))
        treelog.user('computing')
        return ('value', a, b)
    root = _mkdtemp()
    bad = []
    try:
        for sc in ([scenario] if scenario else []) + ['over-longer-old-format-entry', 'over-longer-garbage', 'over-index-error-entry', 'into-empty-file', 'hit', 'hit-old']:
            del calls[:]
            shutil.rmtree(root, ignore_errors=True)
            os.makedirs(root)
            # find the file name by one throw-away call, then plant the stale content
            with cache.enable(root):
                f(1, b=3)
            names = os.listdir(root)
            if len(names) != 1:
                bad.append('%s: %d cache files for one call' % (sc, len(names)))
                break
            path = os.path.join(root, names[0])
            pad = 'stale' * 200
            rl = treelog.RecordLog()
            stale = {'over-longer-old-format-entry': pickle.dumps((rl, True, pad)), 'over-longer-garbage': b'\x00garbage' * 100, 'over-index-error-entry': INDEX_MARK + b'x' * 500,
                     'into-empty-file': b'', 'hit': pickle.dumps((('stored', pad), rl)), 'hit-old': pickle.dumps((rl, False, ('stored', pad)))}.get(sc, b'')
            open(path, 'wb').write(stale)
            del calls[:]
            res, excs, logs = [], [], []
            with cache.enable(root), _index_error_injection():
                for k in range(2):
                    rec_log = treelog.RecordLog(simplify=False)
                    logs.append(rec_log)
                    try:
                        with treelog.set(rec_log):
                            res.append(f(1, b=3))
                    except BaseException as e:
                        excs.append(e)
                        res.append(e)
            hit = sc.startswith('hit')
            want = ('stored', pad) if hit else ('value', 1, 3)
            if excs:
                bad.append('%s: raised %r' % (sc, excs[0]))
            elif res != [want, want]:
                bad.append('%s: calls returned %r, expected twice %r' % (sc, [str(r)[:40] for r in res], str(want)[:40]))
            if len(calls) != (0 if hit else 1):
                bad.append('%s: func ran %d times over two calls' % (sc, len(calls)))
            if any(c[2] is not None for c in calls):
                bad.append('%s: caching enabled inside func' % sc)
            if not hit and not excs and not any(m[0] == 'write' and m[1] == 'computing' for m in logs[1]._messages):
                bad.append('%s: the second (cached) call did not replay the log output of the original call' % sc)
            if not hit and not excs:
                try:
                    rec = pickle.load(open(path, 'rb'))
                    if not (isinstance(rec, tuple) and len(rec) == 2 and rec[0] == want):
                        bad.append('%s: entry at offset 0 is %r' % (sc, str(rec)[:60]))
                except Exception as e:
                    bad.append('%s: entry at offset 0 unreadable: %r' % (sc, e))
            print('scenario %s: results %s, func calls %d' % (sc, [str(r)[:30] for r in res], len(calls)))
            if bad:
                break
    finally:
        shutil.rmtree(root, ignore_errors=True)
    if bad:
        print('REPLAY: VIOLATION-CONFIRMED cache.function:', '; '.join(bad))
    else:
        print('REPLAY: not reproduced')


# ------------------------------------------------------------------------------------------------ enable / disable

def run_contexts(clause):
    import pathlib
    from nutils import cache
    print('clause:', clause)
    bad = []
    seen = []

    def cur():
        seen.append(cache.caching.current)
        return seen[-1]
    A, B = pathlib.Path('/nonexistent/A'), pathlib.Path('/nonexistent/B')
    base = cache.caching.current
    try:
        with cache.enable(A):
            c1 = cur()
            with cache.disable():
                c2 = cur()
                with cache.enable(B):
                    c3 = cur()
                c4 = cur()
            c5 = cur()
            try:
                with cache.disable():
                    raise GenError('body fails')
            except GenError:
                pass
            c6 = cur()
        c7 = cur()
        want = [A, None, B, None, A, A, base]
        if seen != want:
            bad.append('caching.current along the nesting is %r, expected %r' % (seen, want))
        if base is not None and not os.environ.get('NUTILS_CACHE'):
            bad.append('caching is on by default: %r' % (base,))
    except BaseException as e:
        bad.append('escaped: %r' % (e,))
    if bad:
        print('REPLAY: VIOLATION-CONFIRMED cache.enable/disable:', '; '.join(bad))
    else:
        print('REPLAY: not reproduced')


def run_lock(clause):
    import fcntl
    from nutils import cache
    print('clause:', clause)
    root = _mkdtemp()
    try:
        p = os.path.join(root, 'f')
        open(p, 'wb').close()
        with open(p, 'r+b') as f1, open(p, 'r+b') as f2:
            cache._lock_file(f1)
            try:
                fcntl.flock(f2, fcntl.LOCK_EX | fcntl.LOCK_NB)
                print('REPLAY: VIOLATION-CONFIRMED _lock_file: a second descriptor obtained the exclusive lock while the first holds it')
            except OSError:
                try:
                    fcntl.flock(f2, fcntl.LOCK_SH | fcntl.LOCK_NB)
                    print('REPLAY: VIOLATION-CONFIRMED _lock_file: the lock taken is not exclusive (a shared lock is granted alongside)')
                except OSError:
                    print('REPLAY: not reproduced')
    finally:
        shutil.rmtree(root, ignore_errors=True)


def run_function_raises(clause):
    """The wrapped function raises: the exception must propagate unchanged, nothing may be stored, and the entry's path must be left
    alone (a process blocked in flock on it would otherwise hold a lock on a file that is no longer the entry)."""
    import treelog
    from nutils import cache
    print('clause:', clause)
    state = {'fail': True}

    @cache.function
    def f(a):
        if state['fail']:
            raise RuntimeError('boom')
        return ('value', a)
    root = _mkdtemp()
    bad = []
    try:
        for planted in (None, b'', b'\x00garbage' * 10):
            shutil.rmtree(root, ignore_errors=True)
            os.makedirs(root)
            state['fail'] = False
            with cache.enable(root):
                f(1)
            names = os.listdir(root)
            path = os.path.join(root, names[0])
            if planted is None:
                os.unlink(path)  # no entry yet
            else:
                open(path, 'wb').write(planted)
            ino = os.stat(path).st_ino if planted is not None else None
            state['fail'] = True
            try:
                with cache.enable(root):
                    f(1)
                bad.append('planted=%r: the exception of the wrapped function did not propagate' % (planted,))
            except RuntimeError:
                pass
            except BaseException as e:
                bad.append('planted=%r: %s instead of the RuntimeError of the wrapped function' % (planted, type(e).__name__))
            if not os.path.exists(path):
                bad.append('planted=%r: the cache entry %s was REMOVED after the wrapped function raised (a waiting process now locks an unlinked file)' % (planted, names[0]))
            elif ino is not None and os.stat(path).st_ino != ino:
                bad.append('planted=%r: the cache entry was replaced by another file' % (planted,))
            elif os.path.getsize(path) and planted == b'':
                bad.append('planted=%r: something was stored although the wrapped function raised' % (planted,))
            if bad:
                break
    finally:
        shutil.rmtree(root, ignore_errors=True)
    for b in bad:
        print(b)
    print('REPLAY: VIOLATION-CONFIRMED' if bad else 'REPLAY: not reproduced')
