"""Native replay for contracts/C06b.py: build the REAL evaluable node of a configuration with concrete axis lengths and kinds,
evaluate it (unsimplified, unoptimised: the node itself) and compare what it ANNOUNCES (ndim, evaluated shape, dtype) with
what evaluation DELIVERS.  The solver's lengths are tried first; if they do not map to a failing input a small family
(lengths 0..3 of every symbol, all admissible kinds) is searched, and the output says so."""
import itertools, json, sys
import numpy
from nutils import evaluable as ev

DT = [bool, int, float, complex]


def c(n):
    return ev.constant(int(n))


def arg(name, lens, kind):
    return ev.Argument(name, tuple(c(n) for n in lens), DT[kind])


class Need:
    """collects the symbols a builder asks for"""

    def __init__(self, values):
        self.values, self.asked = values, {}

    def L(self, name, default=2):
        self.asked.setdefault(name, ('len', None))
        return int(self.values.get(name, default))

    def K(self, name, among=(0, 1, 2, 3)):
        if len(among) == 1:
            return among[0]
        self.asked.setdefault(name + '.kind', ('kind', among))
        k = int(self.values.get(name + '.kind', among[-1]))
        return k if k in among else among[-1]

    def arr(self, name, rank, among=(0, 1, 2, 3)):
        return arg(name, [self.L('%s.shape%d' % (name, i)) for i in range(rank)], self.K(name, among))


def build(cls, cfg, N):
    """returns (node, argument values) -- mirrors the `fields` of the contract classes"""
    A = {}

    def operand(name, rank, among=(0, 1, 2, 3), lens=None, fill=0):
        lens = lens if lens is not None else [N.L('%s.shape%d' % (name, i)) for i in range(rank)]
        k = N.K(name, among)
        A[name] = numpy.full(lens, fill).astype(DT[k])
        return arg(name, lens, k)
    if cls in ('Ravel', 'Sum', 'Product', 'Diagonalize', 'ArgSort', 'UniqueMask', 'TakeDiag', 'Determinant', 'Inverse'):
        field = {'ArgSort': 'array', 'UniqueMask': 'sorted_array'}.get(cls, 'func')
        among = (2, 3) if cls in ('Determinant', 'Inverse') else (0, 1, 2) if cls in ('ArgSort', 'UniqueMask') else (0, 1, 2, 3)
        r = cfg['rank']
        lens = [N.L('%s.shape%d' % (field, i)) for i in range(r)]
        if cls in ('TakeDiag', 'Determinant', 'Inverse') and r >= 2:
            lens[-1] = lens[-2]
        f = operand(field, r, among, lens=lens, fill=1)
        return getattr(ev, cls)(f), A
    if cls == 'InsertAxis':
        return ev.InsertAxis(operand('func', cfg['rank']), c(N.L('length'))), A
    if cls == 'Transpose':
        axes = tuple(cfg['axes'])
        return ev.Transpose(operand('func', len(axes)), axes), A
    if cls == 'Unravel':
        s1, s2 = N.L('sh1'), N.L('sh2')
        r = cfg['rank']
        lens = [N.L('func.shape%d' % i) for i in range(r - 1)] + [s1 * s2]
        return ev.Unravel(operand('func', r, lens=lens), c(s1), c(s2)), A
    if cls == 'Take':
        lens = [N.L('func.shape%d' % i) for i in range(cfg['rank'])]
        lens[-1] = max(lens[-1], 1)  # index 0 must exist
        f = operand('func', cfg['rank'], lens=lens)
        i = operand('indices', cfg['irank'], (1,))
        return ev.Take(f, i), A
    if cls == '_TakeSlice':
        r = cfg['rank']
        n, o = N.L('length'), N.L('offset')
        lens = [N.L('func.shape%d' % i) for i in range(r)]
        lens[-1] = max(lens[-1], n + o)
        return ev._TakeSlice(operand('func', r, lens=lens), c(n), c(o)), A
    if cls == '_Get':
        r = cfg['rank']
        lens = [N.L('func.shape%d' % i) for i in range(r)]
        lens[-1] = max(lens[-1], 1)
        return ev._Get(operand('func', r, lens=lens), c(0)), A
    if cls == 'Range':
        return ev.Range(c(N.L('length'))), A
    if cls == 'RavelIndex':
        return ev.RavelIndex(operand('ia', cfg['ra'], (1,)), operand('ib', cfg['rb'], (1,)), c(N.L('na')), c(N.L('nb'))), A
    if cls == 'Einsum':
        k = N.K('args', (1, 2, 3))
        lab = {}
        ops_ = []
        for n, idx in enumerate(cfg['args']):
            lens = []
            for j, i in enumerate(idx):
                lens.append(lab.setdefault(i, N.L('arg%d.shape%d' % (n, j))))
            A['arg%d' % n] = numpy.ones(lens).astype(DT[k])
            ops_.append(arg('arg%d' % n, lens, k))
        return ev.Einsum(tuple(ops_), tuple(tuple(i) for i in cfg['args']), tuple(cfg['out'])), A
    if cls == 'Inflate':
        r, d = cfg['rank'], cfg['drank']
        lens = [N.L('func.shape%d' % i) for i in range(r)]
        length = max(N.L('length'), 1)
        f = operand('func', r, lens=lens, fill=1)
        A['dofmap'] = numpy.zeros(lens[r - d:], dtype=int)
        return ev.Inflate(f, arg('dofmap', lens[r - d:], 1), c(length)), A
    if cls == 'Polyval':
        import nutils_poly as poly
        nv = cfg['nvars']
        cf = operand('coeffs', cfg['crank'], (2,), lens=[N.L('coeffs.shape%d' % i) for i in range(cfg['crank'] - 1)] + [poly.ncoeffs(nv, N.L('degree', 1) % 3)])
        pt = operand('points', cfg['prank'], (2,), lens=[N.L('points.shape%d' % i) for i in range(cfg['prank'] - 1)] + [nv])
        return ev.Polyval(cf, pt), A
    if cls == 'PolyGrad':
        import nutils_poly as poly
        nv = cfg['nvars']
        cf = operand('coeffs', cfg['rank'], (2,), lens=[N.L('coeffs.shape%d' % i) for i in range(cfg['rank'] - 1)] + [poly.ncoeffs(nv, N.L('degree', 1) % 4)])
        return ev.PolyGrad(cf, nv), A
    if cls == 'PolyMul':
        import nutils_poly as poly
        vars_ = tuple(getattr(poly.MulVar, v) for v in cfg['vars'])
        nl, nr = sum(v != 'Right' for v in cfg['vars']), sum(v != 'Left' for v in cfg['vars'])
        lead = [N.L('lead%d' % i) for i in range(cfg['rank'] - 1)]
        cl = operand('coeffs_left', cfg['rank'], (2,), lens=lead + [poly.ncoeffs(nl, N.L('degree_left', 1) % 3)])
        cr = operand('coeffs_right', cfg['rank'], (2,), lens=lead + [poly.ncoeffs(nr, N.L('degree_right', 2) % 3)])
        return ev.PolyMul(cl, cr, vars_), A
    if cls == 'Legendre':
        return ev.Legendre(operand('x', cfg['rank'], (2,)), cfg['degree']), A
    if cls == 'Choose':
        lens = [N.L('index.shape%d' % i) for i in range(cfg['rank'])]
        i = operand('index', cfg['rank'], (1,), lens=lens)
        ch = operand('choices', cfg['rank'] + 1, lens=lens + [max(1, N.L('nchoices'))])
        return ev.Choose(i, ch), A
    if cls == 'SearchSorted':
        n = N.L('array.shape0')
        a = operand('array', 1, (1, 2), lens=[n])
        s = operand('sorter', 1, (1,), lens=[n]) if cfg['sorter'] else None
        if s is not None:
            A['sorter'] = numpy.arange(n)
        return ev.SearchSorted(operand('arg', cfg['rank'], (1, 2)), a, s, cfg['side']), A
    if cls == 'UniqueInverse':
        n = N.L('unique_mask.shape0')
        m = operand('unique_mask', 1, (0,), lens=[n], fill=1)
        s = operand('sorter', 1, (1,), lens=[n])
        A['sorter'] = numpy.arange(n)
        return ev.UniqueInverse(m, s), A
    if cls == 'Find':
        n = N.L('where.shape0')
        w = operand('where', 1, (0,), lens=[n])
        A['where'] = (numpy.arange(n) % 2 == 0)[:n] if N.L('pattern', 0) % 2 else numpy.ones(n, dtype=bool) if N.L('pattern', 0) % 3 else numpy.zeros(n, dtype=bool)
        return ev.Find(w), A
    if cls == '_SizesToOffsets':
        n = max(1, N.L('sizes.shape0'))
        A['sizes'] = numpy.ones(n, dtype=int)
        return ev._SizesToOffsets(ev.Maximum(arg('sizes', [n], 1), ev.zeros((c(n),), int))), A
    if cls == 'LoopSum':
        i = ev.loop_index('_i', max(1, N.L('looplength')))
        f = operand('func', cfg['rank'], (1, 2, 3), fill=1)
        return ev.loop_sum(f * ev.astype(ev.appendaxes(i, f.shape), f.dtype) if cfg['rank'] else f, i), A
    if cls in ('Multiply', 'Add'):
        r = cfg['rank']
        lens = [N.L('func1.shape%d' % i) for i in range(r)]
        k = N.K('funcs')
        A['func1'] = numpy.ones(lens).astype(DT[k])
        A['func2'] = numpy.ones(lens).astype(DT[k])
        from nutils import types
        return getattr(ev, cls)(types.frozenmultiset([arg('func1', lens, k), arg('func2', lens, k)])), A
    if cls == 'Power':
        r = cfg['rank']
        lens = [N.L('func.shape%d' % i) for i in range(r)]
        k = N.K('func', (1, 2, 3))
        f = operand('func', r, (k,), lens=lens, fill=1)
        A['power'] = numpy.ones(lens).astype(DT[k])
        p = arg('power', lens, k)
        if k == 1:
            p = ev.Maximum(p, ev.zeros(p.shape, int))
        return ev.Power(f, p), A
    if cls == 'Sign':
        return ev.Sign(operand('func', cfg['rank'], tuple(cfg.get('kinds', (1, 2, 3))), fill=1)), A
    if cls == 'Zeros':
        return ev.Zeros(tuple(c(N.L('shape%d' % i)) for i in range(cfg['rank'])), DT[cfg['kind']]), A
    if cls == 'Guard':
        return ev.Guard(operand('fun', cfg['rank'], fill=1)), A
    if cls == 'WithDerivative':
        f = operand('func', cfg['rank'], fill=1)
        return ev.WithDerivative(f, ev.Argument('v', (), float), ev.zeros_like(f)), A
    if cls == 'LoopConcatenate' and cfg.get('chunk') == 'varying':
        i = ev.loop_index('_i', max(1, N.L('looplength')))
        lead = [N.L('func.shape%d' % k) for k in range(cfg['rank'] - 1)]
        chunk = ev.Range(i + c(1))  # chunk length i+1 at iteration i
        f = ev.prependaxes(ev.IntToFloat(chunk), tuple(c(n) for n in lead))
        return ev.loop_concatenate(f, i), A
    if cls == 'LoopConcatenate':
        i = ev.loop_index('_i', max(1, N.L('looplength')))
        f = operand('func', cfg['rank'], fill=1)
        return ev.loop_concatenate(ev.Guard(f), i), A
    raise NotImplementedError(cls)


def announced_vs_delivered(node, A):
    """-> (clause or None, details)"""
    fn = ev.compile((node, tuple(node.shape)), _simplify=False, _optimize=False)
    value, shape = fn(A)
    value = numpy.asarray(value)
    shape = tuple(int(s) for s in shape)
    if not (len(node.shape) == node.ndim == value.ndim):
        return 'ndim', 'announced ndim %d, len(shape) %d, delivered rank %d' % (node.ndim, len(node.shape), value.ndim)
    if shape != value.shape:
        return 'shape', 'announced %r, delivered %r' % (shape, value.shape)
    kind = {'b': bool, 'i': int, 'u': int, 'f': float, 'c': complex}[value.dtype.kind]
    if kind != node.dtype:
        return 'dtype', 'announced %s, delivered %s' % (node.dtype.__name__, value.dtype)
    return None, 'announced == delivered == %r %s' % (shape, value.dtype)


def attempt(cls, cfg, values):
    N = Need(values)
    try:
        node, A = build(cls, cfg, N)
    except (AssertionError, ValueError) as e:
        return N, None, 'rejected at construction: %s' % type(e).__name__
    except NotImplementedError:
        raise
    except Exception as e:
        return N, 'no-raise', 'construction raised %s: %s' % (type(e).__name__, e)
    try:
        clause, info = announced_vs_delivered(node, A)
    except Exception as e:
        return N, 'no-raise', 'announcing / evaluating raised %s: %s' % (type(e).__name__, str(e)[:200])
    return N, clause, info


def run_meta(cls, cfg, model, clause):
    values = {}
    for k, v in model.items():
        try:
            values[k] = int(v)
        except (TypeError, ValueError):
            pass
    try:
        N, bad, info = attempt(cls, cfg, values)
    except NotImplementedError:
        print('REPLAY: no native builder for', cls)
        return
    if bad:
        print('REPLAY: VIOLATION-CONFIRMED (solver input) %s %s: clause %s: %s' % (cls, json.dumps(cfg), bad, info))
        return
    names = sorted(N.asked)
    spaces = [(0, 1, 2, 3) if N.asked[n][0] == 'len' else N.asked[n][1] for n in names]
    tried = 0
    for combo in itertools.product(*spaces):
        tried += 1
        if tried > 1500:
            break
        _, bad, info = attempt(cls, cfg, dict(zip(names, combo)))
        if bad:
            print('REPLAY: VIOLATION-CONFIRMED (the solver input did not fail natively; found by searching lengths 0..3 / kinds of %s) %s %s %s: clause %s: %s'
                  % (names, cls, json.dumps(cfg), json.dumps(dict(zip(names, combo))), bad, info))
            return
    print('REPLAY: not reproduced (%d inputs tried; failing clause %s); last: %s' % (tried, clause, info))


if __name__ == '__main__':
    run_meta(sys.argv[1], json.loads(sys.argv[2]), {}, 'self-test')


def run_pointwise(cls, kinds, clause, rejected=False):
    """Pointwise dtype table: operands of the given kinds; a rejected combination must raise ValueError/TypeError/AssertionError
    before anything is announced; an accepted one must deliver the announced dtype."""
    args = [arg('a%d' % i, [2], k) for i, k in enumerate(kinds)]
    A = {'a%d' % i: numpy.ones(2).astype(DT[k]) for i, k in enumerate(kinds)}
    try:
        node = getattr(ev, cls)(*args)
        announced = node.dtype
        shape = node.shape
    except (ValueError, TypeError, AssertionError) as e:
        print('REPLAY: %s%r is rejected when announcing (%s): nothing delivered%s' % (cls, tuple(DT[k].__name__ for k in kinds), type(e).__name__,
              ' -- VIOLATION-CONFIRMED: the contract expects this combination to be accepted' if clause.startswith('no-raise') else ''))
        return
    except Exception as e:
        print('REPLAY: VIOLATION-CONFIRMED %s%r: announcing raised %s: %s' % (cls, tuple(DT[k].__name__ for k in kinds), type(e).__name__, e))
        return
    if rejected:
        print('REPLAY: VIOLATION-CONFIRMED %s%r must be rejected but announces dtype %s' % (cls, tuple(DT[k].__name__ for k in kinds), getattr(announced, '__name__', announced)))
        return
    try:
        value = numpy.asarray(ev.compile(node, _simplify=False, _optimize=False)(A))
    except Exception as e:
        print('REPLAY: VIOLATION-CONFIRMED %s%r announces dtype %s but evaluation raises %s: %s' % (cls, tuple(DT[k].__name__ for k in kinds), announced.__name__, type(e).__name__, str(e)[:150]))
        return
    kind = {'b': bool, 'i': int, 'u': int, 'f': float, 'c': complex}[value.dtype.kind]
    if kind != announced or value.shape != (2,):
        print('REPLAY: VIOLATION-CONFIRMED %s%r announces %s %r, delivers %s %r' % (cls, tuple(DT[k].__name__ for k in kinds), announced.__name__, tuple(map(int, shape)), value.dtype, value.shape))
    else:
        print('REPLAY: not reproduced: %s%r announces and delivers %s' % (cls, tuple(DT[k].__name__ for k in kinds), value.dtype))


def run_arguments(what, clause):
    """`arguments` / `isconstant` bookkeeping on a small family of REAL nodes (the symbolic sets of the contract do not map to one
    input; the family covers every contract of part 3)."""
    a, b = ev.Argument('a', (c(2),), float), ev.Argument('b', (c(2),), float)
    i = ev.loop_index('_i', 3)
    bad = []

    def check(name, cond, *info):
        if not cond:
            bad.append((name, info))
    try:
        for node in (a + b, ev.Sum(a * b), ev.insertaxis(a, 0, c(3)), ev.constant(1.) + ev.Sum(a), ev.constant([1., 2.])):
            want = frozenset().union(*(d.arguments for d in node.dependencies))
            check('Evaluable.arguments is the union over the dependencies', node.arguments == want, str(node), sorted(map(str, node.arguments)))
            check('isconstant <=> no arguments', node.isconstant == (not node.arguments), str(node))
        check('arguments of a+b', (a + b).arguments == frozenset({a, b}))
        check('Argument.arguments == {self}', a.arguments == frozenset({a}))
        check('Argument is never constant', a.isconstant is False)
        check('_LoopIndex.arguments == {self}', i.arguments == frozenset({i}))
        body = ev.Take(a, ev.Mod(i, c(2)))
        for loop in (ev.loop_sum(body, i), ev.loop_concatenate(ev.InsertAxis(body, c(1)), i)):
            inner = frozenset().union(*(d.arguments for d in loop.dependencies))
            check('the loop body depends on the index', i in inner, str(loop))
            check('Loop.arguments removes exactly the loop index', loop.arguments == inner - {i} and i not in loop.arguments and a in loop.arguments, sorted(map(str, loop.arguments)))
        j = ev.loop_index('_j', 3)
        nested = ev.loop_sum(ev.loop_sum(ev.Take(a, ev.Mod(i + j, c(2))), i), j)
        check('nested loops remove both indices and nothing else', nested.arguments == frozenset({a}), sorted(map(str, nested.arguments)))
        other = ev.loop_sum(ev.Take(a, ev.Mod(j, c(2))) * ev.astype(ev.constant(1), float), i)
        check('a loop does not remove the index of ANOTHER loop', j in other.arguments, sorted(map(str, other.arguments)))
        w = ev.WithDerivative(ev.Sum(a), b, ev.zeros((c(2),), float))
        check('WithDerivative.arguments adds the target', w.arguments == frozenset({a, b}), sorted(map(str, w.arguments)))
    except Exception as e:
        bad.append(('bookkeeping raised %s: %s' % (type(e).__name__, e), ()))
    if bad:
        print('REPLAY: VIOLATION-CONFIRMED (family of real nodes; the symbolic sets of the contract are not one input) clause %s: %s' % (clause, bad[:3]))
    else:
        print('REPLAY: not reproduced on the family of real nodes (clause %s)' % clause)


def run_function_array(rank, variant, model, clause):
    """function.Array.__init__: build the real object from the model's lengths and compare the announcement with what was given"""
    from nutils import function
    lens = [int(model.get('shape%d' % i, 2)) for i in range(rank)]
    dtype = {'invalid-dtype': str}.get(variant, [bool, int, float, complex][int(model.get('dtype.kind', 2)) % 4])
    if variant == 'non-integer-length':
        lens[-1] = 1.5
    given_args = {'a': ((2,), float)}
    try:
        a = function.Array(tuple(lens), dtype, frozenset(['X']), given_args)
    except Exception as e:
        print('REPLAY: rejected at construction with %s (%s)%s' % (type(e).__name__, e, ' -- VIOLATION-CONFIRMED: valid input' if variant == 'valid' else ''))
        return
    if variant != 'valid':
        print('REPLAY: VIOLATION-CONFIRMED function.Array(%r, %s, ...) is accepted and announces shape %r dtype %s' % (tuple(lens), getattr(dtype, '__name__', dtype), a.shape, getattr(a.dtype, '__name__', a.dtype)))
        return
    ok = a.shape == tuple(lens) and all(type(n) is int for n in a.shape) and a.ndim == rank and a.dtype is dtype and a.spaces == frozenset(['X']) and dict(a.arguments) == given_args
    print('REPLAY: %s announced shape %r ndim %r dtype %s spaces %r arguments %r for the given %r' % ('not reproduced:' if ok else 'VIOLATION-CONFIRMED', a.shape, a.ndim, a.dtype.__name__, sorted(a.spaces), dict(a.arguments), tuple(lens)))
