"""Native enumeration / replay helpers for C05."""
import itertools, json, numpy


def compress_indices():
    from nutils import numeric
    cases, failures = 0, []
    for length in range(0, 7):
        for n in range(0, 7):
            if length == 0 and n > 2:
                continue
            vals = range(-1, length + 1)
            it = itertools.product(vals, repeat=n) if len(vals) ** n <= 60000 else itertools.islice(itertools.product(vals, repeat=n), 0, None, max(1, len(vals) ** n // 60000))
            for idx in it:
                idx = numpy.array(idx, dtype=int)
                valid = (len(idx) == 0 or (idx.min() >= 0 and idx.max() < length)) and bool((numpy.diff(idx) >= 0).all())
                cases += 1
                try:
                    c = numeric.compress_indices(idx, length)
                    raised = None
                except ValueError as e:
                    raised = 'ValueError'
                except Exception as e:
                    raised = type(e).__name__
                if raised:
                    if valid or raised != 'ValueError':
                        failures.append(dict(clause='rejects-exactly-invalid', indices=idx.tolist(), length=length, raised=raised, valid=valid))
                    continue
                if not valid:
                    failures.append(dict(clause='rejects-exactly-invalid', indices=idx.tolist(), length=length, returned=numpy.asarray(c).tolist()))
                    continue
                want = idx.searchsorted(numpy.arange(length + 1))
                c = numpy.asarray(c)
                if c.shape != want.shape or (c != want).any():
                    failures.append(dict(clause='equals-searchsorted', indices=idx.tolist(), length=length, returned=c.tolist(), expected=want.tolist()))
                if len(c) != length + 1 or (len(c) and (c[0] != 0 or c[-1] != len(idx))) or (numpy.diff(c) < 0).any():
                    failures.append(dict(clause='monotone-rowptr', indices=idx.tolist(), length=length, returned=c.tolist()))
    print('BOUNDED-RESULT ' + json.dumps(dict(cases=cases, failures=failures[:10])))
    if failures:
        print('REPLAY: VIOLATION-CONFIRMED compress_indices%r fails: %s' % ((failures[0]['indices'], failures[0]['length']), failures[0]))
    else:
        print('REPLAY: not reproduced (%d cases)' % cases)


def _compress_spec(idx, length):
    """The contract of compress_indices evaluated natively: (valid, expected row pointer)."""
    idx = numpy.asarray(idx, dtype=int)
    valid = bool((len(idx) == 0 or (idx.min() >= 0 and idx.max() < length)) and (numpy.diff(idx) >= 0).all())
    want = numpy.array([int((idx < i).sum()) for i in range(length + 1)], dtype=int) if valid else None
    return valid, want


def _compress_case(idx, length):
    """None if the real compress_indices honours its contract on this input, else a description."""
    from nutils import numeric
    idx = numpy.array(idx, dtype=int)
    valid, want = _compress_spec(idx, length)
    try:
        c = numpy.asarray(numeric.compress_indices(idx, length))
    except ValueError as e:
        return 'valid input rejected with ValueError: %s' % e if valid else None
    except Exception as e:
        return 'raised %s: %s' % (type(e).__name__, e)
    if not valid:
        return 'invalid input (out of bounds or not monotone) accepted, returned %s' % c.tolist()
    if c.shape != want.shape or (c != want).any():
        return 'returned %s, the row pointer of the input is %s' % (c.tolist(), want.tolist())
    return None


def run_compress(m, clause):
    """Replay of a counter-model of the deductive compress_indices contract; falls back to a small search."""
    n = int(m.get('len(indices)', 0) or 0)
    length = int(m.get('length', 0) or 0)
    tried = []
    if 0 <= n <= 12 and 0 <= length <= 50:
        tried.append(([int(m.get('indices[%d]' % i, 0) or 0) for i in range(n)], length))
    for idx, L in tried:
        bad = _compress_case(idx, L)
        print('model input: compress_indices(%s, %d): %s' % (idx, L, bad or 'as specified'))
        if bad:
            print('REPLAY: VIOLATION-CONFIRMED compress_indices(%s, %d) %s' % (idx, L, bad))
            return
    # the model could not be turned into a failing input (ghost/lemma obligation): search small inputs, guided by nothing but size
    for L in range(0, 5):
        for n in range(0, 5):
            for idx in itertools.product(range(-1, L + 1), repeat=n):
                bad = _compress_case(idx, L)
                if bad:
                    print('search (clause %s): compress_indices(%s, %d) %s' % (clause, list(idx), L, bad))
                    print('REPLAY: VIOLATION-CONFIRMED compress_indices(%s, %d) %s' % (list(idx), L, bad))
                    return
    print('REPLAY: not reproduced (model input and all inputs with len <= 4, length <= 4 behave as specified)')


def unique_mask():
    from nutils import evaluable
    for n in range(0, 6):
        for a in itertools.product(range(3), repeat=n):
            a = numpy.array(sorted(a), dtype=int)
            m = evaluable.UniqueMask.evalf(a)
            want = numpy.array([i == 0 or a[i] != a[i - 1] for i in range(n)], dtype=bool)
            if m.shape != want.shape or (m != want).any():
                print('UniqueMask.evalf(%s) = %s, expected %s' % (a.tolist(), m.tolist(), want.tolist()))
                print('REPLAY: VIOLATION-CONFIRMED')
                return
    print('REPLAY: not reproduced')


def unique_inverse():
    from nutils import evaluable
    for n in range(0, 6):
        for a in itertools.product(range(3), repeat=n):
            a = numpy.array(a, dtype=int)
            sorter = numpy.argsort(a, kind='stable')
            mask = evaluable.UniqueMask.evalf(a[sorter])
            inv = evaluable.UniqueInverse.evalf(mask, sorter)
            want = numpy.unique(a, return_inverse=True)[1] if n else numpy.zeros(0, int)
            if (numpy.asarray(inv) != want).any():
                print('UniqueInverse for %s: %s, expected %s' % (a.tolist(), numpy.asarray(inv).tolist(), want.tolist()))
                print('REPLAY: VIOLATION-CONFIRMED')
                return
    print('REPLAY: not reproduced')


def inflate_assparse():
    """sparse extraction of Inflate with a multi-dimensional dofmap against dense evaluation"""
    from nutils import evaluable as ev
    rng = numpy.random.RandomState(1)
    for shape in [(2, 2, 3), (3, 2), (2, 3, 2), (4,)]:
        n = int(numpy.prod(shape))
        a = ev.Argument('a', tuple(ev.constant(s) for s in shape), float)
        dof = ev.constant(rng.permutation(n).reshape(shape))
        f = ev.Inflate(a, dof, ev.constant(n)).simplified
        val = rng.rand(*shape)
        dense = numpy.asarray(ev.eval_once(f, arguments={'a': val}))
        values, indices, shp = f.assparse
        v, *ix = ev.eval_once((values, *indices), arguments={'a': val})
        sparse = numpy.zeros(dense.shape)
        numpy.add.at(sparse, tuple(ix), v)
        if not numpy.allclose(sparse, dense):
            print('Inflate with dofmap of shape %s: sparse data scatter to %s, dense value %s' % (shape, sparse.tolist(), dense.tolist()))
            print('REPLAY: VIOLATION-CONFIRMED sparse extraction does not denote the dense array')
            return
    print('REPLAY: not reproduced')
