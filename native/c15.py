"""Replay of C15 counter-models on the real nutils.matrix code."""
import numpy


def vec(m, name, dtype=int):
    n = int(m.get('len(%s)' % name, 0))
    return numpy.array([int(m.get('%s[%d]' % (name, i), 0)) for i in range(n)], dtype=dtype)


def wf(nvals, rowptr, colidx, ncols):
    if len(rowptr) < 1 or rowptr[0] != 0 or any(rowptr[1:] < rowptr[:-1]) or rowptr[-1] != nvals or len(colidx) != nvals:
        return False
    if any(colidx < 0) or any(colidx >= ncols):
        return False
    for r in range(len(rowptr) - 1):
        c = colidx[rowptr[r]:rowptr[r + 1]]
        if any(c[1:] <= c[:-1]):
            return False
    return True


def run_csr(m, clause):
    from nutils import matrix
    rowptr, colidx = vec(m, 'rowptr'), vec(m, 'colidx')
    nvals = int(m.get('len(values)', 0))
    values = numpy.arange(1, nvals + 1, dtype=float)
    ncols = int(m.get('ncols', 0))
    ok = wf(nvals, rowptr, colidx, ncols)
    print('input: values=%s rowptr=%s colidx=%s ncols=%d well-formed=%s' % (values.tolist(), rowptr.tolist(), colidx.tolist(), ncols, ok))
    with matrix.backend('numpy'):
        try:
            A = matrix.assemble_csr(values, rowptr, colidx, ncols)
        except Exception as e:
            print('rejected with %s: %s' % (type(e).__name__, e))
            if ok:
                print('REPLAY: VIOLATION-CONFIRMED assemble_csr rejects well-formed CSR data')
            else:
                print('REPLAY: not reproduced (ill-formed input is rejected)')
            return
        dense = A.export('dense')
        print('accepted; dense shape', dense.shape, 'nonzeros at', [tuple(int(x) for x in ij) for ij in zip(*dense.nonzero())][:12])
        if not ok:
            print('REPLAY: VIOLATION-CONFIRMED assemble_csr accepts CSR data that does not define a matrix unambiguously '
                  '(stored %d values, dense has %d nonzeros, sum %s vs %s)' % (nvals, int((dense != 0).sum()), dense.sum(), values.sum()))
        else:
            print('REPLAY: not reproduced (well-formed input accepted)')


def valid_coo(nvals, rowidx, nrows, colidx, ncols):
    n = len(rowidx)
    if nvals != n or len(colidx) != n:
        return False
    if any(rowidx < 0) or any(rowidx >= nrows) or any(rowidx[1:] < rowidx[:-1]):
        return False
    if any(colidx < 0) or any(colidx >= ncols):
        return False
    return not any(rowidx[k] == rowidx[k + 1] and colidx[k] >= colidx[k + 1] for k in range(n - 1))


def _coo_case(values, rowidx, nrows, colidx, ncols):
    """None if the real assemble_coo treats this input as the property demands, else a description."""
    from nutils import matrix
    ok = valid_coo(len(values), rowidx, nrows, colidx, ncols)
    with matrix.backend('numpy'):
        try:
            A = matrix.assemble_coo(values, rowidx, nrows, colidx, ncols)
        except (matrix.MatrixError, ValueError) as e:
            return 'valid COO data rejected with %s: %s' % (type(e).__name__, e) if ok else None
        except Exception as e:
            return 'raised %s: %s' % (type(e).__name__, e)
        if not ok:
            return 'COO data that do not define a matrix unambiguously were accepted'
        dense = A.export('dense')
        want = numpy.zeros((nrows, ncols))
        want[rowidx, colidx] = values
        if dense.shape != want.shape or (dense != want).any():
            return 'assembled matrix %s differs from the dense matrix of the input %s' % (dense.tolist(), want.tolist())
    return None


def run_coo(m, clause):
    import itertools
    n = int(m.get('len(rowidx)', 0) or 0)
    nc = int(m.get('len(colidx)', 0) or 0)
    nv = int(m.get('len(values)', 0) or 0)
    nrows, ncols = int(m.get('nrows', 0) or 0), int(m.get('ncols', 0) or 0)
    if max(n, nc, nv) <= 12 and 0 <= nrows <= 30 and 0 <= ncols <= 30:
        rowidx, colidx = vec(m, 'rowidx'), vec(m, 'colidx')
        values = numpy.arange(1, nv + 1, dtype=float)
        bad = _coo_case(values, rowidx, nrows, colidx, ncols)
        print('model input: assemble_coo(values=%s, rowidx=%s, nrows=%d, colidx=%s, ncols=%d): %s' % (values.tolist(), rowidx.tolist(), nrows, colidx.tolist(), ncols, bad or 'as specified'))
        if bad:
            print('REPLAY: VIOLATION-CONFIRMED assemble_coo: ' + bad)
            return
    for nrows, ncols in ((1, 2), (2, 1), (2, 3), (3, 2)):
        for n in range(0, 4):
            for rowidx in itertools.product(range(-1, nrows + 1), repeat=n):
                for colidx in itertools.product(range(-1, ncols + 1), repeat=n):
                    values = numpy.arange(1, n + 1, dtype=float)
                    bad = _coo_case(values, numpy.array(rowidx, dtype=int), nrows, numpy.array(colidx, dtype=int), ncols)
                    if bad:
                        print('search (clause %s): assemble_coo(values=%s, rowidx=%s, nrows=%d, colidx=%s, ncols=%d)' % (clause, values.tolist(), list(rowidx), nrows, list(colidx), ncols))
                        print('REPLAY: VIOLATION-CONFIRMED assemble_coo: ' + bad)
                        return
    print('REPLAY: not reproduced (model input and all COO inputs with <= 3 entries on <= 3x2 shapes behave as specified)')
