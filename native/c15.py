"""Replay of C15 counter-models on the real nutils.matrix code."""
import numpy


def vec(m, name, dtype=int):
    n = int(m.get('len(%s)' % name, 0))
    return numpy.array([int(m.get('%s[%d]' % (name, i), 0)) for i in range(n)], dtype=dtype)


def wf(nvals, rowptr, colidx, ncols):
    if len(rowptr) < 1 or rowptr[0] != 0 or any(rowptr[1:] < rowptr[:-1]) or rowptr[-1] != nvals or len(colidx) != nvals:
        return False
    if any(colidx < 0) or any(colidx >= ncols):
        return False
    for r in range(len(rowptr) - 1):
        c = colidx[rowptr[r]:rowptr[r + 1]]
        if any(c[1:] <= c[:-1]):
            return False
    return True


def run_csr(m, clause):
    from nutils import matrix
    rowptr, colidx = vec(m, 'rowptr'), vec(m, 'colidx')
    nvals = int(m.get('len(values)', 0))
    values = numpy.arange(1, nvals + 1, dtype=float)
    ncols = int(m.get('ncols', 0))
    ok = wf(nvals, rowptr, colidx, ncols)
    print('input: values=%s rowptr=%s colidx=%s ncols=%d well-formed=%s' % (values.tolist(), rowptr.tolist(), colidx.tolist(), ncols, ok))
    with matrix.backend('numpy'):
        try:
            A = matrix.assemble_csr(values, rowptr, colidx, ncols)
        except Exception as e:
            print('rejected with %s: %s' % (type(e).__name__, e))
            if ok:
                print('REPLAY: VIOLATION-CONFIRMED assemble_csr rejects well-formed CSR data')
            else:
                print('REPLAY: not reproduced (ill-formed input is rejected)')
            return
        dense = A.export('dense')
        print('accepted; dense shape', dense.shape, 'nonzeros at', [tuple(int(x) for x in ij) for ij in zip(*dense.nonzero())][:12])
        if not ok:
            print('REPLAY: VIOLATION-CONFIRMED assemble_csr accepts CSR data that does not define a matrix unambiguously '
                  '(stored %d values, dense has %d nonzeros, sum %s vs %s)' % (nvals, int((dense != 0).sum()), dense.sum(), values.sum()))
        else:
            print('REPLAY: not reproduced (well-formed input accepted)')
