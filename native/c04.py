"""Native check of a Pointwise deriv rule by central differences on the real evaluable nodes."""
import numpy


def check(cls, k):
    from nutils import evaluable as ev
    C = getattr(ev, cls)
    nargs = len(C.deriv)
    grids = {'ArcSin': (-.9, .9), 'ArcCos': (-.9, .9), 'ArcTanH': (-.9, .9), 'Log': (.1, 3.), 'Tan': (-1.2, 1.2)}
    lo, hi = grids.get(cls, (-2., 2.))
    pts = numpy.linspace(lo, hi, 41)
    worst = 0
    args = [ev.Argument('a%d' % i, (), float) for i in range(nargs)]
    # compile the node and its derivative rule once (one generated function each), then evaluate on the grid
    fd_ = ev.compile(C.deriv[k](*args))
    ff_ = ev.compile(C(*args))
    d_of = lambda vs: float(fd_({'a%d' % i: numpy.array(v) for i, v in enumerate(vs)}))
    f = lambda vs: float(ff_({'a%d' % i: numpy.array(v) for i, v in enumerate(vs)}))
    for x in pts:
        for y in (pts[::7] if nargs == 2 else [None]):
            vals = [x] if nargs == 1 else [x, y]
            if cls in ('Minimum', 'Maximum') and abs(x - y) < 1e-3:
                continue
            if cls == 'ArcTan2' and y <= .05:  # the proved half plane (numpy.arctan2(x, y) with y > 0)
                continue
            dv = d_of(vals)
            h = 1e-6
            vp, vm = list(vals), list(vals)
            vp[k] += h
            vm[k] -= h
            fd = (f(vp) - f(vm)) / (2 * h)
            err = abs(dv - fd)
            if err > 1e-4 * (1 + abs(fd)) and err > worst:
                worst, at = err, (vals, dv, fd)
    if worst:
        print('%s.deriv[%d] at %s evaluates to %r, central difference %r' % (cls, k, at[0], at[1], at[2]))
        print('REPLAY: VIOLATION-CONFIRMED symbolic derivative differs from the true derivative')
    else:
        print('REPLAY: not reproduced by central differences')
