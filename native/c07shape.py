"""Native replay for the C07 shape-calculus contracts: the witness (and, if it does not reproduce, a small family of
shapes for the same structure) is run through the REAL nutils function and through REAL numpy; a difference in
announced shape / element kind, or acceptance on one side and rejection on the other, confirms the violation."""
import itertools, random
import numpy

KIND = {bool: 'b', int: 'i', float: 'f', complex: 'c'}
PYT = {'bool': bool, 'int': int, 'float': float, 'complex': complex}


def _arg(shape, dtype=float, name='a'):
    from nutils import function
    return function.Argument(name, tuple(shape), dtype)


def _out(f):
    """('ok', shape, kind) | ('err', exception name)"""
    try:
        r = f()
    except Exception as e:
        return ('err', type(e).__name__ + ': ' + str(e)[:70])
    if isinstance(r, (tuple, list)) and r and hasattr(r[0], 'shape'):
        return ('ok', tuple(tuple(int(n) for n in x.shape) for x in r), tuple(_kind(x) for x in r))
    if hasattr(r, 'shape'):
        return ('ok', tuple(int(n) for n in r.shape), _kind(r))
    return ('ok', tuple(int(n) for n in r), None)


def _kind(x):
    d = getattr(x, 'dtype', None)
    if d is None:
        return None
    return KIND[d] if d in KIND else numpy.dtype(d).kind.replace('u', 'i')


def _values(names, model, lo=0, extra=()):
    """the model's assignment first, then small families"""
    first = {}
    for n in names:
        try:
            first[n] = int(model[n])
        except Exception:
            first[n] = 2
    yield first
    rnd = random.Random(0)
    pool = [v for v in (0, 1, 2, 3, 4, 6) if v >= lo] + list(extra)
    if len(pool) ** len(names) <= 1500:
        for vs in itertools.product(pool, repeat=len(names)):
            yield dict(zip(names, vs))
    else:
        for _ in range(1500):
            yield {n: rnd.choice(pool) for n in names}


def _compare(what, nut, ref, kinds=True):
    """True if the pair of outcomes is a violation"""
    if nut[0] == 'ok' and ref[0] == 'ok':
        if nut[1] != ref[1] or (kinds and nut[2] is not None and ref[2] is not None and nut[2] != ref[2]):
            print('%s: nutils announces shape %s kind %s, numpy gives shape %s kind %s' % (what, nut[1], nut[2], ref[1], ref[2]))
            return True
        return False
    if nut[0] == 'ok':
        print('%s: nutils accepts (shape %s), numpy rejects (%s)' % (what, nut[1], ref[1]))
        return True
    if ref[0] == 'ok':
        print('%s: nutils rejects (%s), numpy gives shape %s' % (what, nut[1], ref[1]))
        return True
    return False


def _run(cases):
    n = 0
    for what, nut, ref, kinds in cases:
        n += 1
        if _compare(what, nut, ref, kinds):
            print('REPLAY: VIOLATION-CONFIRMED')
            return
    print('REPLAY: not reproduced (%d inputs tried)' % n)


def _shapes(ranks, v, prefix='s%d_'):
    return [tuple(v[(prefix % i) + str(j)] for j in range(r)) for i, r in enumerate(ranks)]


def _names(ranks, prefix='s%d_'):
    return [(prefix % i) + str(j) for i, r in enumerate(ranks) for j in range(r)]


def broadcast_shapes(cfg, model):
    from nutils import function
    def gen():
        for v in _values(_names(cfg['ranks']), model):
            sh = _shapes(cfg['ranks'], v)
            yield 'broadcast_shapes%r' % (tuple(sh),), _out(lambda: function.broadcast_shapes(*sh)), _out(lambda: numpy.broadcast_shapes(*sh)), False
    _run(gen())


def broadcast_to(cfg, model):
    names = ['n%d' % i for i in range(cfg['rank'])] + ['d%d' % i for i in range(cfg['nshape'])]
    def gen():
        for v in _values(names, model):
            lens = tuple(v['n%d' % i] for i in range(cfg['rank']))
            want = tuple(v['d%d' % i] for i in range(cfg['nshape']))
            yield 'broadcast_to(%r -> %r)' % (lens, want), _out(lambda: numpy.broadcast_to(_arg(lens), want)), _out(lambda: numpy.broadcast_to(numpy.empty(lens), want)), True
    _run(gen())


def broadcast_arrays(cfg, model):
    from nutils import function
    def gen():
        for v in _values(_names(cfg['ranks']), model):
            sh = _shapes(cfg['ranks'], v)
            yield 'broadcast_arrays%r' % (tuple(sh),), _out(lambda: function.broadcast_arrays(*[_arg(s, name='a%d' % i) for i, s in enumerate(sh)])), \
                _out(lambda: numpy.broadcast_arrays(*[numpy.empty(s) for s in sh])), True
    _run(gen())


def _lens(ndim, v):
    return tuple(v['n%d' % i] for i in range(ndim))


def transpose(cfg, model):
    axes = cfg['axes']
    def gen():
        for v in _values(['n%d' % i for i in range(cfg['ndim'])], model, extra=(5, 7)):
            lens = _lens(cfg['ndim'], v)
            if len(set(lens)) != len(lens):
                continue
            yield 'transpose(%r, %r)' % (lens, axes), _out(lambda: numpy.transpose(_arg(lens), axes)), _out(lambda: numpy.transpose(numpy.empty(lens), axes)), True
    _run(gen())


def swapaxes(cfg, model):
    a, b = cfg['a'], cfg['b']
    def gen():
        for v in _values(['n%d' % i for i in range(cfg['ndim'])], model, extra=(5, 7)):
            lens = _lens(cfg['ndim'], v)
            if len(set(lens)) != len(lens):
                continue
            yield 'swapaxes(%r, %d, %d)' % (lens, a, b), _out(lambda: numpy.swapaxes(_arg(lens), a, b)), _out(lambda: numpy.swapaxes(numpy.empty(lens), a, b)), True
    _run(gen())


def transpose_end(cfg, model):
    from nutils import function
    which, axes, n = cfg['which'], tuple(cfg['axes']), cfg['ndim']
    tail = tuple(range(n - len(axes), n))
    def ref(lens):
        x = numpy.empty(lens)
        if not axes:
            return x
        return numpy.moveaxis(x, axes, tail) if which == 'to_end' else numpy.moveaxis(x, tail, axes)
    def gen():
        for v in _values(['n%d' % i for i in range(n)], model, extra=(5, 7)):
            lens = _lens(n, v)
            if len(set(lens)) != len(lens):
                continue
            yield '_Transpose.%s(%r, *%r)' % (which, lens, axes), _out(lambda: getattr(function._Transpose, which)(_arg(lens), *axes)), _out(lambda: ref(lens)), True
    _run(gen())


def concatenate(cfg, model):
    dts = [PYT[d] for d in cfg['dtypes']]
    def gen():
        for v in _values(_names(cfg['ranks']), model):
            sh = _shapes(cfg['ranks'], v)
            yield 'concatenate(%r, axis=%d)' % (sh, cfg['axis']), _out(lambda: numpy.concatenate([_arg(s, d, 'a%d' % i) for i, (s, d) in enumerate(zip(sh, dts))], cfg['axis'])), \
                _out(lambda: numpy.concatenate([numpy.empty(s, dtype=d) for s, d in zip(sh, dts)], cfg['axis'])), True
    _run(gen())


def stack(cfg, model):
    dts = [PYT[d] for d in cfg['dtypes']]
    def gen():
        for v in _values(_names(cfg['ranks']), model):
            sh = _shapes(cfg['ranks'], v)
            yield 'stack(%r, axis=%d)' % (sh, cfg['axis']), _out(lambda: numpy.stack([_arg(s, d, 'a%d' % i) for i, (s, d) in enumerate(zip(sh, dts))], cfg['axis'])), \
                _out(lambda: numpy.stack([numpy.empty(s, dtype=d) for s, d in zip(sh, dts)], cfg['axis'])), True
    _run(gen())


def insertaxis(cfg, model):
    from nutils import function
    names = ['n%d' % i for i in range(cfg['ndim'])] + (['length0'] if cfg['which'] == 'insertaxis' else [])
    def gen():
        for v in _values(names, model, extra=(5,)):
            lens = _lens(cfg['ndim'], v)
            if cfg['which'] == 'insertaxis':
                ln = v['length0']
                def ref():
                    x = numpy.expand_dims(numpy.empty(lens), cfg['axis'])
                    return numpy.empty([ln if k == (cfg['axis'] % x.ndim) else m for k, m in enumerate(x.shape)])
                yield 'insertaxis(%r, %d, %d)' % (lens, cfg['axis'], ln), _out(lambda: function.insertaxis(_arg(lens), cfg['axis'], ln)), _out(ref), True
            else:
                yield 'expand_dims(%r, %d)' % (lens, cfg['axis']), _out(lambda: function.expand_dims(_arg(lens), cfg['axis'])), _out(lambda: numpy.expand_dims(numpy.empty(lens), cfg['axis'])), True
    _run(gen())


def prepend_axes(cfg, model):
    from nutils import function
    names = ['n%d' % i for i in range(cfg['ndim'])] + ['d%d' % i for i in range(cfg['nnew'])]
    def gen():
        for v in _values(names, model, extra=(5,)):
            lens = _lens(cfg['ndim'], v)
            new = tuple(v['d%d' % i] for i in range(cfg['nnew']))
            want = new + lens if cfg['which'] == '_prepend_axes' else lens + new
            yield '%s(%r, %r)' % (cfg['which'], lens, new), _out(lambda: getattr(function, cfg['which'])(_arg(lens), new)), _out(lambda: numpy.empty(want)), True
    _run(gen())


def unravel(cfg, model):
    from nutils import function
    names = ['n%d' % i for i in range(cfg['ndim'])] + ['part0', 'part1']
    ax = cfg['axis']
    def gen():
        for v in _values(names, model):
            lens = _lens(cfg['ndim'], v)
            ab = (v['part0'], v['part1'])
            yield 'unravel(%r, %d, %r)' % (lens, ax, ab), _out(lambda: function.unravel(_arg(lens), ax, ab)), _out(lambda: numpy.empty(lens).reshape(lens[:ax] + ab + lens[ax + 1:])), True
    _run(gen())


def get(cfg, model):
    from nutils import function
    def gen():
        for v in _values(['n%d' % i for i in range(cfg['ndim'])], model, lo=1, extra=(5, 7)):
            lens = _lens(cfg['ndim'], v)
            yield 'get(%r, %d, 0)' % (lens, cfg['axis']), _out(lambda: function.get(_arg(lens), cfg['axis'], 0)), _out(lambda: numpy.take(numpy.empty(lens), 0, cfg['axis'])), True
    _run(gen())


def take(cfg, model):
    def gen():
        rnd = random.Random(1)
        for v in _values(['n%d' % i for i in range(cfg['ndim'])], model, lo=1):
            lens = _lens(cfg['ndim'], v)
            cands = ([0], [-1, 0], [], [1, -2, 0], [rnd.randrange(-4, 4) for _ in range(3)], [3], [-4])
            if cfg.get('irank', 1) == 2:
                cands = ([[0, 0, 0]], [[0], [-1]], [[1, 0], [0, -1], [0, 0]], [[rnd.randrange(-3, 3) for _ in range(2)] for _ in range(3)], [[3, 0]], numpy.zeros((0, 2), int).tolist() or [[], []][:0])
            for idx in cands:
                what = 'take(%r, %r, axis=%r)' % (lens, idx, cfg['axis'])
                nut = _out(lambda: numpy.take(_arg(lens), idx, cfg['axis']))
                ref = _out(lambda: numpy.take(numpy.empty(lens), numpy.array(idx, dtype=int), cfg['axis']))
                yield what, nut, ref, True
                if nut[0] == 'ok' and ref[0] == 'ok' and nut[1] == ref[1] and idx:
                    # values: the stored constant must select the same entries
                    x = numpy.arange(float(numpy.prod(lens))).reshape(lens)
                    from nutils import function
                    got = numpy.take(function.Array.cast(x), idx, cfg['axis']).eval()
                    if not numpy.array_equal(numpy.asarray(got), numpy.take(x, idx, cfg['axis'])):
                        yield what + ' selects other entries than numpy', ('ok', (), None), ('ok', (1,), None), False
    _run(gen())


def reshape(cfg, model):
    pat = cfg['pattern']
    names = ['n%d' % i for i in range(cfg['ndim'])] + ['d%d' % k for k, p in enumerate(pat) if p != -1]
    def gen():
        for v in _values(names, model, extra=(8, 12)):
            lens = _lens(cfg['ndim'], v)
            new = -1 if cfg.get('as_int') else tuple(-1 if p == -1 else v['d%d' % k] for k, p in enumerate(pat))
            if cfg.get('ravel'):
                yield 'ravel(%r)' % (lens,), _out(lambda: numpy.ravel(_arg(lens))), _out(lambda: numpy.ravel(numpy.empty(lens))), True
            else:
                yield 'reshape(%r, %r)' % (lens, new), _out(lambda: numpy.reshape(_arg(lens), new)), _out(lambda: numpy.reshape(numpy.empty(lens), new)), True
        # sizes that do match (random values rarely do)
        rnd = random.Random(2)
        for _ in range(300):
            lens = tuple(rnd.choice((1, 2, 3, 4, 6)) for _ in range(cfg['ndim']))
            size = int(numpy.prod(lens, dtype=int))
            new = []
            rest = size
            for p in pat:
                if p == -1:
                    new.append(-1)
                else:
                    ds = [d for d in range(1, rest + 1) if rest % d == 0]
                    d = rnd.choice(ds)
                    new.append(d)
                    rest //= d
            if -1 not in new and new:
                new[-1] *= rest
            new = -1 if cfg.get('as_int') else tuple(new)
            yield 'reshape(%r, %r)' % (lens, new), _out(lambda: numpy.reshape(_arg(lens), new)), _out(lambda: numpy.reshape(numpy.empty(lens), new)), True
    _run(gen())


def typecast(cfg, model):
    from nutils import function
    dts = [PYT[d] for d in cfg['dtypes']]
    md = PYT[cfg['min_dtype']] if cfg['min_dtype'] else None
    def nut():
        arrs = [_arg((2,), d, 'a%d' % i) for i, d in enumerate(dts)]
        return function.typecast_arrays(*arrs, **({'min_dtype': md} if md else {}))
    def ref():
        k = numpy.result_type(*(dts + ([md] if md else [])))
        return tuple(numpy.empty((2,), dtype=k) for _ in dts)
    _run([('typecast_arrays kinds=%s min_dtype=%s' % (cfg['dtypes'], cfg['min_dtype']), _out(nut), _out(ref), True)])


def broadcasted(cfg, model):
    dts = [PYT[d] for d in cfg['dtypes']]
    def gen():
        for v in _values(_names(cfg['ranks']), model):
            sh = _shapes(cfg['ranks'], v)
            yield 'add of shapes %r kinds %s' % (sh, cfg['dtypes']), _out(lambda: numpy.add(_arg(sh[0], dts[0], 'a'), _arg(sh[1], dts[1], 'b'))), \
                _out(lambda: numpy.add(numpy.empty(sh[0], dtype=dts[0]), numpy.empty(sh[1], dtype=dts[1]))), True
    _run(gen())
