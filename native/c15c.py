"""Replay of assemble_block_csr counter-models on the real nutils.matrix code (numpy backend)."""
import itertools
import numpy
from native.c15 import wf


def _vec(m, name, dtype=int):
    n = int(m.get('len(%s)' % name, 0) or 0)
    return numpy.array([int(m.get('%s[%d]' % (name, i), 0) or 0) for i in range(n)], dtype=dtype)


def _dense(values, rowptr, colidx, ncols):
    d = numpy.zeros((len(rowptr) - 1, ncols))
    for r in range(len(rowptr) - 1):
        for k in range(rowptr[r], rowptr[r + 1]):
            d[r, colidx[k]] = values[k]
    return d


def consistent(blocks):
    ncols = sum(b[3] for b in blocks[0])
    for row in blocks:
        if any(len(b[1]) != len(row[0][1]) for b in row) or sum(b[3] for b in row) != ncols:
            return False
    return len(set(b[0].dtype for row in blocks for b in row)) == 1


def case(blocks):
    """None if the real assemble_block_csr treats this grid of well-formed blocks as the property demands, else a description."""
    from nutils import matrix
    ok = consistent(blocks)
    with matrix.backend('numpy'):
        try:
            A = matrix.assemble_block_csr(blocks)
        except AssertionError as e:
            return 'consistent blocks rejected with AssertionError: %s' % e if ok else None
        except Exception as e:
            return 'raised %s: %s' % (type(e).__name__, e)
        if not ok:
            return 'inconsistent blocks (row sizes / column sizes / dtypes) were accepted'
        got = A.export('dense')
    want = numpy.concatenate([numpy.concatenate([_dense(*b) for b in row], axis=1) for row in blocks], axis=0)
    if got.shape != want.shape or (got != want).any():
        return 'assembled matrix\n%s\ndiffers from the block matrix of the input\n%s' % (got, want)
    return None


def _csr_family(nrows, ncols):
    """all CSR blocks of that shape with <= 2 entries per row pattern drawn from a few row patterns"""
    pats = [()] + [(c,) for c in range(ncols)] + ([(0, ncols - 1)] if ncols >= 2 else [])
    for rows in itertools.product(pats, repeat=nrows):
        colidx = [c for r in rows for c in r]
        rowptr = numpy.cumsum([0] + [len(r) for r in rows])
        yield numpy.array(colidx, dtype=int), numpy.array(rowptr, dtype=int)


def run_block(grid, m, clause):
    blocks, good, cnt = [], True, 0
    for r, nc in enumerate(grid):
        row = []
        for c in range(nc):
            tag = '%d%d' % (r, c)
            rowptr, colidx = _vec(m, 'rowptr' + tag), _vec(m, 'colidx' + tag)
            nv = int(m.get('len(values%s)' % tag, 0) or 0)
            values = numpy.arange(cnt + 1, cnt + nv + 1, dtype=float)
            cnt += nv
            ncols = int(m.get('ncols' + tag, 0) or 0)
            good = good and 0 <= ncols <= 40 and len(rowptr) <= 40 and nv <= 60 and wf(nv, rowptr, colidx, ncols)
            row.append((values, rowptr, colidx, ncols))
        blocks.append(row)
    if good:
        bad = case(blocks)
        print('model input: %s: %s' % ([[(b[0].tolist(), b[1].tolist(), b[2].tolist(), b[3]) for b in row] for row in blocks], bad or 'as specified'))
        if bad:
            print('REPLAY: VIOLATION-CONFIRMED assemble_block_csr: ' + bad)
            return
    else:
        print('the solver model does not map to small well-formed blocks; searching a small family of grids of this shape')
    # small family: block rows of 0..2 matrix rows, blocks of 0..2 columns, a few sparsity patterns each (empty blocks included)
    n = 0
    for nrows in itertools.product((1, 2, 0), repeat=len(grid)):
        for widths in itertools.product((1, 2, 0), repeat=sum(grid)):
            w = [list(widths[sum(grid[:r]):sum(grid[:r + 1])]) for r in range(len(grid))]
            if any(sum(x) != sum(w[0]) for x in w):
                continue
            fams = [list(_csr_family(nrows[r], w[r][c])) for r in range(len(grid)) for c in range(grid[r])]
            if numpy.prod([len(f) for f in fams]) > 3000:
                fams = [f[::max(1, len(f) // 4)] for f in fams]
            for choice in itertools.product(*fams):
                it, cnt, blocks = iter(choice), 0, []
                for r in range(len(grid)):
                    row = []
                    for c in range(grid[r]):
                        colidx, rowptr = next(it)
                        values = numpy.arange(cnt + 1, cnt + len(colidx) + 1, dtype=float)
                        cnt += len(colidx)
                        row.append((values, rowptr, colidx, w[r][c]))
                    blocks.append(row)
                n += 1
                bad = case(blocks)
                if bad:
                    print('search (clause %s): blocks=%s' % (clause, [[(b[0].tolist(), b[1].tolist(), b[2].tolist(), b[3]) for b in row] for row in blocks]))
                    print('REPLAY: VIOLATION-CONFIRMED assemble_block_csr: ' + bad)
                    return
                if n > 20000:
                    break
    # inconsistent inputs must be rejected
    for r in range(len(grid)):
        if grid[r] >= 2:
            blocks = [[(numpy.zeros(0), numpy.zeros(2 if (rr, c) != (r, 1) else 3, dtype=int), numpy.zeros(0, dtype=int), 1) for c in range(grid[rr])] for rr in range(len(grid))]
            bad = case(blocks)
            if bad:
                print('REPLAY: VIOLATION-CONFIRMED assemble_block_csr: ' + bad)
                return
    if len(grid) >= 2:
        blocks = [[(numpy.zeros(0), numpy.zeros(2, dtype=int), numpy.zeros(0, dtype=int), 1 if rr == 0 or c > 0 else 2) for c in range(grid[rr])] for rr in range(len(grid))]
        bad = case(blocks)
        if bad:
            print('REPLAY: VIOLATION-CONFIRMED assemble_block_csr: ' + bad)
            return
    print('REPLAY: not reproduced (model input and %d small grids of this shape behave as specified)' % n)


def run_wrappers(which):
    """eye / deprecated assemble / Matrix.__sub__, __rmul__, __truediv__ of the base class against dense numpy (numpy backend)."""
    import warnings
    from nutils import matrix
    from nutils.matrix import Matrix
    bad = None
    with matrix.backend('numpy'), warnings.catch_warnings():
        warnings.simplefilter('ignore')
        A = matrix.assemble_csr(numpy.array([1., 2., 3.]), numpy.array([0, 2, 3]), numpy.array([0, 2, 1]), 3)
        B = matrix.assemble_csr(numpy.array([5., 7.]), numpy.array([0, 1, 2]), numpy.array([1, 1]), 3)
        a, b = A.export('dense'), B.export('dense')
        try:
            if which == 'eye':
                for n in range(0, 5):
                    d = matrix.eye(n).export('dense')
                    if d.shape != (n, n) or (d != numpy.eye(n)).any():
                        bad = 'eye(%d) exports %s' % (n, d.tolist())
                try:
                    matrix.eye(-1)
                    bad = bad or 'eye(-1) is accepted'
                except ValueError:
                    pass
            elif which == 'assemble':
                d = matrix.assemble(numpy.array([1., 2., 3.]), (numpy.array([0, 0, 1]), numpy.array([0, 2, 1])), (2, 3)).export('dense')
                if d.tolist() != a.tolist():
                    bad = 'assemble(data, (rowidx, colidx), (2, 3)) exports %s, expected %s' % (d.tolist(), a.tolist())
            elif which == '__sub__':
                d = Matrix.__sub__(A, B).export('dense')
                if (d != a - b).any():
                    bad = 'Matrix.__sub__(A, B) exports %s, expected %s' % (d.tolist(), (a - b).tolist())
            elif which == '__rmul__':
                d = Matrix.__rmul__(A, 2.5).export('dense')
                if (d != 2.5 * a).any():
                    bad = 'Matrix.__rmul__(A, 2.5) exports %s, expected %s' % (d.tolist(), (2.5 * a).tolist())
            elif which == '__truediv__':
                d = Matrix.__truediv__(A, 4).export('dense')
                if (d != a / 4).any():
                    bad = 'Matrix.__truediv__(A, 4) exports %s, expected %s' % (d.tolist(), (a / 4).tolist())
                try:
                    Matrix.__truediv__(A, 0)
                    bad = bad or 'A / 0 does not raise ZeroDivisionError'
                except ZeroDivisionError:
                    pass
        except Exception as e:
            bad = 'raised %s: %s' % (type(e).__name__, e)
    if bad:
        print('REPLAY: VIOLATION-CONFIRMED %s: %s' % (which, bad))
    else:
        print('REPLAY: not reproduced (%s behaves as specified on the sample matrices)' % which)
