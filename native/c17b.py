"""Native replays for the C17 interning / canonical-construction contracts (contracts/C17_intern.py).
Each function exercises the REAL nutils classes on a small concrete family and prints REPLAY: VIOLATION-CONFIRMED when
the behaviour the contract demands does not hold."""
import inspect, pickle


def _confirm(msg):
    print(msg)
    print('REPLAY: VIOLATION-CONFIRMED ' + msg.split(':')[0])
    return True


def canonicalizer():
    from nutils import types

    def f(a, b=4, *, c=5):
        pass

    def g(a, **kw):
        pass
    try:
        canon = types.argument_canonicalizer(inspect.signature(f))
        calls = [((1,), {}), ((1, 4), {}), ((1,), {'c': 5}), ((), {'c': 5, 'b': 4, 'a': 1}), ((1,), {'b': 4})]
        res = [canon(*a, **k) for a, k in calls]
        if any(r != ((1, 4), {'c': 5}) for r in res):
            return _confirm('argument_canonicalizer: spellings of f(1) with f(a, b=4, *, c=5) canonicalise to %r' % (res,))
        canon = types.argument_canonicalizer(inspect.signature(g))
        res = [canon(1, p=2, q=3), canon(1, q=3, p=2), canon(q=3, a=1, p=2)]
        if any(r[0] != (1,) or dict(r[1]) != {'p': 2, 'q': 3} for r in res):
            return _confirm('argument_canonicalizer: spellings of g(1, p=2, q=3) canonicalise to %r' % (res,))
    except Exception as e:
        return _confirm('argument_canonicalizer: raises %s: %s' % (type(e).__name__, e))
    print('REPLAY: not reproduced')


def _classes(base):
    log = []

    class ABC(base):
        def __init__(self, a, b, c='dflt'):
            log.append(('ABC', a, b, c, hasattr(self, '_args')))

    class AK(base):
        def __init__(self, a, b='dflt', *, k='dfltk'):
            log.append(('AK', a, b, k, hasattr(self, '_args')))

    class AKW(base):
        def __init__(self, a, **kw):
            log.append(('AKW', a, tuple(sorted(kw.items())), hasattr(self, '_args')))
    spell = {ABC: [lambda C: C(1, 2), lambda C: C(1, b=2), lambda C: C(b=2, a=1), lambda C: C(1, 2, 'dflt'), lambda C: C(1, 2, c='dflt'), lambda C: C(c='dflt', a=1, b=2)],
             AK: [lambda C: C(1), lambda C: C(1, 'dflt'), lambda C: C(1, k='dfltk'), lambda C: C(k='dfltk', b='dflt', a=1), lambda C: C(1, b='dflt')],
             AKW: [lambda C: C(1, p=2, q=3), lambda C: C(1, q=3, p=2), lambda C: C(q=3, a=1, p=2)]}
    want = {ABC: (1, 2, 'dflt', ()), AK: (1, 'dflt', (('k', 'dfltk'),)), AKW: (1, (('p', 2), ('q', 3)))}
    return log, spell, want


def immutable_args():
    from nutils import types
    log, spell, want = _classes(types.Immutable)
    try:
        for C, calls in spell.items():
            objs = [mk(C) for mk in calls]
            for o in objs:
                if o._args != want[C]:
                    return _confirm('Immutable._args: %s built one way has _args %r, canonical form is %r' % (C.__name__, o._args, want[C]))
                if o != objs[0] or hash(o) != hash(objs[0]) or types.nutils_hash(o) != types.nutils_hash(objs[0]):
                    return _confirm('Immutable: two spellings of one call of %s give unequal objects / hashes' % C.__name__)
        if not all(e[-1] for e in log):
            return _confirm('Immutable._new: __init__ runs before _args is set')
    except Exception as e:
        return _confirm('Immutable construction: raises %s: %s' % (type(e).__name__, e))
    print('REPLAY: not reproduced')


def singleton_identity():
    from nutils import types
    log, spell, want = _classes(types.Singleton)
    try:
        for C, calls in spell.items():
            del log[:]
            objs = [mk(C) for mk in calls]
            if any(o is not objs[0] for o in objs):
                return _confirm('Singleton: spellings of one call of %s give %d distinct live objects' % (C.__name__, len(set(map(id, objs)))))
            if len(log) != 1:
                return _confirm('Singleton: %d constructions for one value of %s' % (len(log), C.__name__))
            if objs[0]._args != want[C]:
                return _confirm('Singleton._args: %r, canonical form is %r' % (objs[0]._args, want[C]))

        class Boom(types.Singleton):
            def __init__(self, a):
                if a == 'bad':
                    raise ValueError('boom')
        try:
            Boom('bad')
        except ValueError:
            pass
        if len(Boom._cache):
            return _confirm('Singleton: a failed construction left an entry in the intern table')
        keep = Boom('good')
        if Boom('good') is not keep or Boom(a='good') is not keep:
            return _confirm('Singleton: a cached live object is not returned')
    except Exception as e:
        return _confirm('Singleton construction: raises %s: %s' % (type(e).__name__, e))
    print('REPLAY: not reproduced')


class _PickleI:
    pass


def reduce_roundtrip():
    from nutils import types
    for base in (types.Immutable, types.Singleton):
        log, spell, want = _classes(base)
        try:
            for C, calls in spell.items():
                o = calls[1](C)
                f, args = o.__reduce__()
                if args != want[C]:
                    return _confirm('Immutable.__reduce__: passes %r, canonical args are %r' % (args, want[C]))
                r = f(*args)
                if type(r) is not C or r._args != o._args or r != o and base is types.Immutable:
                    return _confirm('Immutable.__reduce__: rebuilt %s differs (%r vs %r)' % (C.__name__, getattr(r, '_args', None), o._args))
                if base is types.Singleton and r is not o:
                    return _confirm('Immutable.__reduce__: a rebuilt Singleton is a second live object')
        except Exception as e:
            return _confirm('Immutable.__reduce__: raises %s: %s' % (type(e).__name__, e))
    print('REPLAY: not reproduced')


def dataclass_interning():
    from nutils import types
    log = []

    class D(types.DataClass):
        a: int
        b: int
        c: str = 'dflt'

        def __post_init__(self):
            log.append((getattr(self, 'a', None), getattr(self, 'b', None), getattr(self, 'c', None), len(type(self)._DataClassMeta__cache)))
            if self.a == 'bad':
                raise ValueError('boom')
    try:
        calls = [lambda: D(1, 2), lambda: D(1, b=2), lambda: D(b=2, a=1), lambda: D(1, 2, 'dflt'), lambda: D(1, 2, c='dflt'), lambda: D(c='dflt', a=1, b=2)]
        objs = [mk() for mk in calls]
        if any(o is not objs[0] for o in objs):
            return _confirm('DataClassMeta.__call__: spellings of one call give %d distinct live objects' % len(set(map(id, objs))))
        if len(log) != 1:
            return _confirm('DataClassMeta.__call__: %d constructions (__post_init__ calls) for one value' % len(log))
        if log[0] != (1, 2, 'dflt', 0):
            return _confirm('DataClassMeta.__call__: __post_init__ saw attributes/table %r, expected (1, 2, dflt) and an empty table' % (log[0],))
        if (objs[0].a, objs[0].b, objs[0].c) != (1, 2, 'dflt') or set(vars(objs[0])) - {'__nutils_hash__'} != {'a', 'b', 'c'}:
            return _confirm('DataClassMeta.__call__: attributes %r are not the canonical arguments' % (vars(objs[0]),))
        if D(2, 1) is objs[0] or D(1, 2, 'other') is objs[0]:
            return _confirm('DataClassMeta.__call__: different arguments return the cached object')
        n = len(D._DataClassMeta__cache)
        try:
            D('bad', 0)
        except ValueError:
            pass
        if len(D._DataClassMeta__cache) != n:
            return _confirm('DataClassMeta.__call__: a failed construction left an entry in the intern table')
        f, args = objs[0].__reduce__()
        if args != (1, 2, 'dflt') or f(*args) is not objs[0]:
            return _confirm('DataClass.__reduce__: %r does not rebuild the same object' % (args,))
    except Exception as e:
        return _confirm('DataClass construction: raises %s: %s' % (type(e).__name__, e))
    print('REPLAY: not reproduced')


def hashable_function_identifier(rewrap=False):
    from nutils import types

    def f(x):
        return x + 1

    def g(x):
        return x + 2
    try:
        want = types.nutils_hash(('hashable_function', 'id-1'))
        w = types.hashable_function('id-1')(f)
        if types.nutils_hash(w) != want or w.__wrapped__ is not f or w(1) != 2:
            return _confirm('hashable_function: the hash of the wrapper is not that of its identifier')
        if types.nutils_hash(types.hashable_function('id-1')(g)) != want or types.nutils_hash(types.hashable_function('id-2')(f)) == want:
            return _confirm('hashable_function: the hash does not depend solely on the identifier')
        b = types.hashable_function(f)
        if types.nutils_hash(b) != types.nutils_hash(('hashable_function', inspect.getsource(f))) or b.__wrapped__ is not f:
            return _confirm('hashable_function: the bare decorator does not hash the source of the function')
        if rewrap:
            w2 = types.hashable_function('id-2')(w)
            if types.nutils_hash(w2) != types.nutils_hash(('hashable_function', 'id-2')):
                return _confirm("hashable_function: re-decorating a hashable function with identifier 'id-2' keeps the hash of 'id-1' (update_wrapper copies __nutils_hash__ from the wrapped function's __dict__)")
    except Exception as e:
        return _confirm('hashable_function: raises %s: %s' % (type(e).__name__, e))
    print('REPLAY: not reproduced')


def hashable_function_rewrap():
    hashable_function_identifier(rewrap=True)


def arraydata_width():
    import numpy
    from nutils import types
    try:
        groups = [[numpy.array([[1, 2], [3, 4]], dtype=t) for t in (numpy.int8, numpy.int16, numpy.int32, numpy.int64, numpy.uint8, numpy.uint32, numpy.uint64, int)] + [[[1, 2], [3, 4]]],
                  [numpy.array([1.5, -2.25], dtype=t) for t in (numpy.float16, numpy.float32, numpy.float64, float)] + [[1.5, -2.25]],
                  [numpy.array([1 + 2j, -1j], dtype=t) for t in (numpy.complex64, numpy.complex128)],
                  [numpy.array([True, False]), [True, False]]]
        for g in groups:
            objs = [types.arraydata(a) for a in g]
            o = objs[0]
            if any(x is not o for x in objs) or len(set(types.nutils_hash(x) for x in objs)) != 1:
                return _confirm('arraydata: equal data of different width (%s) gives different objects / hashes' % ', '.join(str(numpy.asarray(a).dtype) for a in g))
            want = {'b': bool, 'i': int, 'u': int, 'f': float, 'c': complex}[numpy.asarray(g[0]).dtype.kind]
            if o.dtype is not want or o.bytes != numpy.asarray(g[0]).astype(want).tobytes() or o.shape != numpy.asarray(g[0]).shape:
                return _confirm('arraydata: dtype/shape/bytes are not those of the array cast to the canonical dtype')
            if types.arraydata(o) is not o:
                return _confirm('arraydata: arraydata(x) is not x for an arraydata x')
        big = numpy.array([2**63 + 5], dtype=numpy.uint64)
        try:
            w = types.arraydata(big)
        except ValueError:
            pass
        else:
            if (numpy.asarray(w).astype(object) != big.astype(object)).any():
                return _confirm('arraydata: uint64 data beyond the int64 range was accepted and truncated to %r' % (numpy.asarray(w),))
        if types.nutils_hash(types.arraydata([1, 2])) == types.nutils_hash(types.arraydata([1., 2.])) or types.nutils_hash(types.arraydata([1, 2])) == types.nutils_hash(types.arraydata([[1, 2]])):
            return _confirm('arraydata: arrays of different dtype class or shape share a hash')
        try:
            types.arraydata(numpy.array(['a']))
        except ValueError:
            pass
        else:
            return _confirm('arraydata: a string array was accepted')
    except Exception as e:
        return _confirm('arraydata: raises %s: %s' % (type(e).__name__, e))
    print('REPLAY: not reproduced')


def system_hash():
    import numpy
    from nutils import mesh, function, types
    from nutils.solver import System
    try:
        domain, geom = mesh.rectilinear([2])
        basis = domain.basis('std', degree=1)
        u = function.dotarg('u', basis)
        v = function.dotarg('v', basis)
        w = function.dotarg('w', basis)
        f1 = domain.integral((u**2 - u) * function.J(geom), degree=2)
        f2 = domain.integral((u**2 + u) * function.J(geom), degree=2)
        g1 = domain.integral((u * v + u * w) * function.J(geom), degree=2)
        systems = {'f1/u': System(f1, trial='u'), 'f2/u': System(f2, trial='u'), 'g1/u,v': System(g1, trial='u', test='v'), 'g1/u,w': System(g1, trial='u', test='w'),
                   'g1/v,u': System(g1, trial='v', test='u')}
        table = [(k, types.nutils_hash(s)) for k, s in systems.items()]
        if _collide_b(table):
            return
        if types.nutils_hash(System(f1, trial='u')) != types.nutils_hash(System(f1, trial=('u',), test='u')):
            return _confirm('System.__nutils_hash__: the same system built two ways hashes differently')
    except Exception as e:
        return _confirm('System.__nutils_hash__: raises %s: %s' % (type(e).__name__, e))
    print('REPLAY: not reproduced')


def _collide_b(table):
    seen = {}
    for key, h in table:
        if h in seen:
            return _confirm('System.__nutils_hash__: systems %s and %s share a hash' % (seen[h], key))
        seen[h] = key
    return False
