"""Native searches for failing inputs of the C12 second-round contracts (run after a failed obligation).
Every routine runs the REAL nutils functions on small inputs and compares with the brute-force definition."""
import itertools, numpy
from native.c12b import _index_coords, _plain, _call, _report


def run_sorted_index():
    from nutils import numeric
    for n in range(0, 5):
        for arr in itertools.combinations_with_replacement(range(0, 4), n):
            A = numpy.array(arr, dtype=int)
            for k in range(0, 4):
                for vals in itertools.product(range(-1, 5), repeat=k):
                    V = numpy.array(vals, dtype=int)
                    desc = 'sorted_array=%r values=%r' % (list(arr), list(vals))
                    got = _call(numeric.sorted_contains, A, V)
                    want = [v in arr for v in vals]
                    if got != want:
                        print('sorted_contains %s = %r ; expected %r' % (desc, got, want))
                        print('REPLAY: VIOLATION-CONFIRMED sorted_contains')
                        return
                    got = _call(numeric.sorted_index, A, V)
                    if all(v in arr for v in vals):
                        ok = isinstance(got, list) and len(got) == k and all(0 <= g < n and arr[g] == v for g, v in zip(got, vals))
                    else:
                        ok = got == 'ValueError'
                    if not ok:
                        print('sorted_index(missing=None) %s = %r ; expected positions of the values / ValueError when one is missing' % (desc, got))
                        print('REPLAY: VIOLATION-CONFIRMED sorted_index')
                        return
                    got = _call(lambda a, v: numeric.sorted_index(a, v, missing=-7), A, V)
                    ok = isinstance(got, list) and len(got) == k and all((0 <= g < n and arr[g] == v) if v in arr else g == -7 for g, v in zip(got, vals))
                    if not ok:
                        print('sorted_index(missing=-7) %s = %r ; expected the position where the value occurs, -7 elsewhere' % (desc, got))
                        print('REPLAY: VIOLATION-CONFIRMED sorted_index')
                        return
                    got = _call(lambda a, v: numeric.sorted_index(a, v, missing='mask'), A, V)
                    found = [v for v in vals if v in arr]
                    ok = isinstance(got, list) and len(got) == len(found) and all(0 <= g < n and arr[g] == v for g, v in zip(got, found))
                    if not ok:
                        print("sorted_index(missing='mask') %s = %r ; expected the positions of %r in this order" % (desc, got, found))
                        print('REPLAY: VIOLATION-CONFIRMED sorted_index')
                        return
    print('REPLAY: not reproduced on the small inputs enumerated')


def run_pruned_support():
    """PrunedBasis over PlainBasis parents: get_support(d) must be the increasing list of the elements e with d in get_dofs(e)."""
    from nutils import function
    ndofs = 4
    tables = [[[0], [2, 3], [1, 3], [2]], [[3, 0], [0, 1], [2, 1]], [[1, 2], [0, 3], [1, 0]], [[2, 0, 1], [], [3]]]
    for dofs in tables:
        parent, pcoeffs = _plain(dofs, ndofs)
        ne = len(dofs)
        for k in range(1, ne + 1):
            for tm in itertools.combinations(range(ne), k):
                index, coords = _index_coords(k)
                b = function.PrunedBasis(parent, numpy.array(tm, dtype=int), index, coords)
                desc = 'parent dofs=%r transmap=%r' % (dofs, list(tm))
                nd = b.ndofs
                mine = [_call(b.get_dofs, e) for e in range(k)]
                for d in range(-nd - 1, nd + 1):
                    want = [e for e in range(k) if (d % nd) in mine[e]] if -nd <= d < nd else 'IndexError'
                    got = _call(b.get_support, d)
                    if got != want and _report('PrunedBasis', desc, 'get_support(%d)' % d, got, want):
                        return
    print('REPLAY: not reproduced on the small bases enumerated')


def _structured(T, N, start, lens):
    from nutils import function
    r = len(T)
    coeffs = [[(10. * i + 1 + e + 0.25 * numpy.arange(lens[i][e], dtype=float)).reshape(-1, 1) for e in range(T[i])] for i in range(r)]
    index, coords = _index_coords(int(numpy.prod(T)))
    return function.StructuredBasis(coeffs, [numpy.array(s, dtype=int) for s in start], [numpy.array(s, dtype=int) + numpy.array(l, dtype=int) for s, l in zip(start, lens)], N, T, index, coords)


def structured_tables(maxaxes=2):
    """per-axis tables as _basis_spline builds them: start non-decreasing from 0, constant number of local functions, stop[-1] >= N"""
    axes = []
    for T in (1, 2, 3):
        for p1 in (1, 2, 3):  # local functions per element
            for steps in itertools.product((0, 1, 2), repeat=T - 1):
                start = [0]
                for s in steps:
                    start.append(start[-1] + s)
                top = start[-1] + p1
                for N in range(max(1, start[-1] + 1), top + 1):
                    axes.append((T, N, start, [p1] * T))
    for r in range(1, maxaxes + 1):
        pool = axes if r == 1 else axes[::7]
        for combo in itertools.product(pool, repeat=r):
            yield [c[0] for c in combo], [c[1] for c in combo], [c[2] for c in combo], [c[3] for c in combo]


def run_structured_support(maxaxes=2):
    for T, N, start, lens in structured_tables(maxaxes):
        b = _structured(T, N, start, lens)
        desc = 'transforms_shape=%r dofs_shape=%r start_dofs=%r ndofs=%r' % (T, N, start, lens)
        ne, nd = int(numpy.prod(T)), int(numpy.prod(N))
        mine = [_call(b.get_dofs, e) for e in range(ne)]
        for d in list(range(nd)) + [-1, -nd, nd, -nd - 1]:
            want = [e for e in range(ne) if (d % nd) in mine[e]] if -nd <= d < nd else 'IndexError'
            got = _call(b.get_support, d)
            if got != want and _report('StructuredBasis', desc, 'get_support(%d) [get_dofs per element: %r]' % (d, mine), got, want):
                return
    print('REPLAY: not reproduced on the small bases enumerated')
