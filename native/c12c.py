"""Native searches for failing inputs of the C12 second-round contracts (run after a failed obligation).
Every routine runs the REAL nutils functions on small inputs and compares with the brute-force definition."""
import itertools, numpy
from native.c12b import _index_coords, _plain, _call, _report


def run_sorted_index():
    from nutils import numeric
    for n in range(0, 5):
        for arr in itertools.combinations_with_replacement(range(0, 4), n):
            A = numpy.array(arr, dtype=int)
            for k in range(0, 4):
                for vals in itertools.product(range(-1, 5), repeat=k):
                    V = numpy.array(vals, dtype=int)
                    desc = 'sorted_array=%r values=%r' % (list(arr), list(vals))
                    got = _call(numeric.sorted_contains, A, V)
                    want = [v in arr for v in vals]
                    if got != want:
                        print('sorted_contains %s = %r ; expected %r' % (desc, got, want))
                        print('REPLAY: VIOLATION-CONFIRMED sorted_contains')
                        return
                    got = _call(numeric.sorted_index, A, V)
                    if all(v in arr for v in vals):
                        ok = isinstance(got, list) and len(got) == k and all(0 <= g < n and arr[g] == v for g, v in zip(got, vals))
                    else:
                        ok = got == 'ValueError'
                    if not ok:
                        print('sorted_index(missing=None) %s = %r ; expected positions of the values / ValueError when one is missing' % (desc, got))
                        print('REPLAY: VIOLATION-CONFIRMED sorted_index')
                        return
                    got = _call(lambda a, v: numeric.sorted_index(a, v, missing=-7), A, V)
                    ok = isinstance(got, list) and len(got) == k and all((0 <= g < n and arr[g] == v) if v in arr else g == -7 for g, v in zip(got, vals))
                    if not ok:
                        print('sorted_index(missing=-7) %s = %r ; expected the position where the value occurs, -7 elsewhere' % (desc, got))
                        print('REPLAY: VIOLATION-CONFIRMED sorted_index')
                        return
                    got = _call(lambda a, v: numeric.sorted_index(a, v, missing='mask'), A, V)
                    found = [v for v in vals if v in arr]
                    ok = isinstance(got, list) and len(got) == len(found) and all(0 <= g < n and arr[g] == v for g, v in zip(got, found))
                    if not ok:
                        print("sorted_index(missing='mask') %s = %r ; expected the positions of %r in this order" % (desc, got, found))
                        print('REPLAY: VIOLATION-CONFIRMED sorted_index')
                        return
    print('REPLAY: not reproduced on the small inputs enumerated')


def run_pruned_support():
    """PrunedBasis over PlainBasis parents: get_support(d) must be the increasing list of the elements e with d in get_dofs(e)."""
    from nutils import function
    ndofs = 4
    tables = [[[0], [2, 3], [1, 3], [2]], [[3, 0], [0, 1], [2, 1]], [[1, 2], [0, 3], [1, 0]], [[2, 0, 1], [], [3]]]
    for dofs in tables:
        parent, pcoeffs = _plain(dofs, ndofs)
        ne = len(dofs)
        for k in range(1, ne + 1):
            for tm in itertools.combinations(range(ne), k):
                index, coords = _index_coords(k)
                b = function.PrunedBasis(parent, numpy.array(tm, dtype=int), index, coords)
                desc = 'parent dofs=%r transmap=%r' % (dofs, list(tm))
                nd = b.ndofs
                mine = [_call(b.get_dofs, e) for e in range(k)]
                for d in range(-nd - 1, nd + 1):
                    want = [e for e in range(k) if (d % nd) in mine[e]] if -nd <= d < nd else 'IndexError'
                    got = _call(b.get_support, d)
                    if got != want and _report('PrunedBasis', desc, 'get_support(%d)' % d, got, want):
                        return
    print('REPLAY: not reproduced on the small bases enumerated')


def _structured(T, N, start, lens):
    from nutils import function
    r = len(T)
    coeffs = [[(10. * i + 1 + e + 0.25 * numpy.arange(lens[i][e], dtype=float)).reshape(-1, 1) for e in range(T[i])] for i in range(r)]
    index, coords = _index_coords(int(numpy.prod(T)))
    return function.StructuredBasis(coeffs, [numpy.array(s, dtype=int) for s in start], [numpy.array(s, dtype=int) + numpy.array(l, dtype=int) for s, l in zip(start, lens)], N, T, index, coords)


def structured_tables(maxaxes=2):
    """per-axis tables as _basis_spline builds them: start non-decreasing from 0, constant number of local functions, stop[-1] >= N"""
    axes = []
    for T in (1, 2, 3):
        for p1 in (1, 2, 3):  # local functions per element
            for steps in itertools.product((0, 1, 2), repeat=T - 1):
                start = [0]
                for s in steps:
                    start.append(start[-1] + s)
                top = start[-1] + p1
                for N in range(max(1, start[-1] + 1), top + 1):
                    axes.append((T, N, start, [p1] * T))
    for r in range(1, maxaxes + 1):
        pool = axes if r == 1 else axes[::7]
        for combo in itertools.product(pool, repeat=r):
            yield [c[0] for c in combo], [c[1] for c in combo], [c[2] for c in combo], [c[3] for c in combo]


def run_structured_support(maxaxes=2):
    for T, N, start, lens in structured_tables(maxaxes):
        b = _structured(T, N, start, lens)
        desc = 'transforms_shape=%r dofs_shape=%r start_dofs=%r ndofs=%r' % (T, N, start, lens)
        ne, nd = int(numpy.prod(T)), int(numpy.prod(N))
        mine = [_call(b.get_dofs, e) for e in range(ne)]
        for d in list(range(nd)) + [-1, -nd, nd, -nd - 1]:
            want = [e for e in range(ne) if (d % nd) in mine[e]] if -nd <= d < nd else 'IndexError'
            got = _call(b.get_support, d)
            if got != want and _report('StructuredBasis', desc, 'get_support(%d) [get_dofs per element: %r]' % (d, mine), got, want):
                return
    print('REPLAY: not reproduced on the small bases enumerated')


def run_ctor(cls):
    """the constructors on small inputs: accepted exactly when the documented checks hold, and the stored tables are the class invariant"""
    from nutils import function
    def bad(desc, what):
        print('%s(%s): %s' % (cls, desc, what))
        print('REPLAY: VIOLATION-CONFIRMED %s constructor' % cls)
        return True
    if cls == 'DiscontBasis':
        for counts in itertools.chain.from_iterable(itertools.product(range(0, 3), repeat=n) for n in (1, 2, 3)):
            index, coords = _index_coords(len(counts))
            coeffs = [numpy.zeros((c, 1)) for c in counts]
            b = function.DiscontBasis(coeffs, index, coords)
            want = [0] + list(numpy.cumsum(counts))
            if list(b._offsets) != want or b.ndofs != want[-1] or b.nelems != len(counts):
                if bad('rows per element %r' % (counts,), '_offsets=%r ndofs=%r nelems=%r ; expected offsets %r' % (list(b._offsets), b.ndofs, b.nelems, want)):
                    return
        try:
            index, coords = _index_coords(1)
            function.DiscontBasis([numpy.zeros((2,))], index, coords)
            if bad('a 1-D coefficient table', 'accepted'):
                return
        except AssertionError:
            pass
        except Exception:
            pass
    elif cls == 'PlainBasis':
        for ne in (1, 2):
            for rows in itertools.product(range(0, 3), repeat=ne):
                for lens in itertools.product(range(0, 3), repeat=ne):
                    for extra in (0, 1):
                        index, coords = _index_coords(ne)
                        coeffs = [numpy.zeros((r, 1)) for r in rows]
                        dofs = [numpy.zeros(l, dtype=int) for l in lens] + [numpy.zeros(0, dtype=int)] * extra
                        good = extra == 0 and rows == lens
                        try:
                            b = function.PlainBasis(coeffs, dofs, 7, index, coords)
                            ok = good and b.ndofs == 7 and b.nelems == ne and len(b._dofs) == ne and len(b._coeffs) == ne
                        except AssertionError:
                            ok = not good
                        except Exception as e:
                            ok = not good
                        if not ok and bad('rows %r, dof counts %r (+%d arrays)' % (rows, lens, extra), 'accepted/rejected wrongly or wrong ndofs/nelems'):
                            return
    elif cls == 'MaskedBasis':
        parent, _ = _plain([[0, 1], [2, 3]], 4)
        for k in range(0, 4):
            for ind in itertools.product(range(-1, 6), repeat=k):
                good = all(a < b for a, b in zip(ind, ind[1:])) and all(0 <= a < 4 for a in ind)
                try:
                    b = function.MaskedBasis(parent, numpy.array(ind, dtype=int))
                    ren = numpy.asarray(b._renumber.value).tolist()
                    ok = good and b.ndofs == k and b.nelems == 2 and ren == [ind.index(j) if j in ind else k for j in range(4)]
                    what = 'accepted, ndofs=%r nelems=%r renumber=%r' % (b.ndofs, b.nelems, ren)
                except ValueError:
                    ok, what = not good, 'ValueError'
                except Exception as e:
                    ok, what = False, type(e).__name__
                if not ok and bad('indices=%r on 4 parent dofs' % (list(ind),), what + (' ; expected to be accepted with the inverse map' if good else ' ; expected ValueError')):
                    return
        try:
            function.MaskedBasis(parent, numpy.zeros((1, 1), dtype=int))
            if bad('2-D indices', 'accepted'):
                return
        except ValueError:
            pass
    elif cls == 'PrunedBasis':
        tables = [[[0], [2, 3], [1, 3], [2]], [[3, 0], [0, 1], [2, 1]], [[1, 2], [0, 3], [1, 0]], [[3, 3], [1]]]
        for dofs in tables:
            parent, _ = _plain(dofs, 4)
            ne = len(dofs)
            for k in range(1, ne + 1):
                for tm in itertools.combinations(range(ne), k):
                    index, coords = _index_coords(k)
                    b = function.PrunedBasis(parent, numpy.array(tm, dtype=int), index, coords)
                    want = sorted(set(d for e in tm for d in dofs[e]))
                    ren = [want.index(j) if j in want else len(want) for j in range(4)]
                    if list(b._dofmap) != want or list(b._renumber) != ren or b.ndofs != len(want) or b.nelems != k:
                        if bad('parent dofs=%r transmap=%r' % (dofs, list(tm)), '_dofmap=%r _renumber=%r ndofs=%r nelems=%r ; expected dofmap %r renumber %r' % (list(b._dofmap), list(b._renumber), b.ndofs, b.nelems, want, ren)):
                            return
    elif cls == 'StructuredBasis':
        for T, N, start, lens in itertools.islice(structured_tables(2), 0, 400):
            try:
                b = _structured(T, N, start, lens)
            except Exception as e:
                if bad('transforms_shape=%r dofs_shape=%r start=%r counts=%r' % (T, N, start, lens), 'valid tables rejected: %s: %s' % (type(e).__name__, e)):
                    return
            ok = all(list(b._ndofs[i]) == list(lens[i]) for i in range(len(T))) and b.ndofs == int(numpy.prod(N)) and b.nelems == int(numpy.prod(T)) \
                and all(list(b._start_dofs[i]) == list(start[i]) and list(b._stop_dofs[i]) == [s + l for s, l in zip(start[i], lens[i])] for i in range(len(T))) \
                and list(b._dofs_shape) == list(N) and list(b._transforms_shape) == list(T)
            if not ok and bad('transforms_shape=%r dofs_shape=%r start=%r counts=%r' % (T, N, start, lens), '_ndofs=%r ndofs=%r nelems=%r' % ([list(x) for x in b._ndofs], b.ndofs, b.nelems)):
                return
    print('REPLAY: not reproduced on the small inputs enumerated')


def run_getitem():
    """basis[mask] / basis[index array]: MaskedBasis exactly for a mask of length ndofs / a strictly increasing index array"""
    from nutils import function
    parent, _ = _plain([[0, 1], [2, 1]], 3)
    for n in range(0, 6):
        for mask in itertools.product([False, True], repeat=n):
            try:
                r = parent[numpy.array(mask, dtype=bool)]
                got = ('MaskedBasis', r._indices.tolist()) if isinstance(r, function.MaskedBasis) else type(r).__name__
            except Exception as e:
                got = type(e).__name__
            want = ('MaskedBasis', [i for i, m in enumerate(mask) if m]) if n == 3 else None
            if (n == 3 and got != want) or (n != 3 and isinstance(got, tuple)):
                print('basis (3 dofs)[mask %r] -> %r ; expected %s' % (list(mask), got, want if n == 3 else 'no MaskedBasis for a mask of the wrong length'))
                print('REPLAY: VIOLATION-CONFIRMED Basis.__getitem__')
                return
    for k in range(0, 4):
        for ind in itertools.product(range(0, 3), repeat=k):
            inc = all(a < b for a, b in zip(ind, ind[1:]))
            try:
                r = parent[numpy.array(ind, dtype=int)]
                got = ('MaskedBasis', r._indices.tolist()) if isinstance(r, function.MaskedBasis) else type(r).__name__
            except Exception as e:
                got = type(e).__name__
            if (inc and got != ('MaskedBasis', list(ind))) or (not inc and (isinstance(got, tuple) or got.endswith('Error'))):
                print('basis (3 dofs)[index array %r] -> %r ; expected %s' % (list(ind), got, 'MaskedBasis with these indices' if inc else 'plain array indexing (no MaskedBasis, no error)'))
                print('REPLAY: VIOLATION-CONFIRMED Basis.__getitem__')
                return
    print('REPLAY: not reproduced on the small inputs enumerated')
