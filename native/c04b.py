"""Native replay for the array-level derivative rules (contracts/C04b.py): build the REAL node of the scenario with
Argument children, evaluate the real symbolic derivative with respect to each child and compare with central differences
of the real evaluation.  Model values of the solver (symbols `f[i,j]`) are used where given."""
import itertools, re
import numpy


def _shape_of(tag):
    m = re.match(r'A([0-9x]+)_B', tag)
    if not m:
        return (2,)
    return tuple(int(n) for n in m.group(1).split('x') if n != '0')


def build(cls, label):
    from nutils import evaluable as ev, types
    A = _shape_of(label)
    c = ev.constant
    arg = lambda n, shp, dt=float: ev.Argument(n, tuple(c(int(k)) for k in shp), dt)
    if cls == 'InsertAxis':
        f = arg('f', A)
        return ev.InsertAxis(f, c(3)), {'f': A}
    if cls == 'Sum':
        f = arg('f', A + (3,))
        return ev.Sum(f), {'f': A + (3,)}
    if cls == 'TakeDiag':
        f = arg('f', A + (2, 2))
        return ev.TakeDiag(f), {'f': A + (2, 2)}
    if cls == 'Take':
        f = arg('f', A + (3,))
        return ev.Take(f, c(numpy.array([[2, 0], [1, 2]]))), {'f': A + (3,)}
    if cls == 'Inflate':
        f = arg('f', A + (2, 2))
        return ev.Inflate(f, c(numpy.array([[0, 2], [2, 1]])), c(4)), {'f': A + (2, 2)}
    if cls == 'Diagonalize':
        f = arg('f', A + (2,))
        return ev.Diagonalize(f), {'f': A + (2,)}
    if cls == 'Ravel':
        f = arg('f', A + (2, 3))
        return ev.Ravel(f), {'f': A + (2, 3)}
    if cls == 'Unravel':
        f = arg('f', A + (6,))
        return ev.Unravel(f, c(2), c(3)), {'f': A + (6,)}
    if cls == 'Multiply':
        f, g = arg('f', A), arg('g', A)
        return ev.Multiply(types.frozenmultiset([f, g])), {'f': A, 'g': A}
    if cls == 'Add':
        f, g, h = arg('f', A), arg('g', A), arg('h', A)
        return ev.Add(types.frozenmultiset([ev.Add(types.frozenmultiset([f, g])), h])), {'f': A, 'g': A, 'h': A}
    if cls == 'Product':
        f = arg('f', A + (3,))
        return ev.Product(f), {'f': A + (3,)}
    if cls == 'Transpose':
        shp = A + (2, 3)
        axes = tuple(range(len(A))) + (len(A) + 1, len(A))
        if len(A) == 2:
            axes = (1, 3, 0, 2)
        return ev.Transpose(arg('f', shp), axes), {'f': shp}
    if cls == 'Inverse':
        return ev.Inverse(arg('f', A + (2, 2))), {'f': A + (2, 2)}
    if cls == 'Determinant':
        return ev.Determinant(arg('f', A + (2, 2))), {'f': A + (2, 2)}
    if cls == 'Power' and label.startswith('constant'):
        return ev.Power(arg('f', (6,)), c(numpy.array([0., 1., 2., 3., -1., .5]))), {'f': (6,)}
    if cls == 'Power':
        return ev.Power(arg('f', (2,)), arg('g', (2,))), {'f': (2,), 'g': (2,)}
    if cls == 'Legendre':
        return ev.Legendre(arg('x', (2,)), 4), {'x': (2,)}
    if cls == 'Argument':
        shp = {'shape0': (), 'shape2': (2,), 'shape2x3': (2, 3)}.get(label.split(',')[0], (2,))
        if 'integer' in label or 'other' in label:
            return None, None
        return arg('a', shp), {'a': shp}
    if cls == 'Choose':
        ch = arg('c', (2, 2, 3))
        return ev.Choose(c(numpy.array([[2, 0], [1, 1]])), ch), {'c': (2, 2, 3)}
    if cls == 'Pointwise':
        return ev.ArcTan2(arg('x', (2,)), arg('y', (2,))), {'x': (2,), 'y': (2,)}
    if cls == 'Holomorphic':
        return ev.Sin(arg('x', (2,))), {'x': (2,)}
    return None, None


def check(cls, label, model=None):
    from nutils import evaluable as ev
    node, shapes = build(cls, label)
    if node is None:
        print('REPLAY: no native recipe for %s/%s' % (cls, label))
        return
    rng = numpy.random.RandomState(1)
    model = model or {}
    trials = []
    for trial in range(4):
        vals = {}
        for n, shp in shapes.items():
            a = rng.uniform(.5, 1.5, size=shp)
            for idx in itertools.product(*map(range, shp)):
                key = '%s[%s]' % (n, ','.join(map(str, idx)))
                if trial == 0 and key in model:
                    try:
                        from fractions import Fraction
                        a[idx] = float(Fraction(str(model[key]).replace('?', '')))
                    except Exception:
                        pass
            vals[n] = a
        trials.append(vals)
    f = ev.compile(node)
    worst = None
    for vals in trials:
        for n, shp in shapes.items():
            var = [a for a in node.arguments if getattr(a, 'name', None) == n][0]
            try:
                d = ev.compile(ev.derivative(node, var))
                d(vals)
            except Exception as e:
                print('%s (%s): building/evaluating the symbolic derivative d/d%s of the real node raises %s: %s' % (cls, label, n, type(e).__name__, str(e)[:200]))
                print('REPLAY: VIOLATION-CONFIRMED the symbolic derivative of a differentiable node cannot be formed')
                return
            with numpy.errstate(all='ignore'):
                got = numpy.asarray(d(vals), dtype=float)
                fd = numpy.empty_like(got)
                h = 1e-6
                for idx in itertools.product(*map(range, shp)):
                    vp = {k: v.copy() for k, v in vals.items()}
                    vm = {k: v.copy() for k, v in vals.items()}
                    vp[n][idx] += h
                    vm[n][idx] -= h
                    fd[(Ellipsis,) + idx] = (numpy.asarray(f(vp), dtype=float) - numpy.asarray(f(vm), dtype=float)) / (2 * h)
            ok = numpy.isfinite(fd)
            bad = ok & ~(numpy.abs(got - fd) <= 1e-4 * (1 + numpy.abs(fd)))  # nan in `got` where the true derivative is finite counts
            if bad.any():
                i = tuple(int(k) for k in numpy.argwhere(bad)[0])
                worst = (n, {k: v.tolist() for k, v in vals.items()}, i, float(got[i]), float(fd[i]))
                break
        if worst:
            break
    if worst:
        n, vals, i, g, fd = worst
        print('%s (%s): d/d%s at %s, entry %s: symbolic derivative evaluates to %r, central difference of the real evaluation is %r' % (cls, label, n, vals, i, g, fd))
        print('REPLAY: VIOLATION-CONFIRMED symbolic derivative differs from the true derivative')
    else:
        print('REPLAY: not reproduced by central differences')


def driver(scenario):
    """evaluable.derivative on real nodes: zero rule for integer targets / independent functions, memo, shape assertion."""
    from nutils import evaluable as ev
    c = ev.constant
    bad = []
    x = ev.Argument('x', (c(2),), float)
    n = ev.Argument('n', (c(3),), int)
    y = ev.Argument('y', (c(3),), float)
    f = ev.Sin(x)
    d = ev.derivative(f, n)
    if not (isinstance(d, ev.Zeros) and tuple(int(s.__index__()) if hasattr(s, '__index__') else 0 for s in d.shape) == (2, 3)):
        bad.append('derivative to an integer argument is %r, expected zeros of shape (2, 3)' % (d,))
    d = ev.derivative(f, y)
    if not isinstance(d, ev.Zeros):
        bad.append('derivative to an argument the function does not depend on is %r' % (d,))
    seen = {}
    d1, d2 = ev.derivative(f, x, seen), ev.derivative(f, x, seen)
    if d1 is not d2:
        bad.append('the memo does not return the stored object')
    for b in bad:
        print(b)
    print('REPLAY: VIOLATION-CONFIRMED' if bad else 'REPLAY: not reproduced')
