"""Native search for a failing input of Matrix.diagonal (numpy backend): small CSR matrices, compared with the dense diagonal."""
import itertools, numpy


def run_diagonal():
    from nutils import matrix
    with matrix.backend('numpy'):
        for n in (1, 2, 3):
            cells = [(r, c) for r in range(n) for c in range(n)]
            for k in range(0, min(len(cells), 4) + 1):
                for chosen in itertools.combinations(cells, k):
                    rowptr = numpy.array([0] + [sum(1 for r, c in chosen if r <= i) for i in range(n)])
                    colidx = numpy.array([c for r, c in chosen], dtype=int)
                    values = numpy.arange(1., len(chosen) + 1)
                    A = matrix.assemble_csr(values, rowptr, colidx, n)
                    try:
                        d = A.diagonal()
                    except Exception as e:
                        print('diagonal() of CSR values=%s rowptr=%s colidx=%s raised %s: %s' % (values.tolist(), rowptr.tolist(), colidx.tolist(), type(e).__name__, e))
                        print('REPLAY: VIOLATION-CONFIRMED')
                        return
                    want = numpy.diag(A.export('dense'))
                    if not (d == want).all():
                        print('CSR values=%s rowptr=%s colidx=%s: diagonal() = %s, dense diagonal = %s' % (values.tolist(), rowptr.tolist(), colidx.tolist(), d.tolist(), want.tolist()))
                        print('REPLAY: VIOLATION-CONFIRMED Matrix.diagonal disagrees with the dense matrix')
                        return
    print('REPLAY: not reproduced on the small matrices enumerated')


def _small_matrices():
    """(values, rowptr, colidx, nrows, ncols) of small well-formed CSR matrices, including negative, zero and NaN entries, empty rows."""
    # no 0-row shapes: the numpy backend cannot assemble them (ValueError from numpy.concatenate([]); notes/C15-ext.md, candidate defect)
    for nrows, ncols in ((1, 1), (2, 2), (2, 3), (3, 2), (1, 0)):
        cells = [(r, c) for r in range(nrows) for c in range(ncols)]
        for k in range(0, min(len(cells), 3) + 1):
            for chosen in itertools.combinations(cells, k):
                rowptr = numpy.array([0] + [sum(1 for r, c in chosen if r <= i) for i in range(nrows)])
                colidx = numpy.array([c for r, c in chosen], dtype=int)
                for pool in ((1., 2., 3.), (-1., 0., -3.), (numpy.nan, 0.5, -0.5)):
                    yield numpy.array(pool[:len(chosen)], dtype=float), rowptr, colidx, nrows, ncols


def run_rowsupp():
    from nutils import matrix
    with matrix.backend('numpy'):
        for values, rowptr, colidx, nrows, ncols in _small_matrices():
            A = matrix.assemble_csr(values, rowptr, colidx, ncols)
            for tol in (0, 0.5, 0.75, 2.5):
                want = numpy.array([any(abs(values[k]) > tol for k in range(rowptr[r], rowptr[r + 1])) for r in range(nrows)], dtype=bool)  # NaN > tol is False
                try:
                    # the base-class method (NumpyMatrix overrides rowsupp; scipy/MKL matrices inherit this one), run on the numpy matrix's COO export
                    got = matrix.Matrix.rowsupp(A, tol) if tol else matrix.Matrix.rowsupp(A)
                except Exception as e:
                    print('rowsupp(%s) of CSR values=%s rowptr=%s colidx=%s raised %s: %s' % (tol, values.tolist(), rowptr.tolist(), colidx.tolist(), type(e).__name__, e))
                    print('REPLAY: VIOLATION-CONFIRMED')
                    return
                if got.shape != want.shape or (got != want).any():
                    print('CSR values=%s rowptr=%s colidx=%s (%dx%d): rowsupp(%s) = %s, rows holding an entry with |value| > tol: %s' % (
                        values.tolist(), rowptr.tolist(), colidx.tolist(), nrows, ncols, tol, got.tolist(), want.tolist()))
                    print('REPLAY: VIOLATION-CONFIRMED Matrix.rowsupp disagrees with the stored data')
                    return
    print('REPLAY: not reproduced on the small matrices enumerated')


def run_pickle():
    import pickle
    from nutils import matrix
    with matrix.backend('numpy'):
        for values, rowptr, colidx, nrows, ncols in _small_matrices():
            if numpy.isnan(values).any():
                continue
            A = matrix.assemble_csr(values, rowptr, colidx, ncols)
            desc = 'CSR values=%s rowptr=%s colidx=%s (%dx%d)' % (values.tolist(), rowptr.tolist(), colidx.tolist(), nrows, ncols)
            try:
                B = pickle.loads(pickle.dumps(A))
            except Exception as e:
                print('pickle round trip of %s raised %s: %s' % (desc, type(e).__name__, e))
                print('REPLAY: VIOLATION-CONFIRMED')
                return
            a, b = A.export('dense'), B.export('dense')
            if a.shape != b.shape or (a != b).any():
                print('%s: unpickled matrix %s differs from the original %s' % (desc, b.tolist(), a.tolist()))
                print('REPLAY: VIOLATION-CONFIRMED pickling does not preserve the matrix')
                return
    print('REPLAY: not reproduced on the small matrices enumerated')
