"""Native search for a failing input of Matrix.diagonal (numpy backend): small CSR matrices, compared with the dense diagonal."""
import itertools, numpy


def run_diagonal():
    from nutils import matrix
    with matrix.backend('numpy'):
        for n in (1, 2, 3):
            cells = [(r, c) for r in range(n) for c in range(n)]
            for k in range(0, min(len(cells), 4) + 1):
                for chosen in itertools.combinations(cells, k):
                    rowptr = numpy.array([0] + [sum(1 for r, c in chosen if r <= i) for i in range(n)])
                    colidx = numpy.array([c for r, c in chosen], dtype=int)
                    values = numpy.arange(1., len(chosen) + 1)
                    A = matrix.assemble_csr(values, rowptr, colidx, n)
                    try:
                        d = A.diagonal()
                    except Exception as e:
                        print('diagonal() of CSR values=%s rowptr=%s colidx=%s raised %s: %s' % (values.tolist(), rowptr.tolist(), colidx.tolist(), type(e).__name__, e))
                        print('REPLAY: VIOLATION-CONFIRMED')
                        return
                    want = numpy.diag(A.export('dense'))
                    if not (d == want).all():
                        print('CSR values=%s rowptr=%s colidx=%s: diagonal() = %s, dense diagonal = %s' % (values.tolist(), rowptr.tolist(), colidx.tolist(), d.tolist(), want.tolist()))
                        print('REPLAY: VIOLATION-CONFIRMED Matrix.diagonal disagrees with the dense matrix')
                        return
    print('REPLAY: not reproduced on the small matrices enumerated')
