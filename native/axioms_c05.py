"""Cross-check of the externals assumed by the C05 extension (contracts/C05b.py, contracts/c05_arr.py), called from
native/axioms.py:run -- (1) numpy.argsort(kind='stable') / numpy.nonzero as stated in the `unique` harness, (2) the dense (evalf)
meaning table of the evaluable IR constructors against the real nutils evaluation, on random small inputs."""
import numpy


def run(check, rng, n):
    a = rng.randint(0, 4, size=n)
    s = numpy.argsort(a, -1, kind='stable').astype(int, copy=False)
    rank = numpy.empty(n, dtype=int)
    rank[s] = numpy.arange(n)
    check('argsort-is-a-sorting-permutation-with-inverse', sorted(s.tolist()) == list(range(n)) and all(s[rank[m]] == m and rank[s[m]] == m for m in range(n))
          and all(a[s[i]] <= a[s[j]] for i in range(n) for j in range(i, n)), a)
    mask = rng.randint(0, 2, size=n).astype(bool)
    f = numpy.nonzero(mask)[0]
    cnt = numpy.cumsum(mask)  # count(k) = number of True in mask[0..k]
    check('nonzero-by-count', len(f) == (cnt[-1] if n else 0) and all(mask[j] for j in f) and all(f[j] < f[j + 1] for j in range(len(f) - 1))
          and all(f[cnt[i] - 1] == i for i in range(n) if mask[i]) and all(cnt[i] <= cnt[j] for i in range(n) for j in range(i, n)), mask)


def run_ir(check, rng):
    """meaning table of contracts/c05_arr.py against nutils.evaluable (needs nutils importable)"""
    from nutils import evaluable as ev
    c = ev.constant
    ev1 = lambda f: numpy.asarray(ev.eval_once(f))
    x = rng.randint(-3, 4, size=(2, 3))
    y = rng.randint(-3, 4, size=(2, 3))
    v = rng.randint(0, 6, size=4)
    X, Y, V = c(x), c(y), c(v)
    check('ir:InsertAxis', (ev1(ev.InsertAxis(X, c(4))) == numpy.repeat(x[..., None], 4, -1)).all(), x)
    for axes in ((1, 0),):
        check('ir:Transpose', (ev1(ev.Transpose(X, axes)) == x.transpose(axes)).all(), x)
    z = rng.randint(-3, 4, size=(2, 3, 4))
    for axes in ((2, 0, 1), (1, 2, 0), (0, 2, 1)):
        check('ir:Transpose3', (ev1(ev.Transpose(c(z), axes)) == z.transpose(axes)).all(), z, axes)
    check('ir:Range', ev1(ev.Range(c(5))).tolist() == [0, 1, 2, 3, 4])
    check('ir:prependaxes', (ev1(ev.prependaxes(V, (c(2), c(3)))) == numpy.broadcast_to(v, (2, 3, 4))).all(), v)
    check('ir:appendaxes', (ev1(ev.appendaxes(V, (c(2), c(3)))) == numpy.broadcast_to(v[:, None, None], (4, 2, 3))).all(), v)
    idx = rng.randint(0, 4, size=(2, 2))
    check('ir:Take', (ev1(ev.Take(V, c(idx))) == v[idx]).all(), v, idx)
    check('ir:elementwise', (ev1(X * Y + X - Y) == x * y + x - y).all() and (ev1(X * c(3) + c(1)) == x * 3 + 1).all(), x, y)
    d = int(rng.randint(1, 5))
    q, r = ev.divmod(c(rng.randint(0, 1) + v), c(d))
    check('ir:divmod', (ev1(q) == v // d).all() and (ev1(r) == v % d).all(), v, d)
    q, r = ev.divmod(V, ev.appendaxes(c(d), V.shape))
    check('ir:divmod-appendaxes', (ev1(q) == v // d).all() and (ev1(r) == v % d).all(), v, d)
    w = rng.randint(0, 6, size=3)
    check('ir:concatenate', ev1(ev.concatenate([V, c(w), V])).tolist() == v.tolist() + w.tolist() + v.tolist(), v, w)
    check('ir:Sum', (ev1(ev.Sum(X)) == x.sum(-1)).all(), x)
    dof = rng.randint(0, 5, size=(2, 3))
    want = numpy.zeros(5, dtype=int)
    numpy.add.at(want, dof.ravel(), x.ravel())
    check('ir:Inflate', (ev1(ev.Inflate(X, c(dof), c(5))) == want).all(), x, dof)
    check('ir:_flat', (ev1(ev._flat(c(z))) == z.ravel()).all() and (ev1(ev._flat(V)) == v).all() and ev1(ev._flat(c(7))).tolist() == [7], z)
    check('ir:zeros', (ev1(ev.zeros((c(2), c(3)), int)) == 0).all())
    check('ir:Diagonalize', (ev1(ev.Diagonalize(X)) == numpy.array([numpy.diag(row) for row in x])).all(), x)
    check('ir:Ravel', (ev1(ev.Ravel(c(z))) == z.reshape(2, 12)).all(), z)
    check('ir:Unravel', (ev1(ev.Unravel(c(z), c(2), c(2))) == z.reshape(2, 3, 2, 2)).all(), z)
    check('ir:Add-Multiply', (ev1(ev.add(X, Y)) == x + y).all() and (ev1(ev.multiply(X, Y)) == x * y).all(), x, y)
    for where, shape in (((1,), (2, 4)), ((1, 0), (4, 3)), ((2, 0), (4, 5, 3))):
        src = rng.randint(-3, 4, size=tuple(shape[i] for i in where))
        al = ev.align(c(src), where, tuple(c(n) for n in shape))
        perm = numpy.argsort(where)
        exp = numpy.expand_dims(src.transpose(perm), [i for i in range(len(shape)) if i not in where])
        ok = (ev1(al) == numpy.broadcast_to(exp, shape)).all()
        u, wh = ev.unalign(al)
        ok = ok and (ev1(ev.align(u, wh, al.shape)) == ev1(al)).all()
        check('ir:align-unalign', ok, src, where)
    A1 = ev.InsertAxis(V, c(3))           # axes: 0 real, 1 inserted
    A2 = ev.prependaxes(c(w), (c(4),))    # axes: 0 inserted, 1 real
    u1, u2, wh = ev.unalign(A1, A2)
    check('ir:unalign-joint', (ev1(ev.align(u1, wh, A1.shape)) == ev1(A1)).all() and (ev1(ev.align(u2, wh, A2.shape)) == ev1(A2)).all(), v, w)
    A3 = ev.InsertAxis(ev.InsertAxis(V, c(3)), c(2))
    A4 = ev.InsertAxis(ev.prependaxes(c(w), (c(4),)), c(2))
    u3, u4, wh = ev.unalign(A3, A4)
    check('ir:unalign-joint-drops-common-inserted-axes', tuple(wh) == (0, 1) and (ev1(ev.align(u3, wh, A3.shape)) == ev1(A3)).all() and (ev1(ev.align(u4, wh, A4.shape)) == ev1(A4)).all(), v, w)
