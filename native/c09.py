"""Native check of a Gauss table: integrate monomials with the real points.gaussN output (float arithmetic)."""
import math, itertools, numpy


def run(fn, d, degree, maxdeg):
    from nutils import points
    coords, weights = getattr(points, fn)(degree)
    coords, weights = numpy.asarray(coords), numpy.asarray(weights)
    p = min(degree, maxdeg)
    worst = 0
    for alpha in itertools.product(range(p + 1), repeat=d):
        if sum(alpha) > p:
            continue
        exact = math.prod(math.factorial(a) for a in alpha) / math.factorial(sum(alpha) + d)
        q = (weights * numpy.prod(coords ** numpy.array(alpha), axis=1)).sum()
        if abs(q - exact) > worst:
            worst, wa = abs(q - exact), alpha
    inside = (coords >= 0).all() and (coords.sum(1) <= 1 + 1e-15).all()
    wsum = abs(weights.sum() - 1 / math.factorial(d))
    print('%s(%d): %d points, max monomial error %.3e at %s, |sum w - 1/d!| = %.1e, inside=%s' % (fn, degree, len(weights), worst, wa if worst else None, wsum, inside))
    if worst > 1e-13 or wsum > 1e-13 or not inside:
        print('REPLAY: VIOLATION-CONFIRMED the table does not integrate monomials of degree <= %d exactly' % p)
    else:
        print('REPLAY: not reproduced in float arithmetic (error below 1e-13)')


def tensor():
    """tensor-product Gauss points: exactness on monomials x^a y^b(z^c) with different degrees per factor"""
    from nutils import element
    import itertools
    line, tri = element.getsimplex(1), element.getsimplex(2)
    for ref, degree, name in [(line * line, (2, 5), 'line*line'), (line * tri, 3, 'line*triangle'), (tri * line, 3, 'triangle*line')]:
        p = ref.getpoints('gauss', degree)
        x, w = numpy.asarray(p.coords), numpy.asarray(p.weights)
        degs = degree if isinstance(degree, tuple) else (degree,) * 2
        nd1 = 1 if name.startswith('line') else 2
        for a in itertools.product(range(4), repeat=x.shape[1]):
            if sum(a[:nd1]) > degs[0] or sum(a[nd1:]) > degs[1]:
                continue
            def simplex_int(al):
                return math.prod(math.factorial(k) for k in al) / math.factorial(sum(al) + len(al))
            exact = simplex_int(a[:nd1]) * simplex_int(a[nd1:])
            q = (w * numpy.prod(x ** numpy.array(a), axis=1)).sum()
            if abs(q - exact) > 1e-12:
                print('%s gauss %s: monomial %s integrates to %.12g, exact %.12g' % (name, degree, a, q, exact))
                print('REPLAY: VIOLATION-CONFIRMED tensor-product Gauss points/weights are inconsistent')
                return
    print('REPLAY: not reproduced')
