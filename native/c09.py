"""Native check of a Gauss table: integrate monomials with the real points.gaussN output (float arithmetic)."""
import math, itertools, numpy


def run(fn, d, degree, maxdeg):
    from nutils import points
    coords, weights = getattr(points, fn)(degree)
    coords, weights = numpy.asarray(coords), numpy.asarray(weights)
    p = min(degree, maxdeg)
    worst = 0
    for alpha in itertools.product(range(p + 1), repeat=d):
        if sum(alpha) > p:
            continue
        exact = math.prod(math.factorial(a) for a in alpha) / math.factorial(sum(alpha) + d)
        q = (weights * numpy.prod(coords ** numpy.array(alpha), axis=1)).sum()
        if abs(q - exact) > worst:
            worst, wa = abs(q - exact), alpha
    inside = (coords >= 0).all() and (coords.sum(1) <= 1 + 1e-15).all()
    wsum = abs(weights.sum() - 1 / math.factorial(d))
    print('%s(%d): %d points, max monomial error %.3e at %s, |sum w - 1/d!| = %.1e, inside=%s' % (fn, degree, len(weights), worst, wa if worst else None, wsum, inside))
    if worst > 1e-13 or wsum > 1e-13 or not inside:
        print('REPLAY: VIOLATION-CONFIRMED the table does not integrate monomials of degree <= %d exactly' % p)
    else:
        print('REPLAY: not reproduced in float arithmetic (error below 1e-13)')


def tensor():
    """tensor-product Gauss points: exactness on monomials x^a y^b(z^c) with different degrees per factor"""
    from nutils import element
    import itertools
    line, tri = element.getsimplex(1), element.getsimplex(2)
    for ref, degree, name in [(line * line, (2, 5), 'line*line'), (line * tri, 3, 'line*triangle'), (tri * line, 3, 'triangle*line')]:
        p = ref.getpoints('gauss', degree)
        x, w = numpy.asarray(p.coords), numpy.asarray(p.weights)
        degs = degree if isinstance(degree, tuple) else (degree,) * 2
        nd1 = 1 if name.startswith('line') else 2
        for a in itertools.product(range(4), repeat=x.shape[1]):
            if sum(a[:nd1]) > degs[0] or sum(a[nd1:]) > degs[1]:
                continue
            def simplex_int(al):
                return math.prod(math.factorial(k) for k in al) / math.factorial(sum(al) + len(al))
            exact = simplex_int(a[:nd1]) * simplex_int(a[nd1:])
            q = (w * numpy.prod(x ** numpy.array(a), axis=1)).sum()
            if abs(q - exact) > 1e-12:
                print('%s gauss %s: monomial %s integrates to %.12g, exact %.12g' % (name, degree, a, q, exact))
                print('REPLAY: VIOLATION-CONFIRMED tensor-product Gauss points/weights are inconsistent')
                return
    print('REPLAY: not reproduced')


# ---- index partition of sample.py (contracts/samplepart.py) -------------------------------------------------------------

def _mk(counts, space='X', perm=None):
    """a real Sample with len(counts) elements, counts[e] points in element e; perm = custom index (a permutation) or None"""
    from nutils import sample, pointsseq, points, transformseq, types
    pts = [points.CoordsPoints(types.arraydata(numpy.linspace(0, 1, n + 2)[1:-1, None].copy())) for n in counts]
    ps = pointsseq.PointsSequence.from_iter(pts, 1)
    tr = transformseq.IndexTransforms(1, len(counts))
    return sample.Sample.new(space, (tr,), ps, index=None if perm is None else numpy.asarray(perm))


def _operands(space, rng):
    out = []
    for counts in ([2, 1, 3], [1, 2], [3], [2, 0, 1], [1, 1, 1, 2]):
        out.append((_mk(counts, space), list(counts)))
        n = sum(counts)
        out.append((_mk(counts, space, rng.permutation(n)), list(counts)))
    return out


def _part_problems(s, counts, expected=None):
    """PART(s) checked natively: the index arrays are disjoint, cover range(npoints), have the advertised lengths (and order)."""
    probs = []
    if s.nelems != len(counts):
        return ['nelems = %d, expected %d' % (s.nelems, len(counts))]
    if s.npoints != sum(counts):
        probs.append('npoints = %d, expected %d' % (s.npoints, sum(counts)))
    try:
        index = [numpy.asarray(s.getindex(e)) for e in range(s.nelems)]
    except Exception as ex:
        return probs + ['getindex raised %s: %s' % (type(ex).__name__, ex)]
    for e, ind in enumerate(index):
        if ind.ndim != 1 or len(ind) != counts[e]:
            probs.append('len(getindex(%d)) = %s, the element has %d points' % (e, ind.shape, counts[e]))
    flat = numpy.concatenate([i.ravel() for i in index]) if index else numpy.zeros(0, int)
    if sorted(flat.tolist()) != list(range(sum(counts))):
        probs.append('index arrays %s do not partition range(%d)' % ([i.tolist() for i in index], sum(counts)))
    if expected is not None and not probs:
        for e, (ind, exp) in enumerate(zip(index, expected)):
            if ind.tolist() != list(exp):
                probs.append('getindex(%d) = %s, documented order gives %s' % (e, ind.tolist(), list(exp)))
                break
    return probs


def _cached(tag, fn):
    """The family searches below are deterministic functions of the source tree; a failing check replays the same search
    once per refuted obligation, so the printed result is memoised per (tag, content of sample.py/points.py)."""
    import hashlib, os, io, contextlib, nutils
    d = os.path.dirname(nutils.__file__)
    h = hashlib.sha1(tag.encode())
    for f in ('sample.py', 'points.py', 'pointsseq.py'):
        h.update(open(os.path.join(d, f), 'rb').read())
    h.update(open(__file__, 'rb').read())
    cdir = os.path.join(os.path.expanduser('~'), '.cache', 'verif-scratch', 'c09-replay-cache')
    path = os.path.join(cdir, h.hexdigest())
    try:
        print(open(path).read(), end='')
        return
    except OSError:
        pass
    buf = io.StringIO()
    with contextlib.redirect_stdout(buf):
        fn()
    print(buf.getvalue(), end='')
    try:
        os.makedirs(cdir, exist_ok=True)
        tmp = path + '.%d' % os.getpid()
        open(tmp, 'w').write(buf.getvalue())
        os.replace(tmp, path)
    except OSError:
        pass


def part(kind, clause=''):
    _cached('part:' + kind, lambda: _part(kind, 'any'))


def twin(kind):
    _cached('twin:' + kind, lambda: _twin(kind))


def _part(kind, clause=''):
    """Native replay for the partition contracts: the solver's model talks about abstract operands (uninterpreted cnt/idx),
    so instead of mapping it a small concrete family of real samples of the class is searched for a PART violation."""
    from nutils import sample, types
    rng = numpy.random.RandomState(1)
    cases = []
    if kind == '_Empty':
        s = sample.Sample.empty(('X',), 1)
        bad = []
        if s.nelems != 0 or s.npoints != 0:
            bad.append('nelems/npoints = %d/%d' % (s.nelems, s.npoints))
        for i in (-1, 0, 1):
            try:
                s.getindex(i)
                bad.append('getindex(%d) returned' % i)
            except IndexError:
                pass
            except Exception as ex:
                bad.append('getindex(%d) raised %s' % (i, type(ex).__name__))
        return _report(kind, clause, [('empty', bad)] if bad else [])
    ops1 = _operands('X', rng)
    if kind in ('_DefaultIndex', '_CustomIndex'):
        for s, counts in ops1:
            if type(s).__name__ != kind:
                continue
            off = numpy.cumsum([0] + counts)
            default = [list(range(off[e], off[e + 1])) for e in range(len(counts))]
            if kind == '_DefaultIndex':
                probs = _part_problems(s, counts, default)
                if list(numpy.asarray(s.offsets)) != list(off):
                    probs.append('offsets = %s, expected %s' % (list(numpy.asarray(s.offsets)), list(off)))
                for i in (-1, len(counts)):
                    try:
                        s.getindex(i)
                        probs.append('getindex(%d) returned for nelems=%d' % (i, len(counts)))
                    except IndexError:
                        pass
                    except Exception as ex:
                        probs.append('getindex(%d) raised %s' % (i, type(ex).__name__))
            else:
                perm = numpy.asarray(s._index)
                probs = _part_problems(s, counts, [[perm[p] for p in d] for d in default])
            cases.append(('counts=%s' % counts, probs))
    elif kind in ('_Add', '_Mul', '_Zip'):
        ops2 = _operands('X' if kind == '_Add' else 'Y', rng)
        for s1, c1 in ops1[:4]:
            for s2, c2 in (ops2[:4] if kind != '_Zip' else ops2):
                try:
                    i1, i2 = [s1.getindex(e).tolist() for e in range(s1.nelems)], [s2.getindex(e).tolist() for e in range(s2.nelems)]
                    if kind == '_Add':
                        s = sample._Add(s1, s2)
                        counts = c1 + c2
                        exp = i1 + [[p + s1.npoints for p in ind] for ind in i2]
                    elif kind == '_Mul':
                        s = sample._Mul(s1, s2)
                        counts = [a * b for a in c1 for b in c2]
                        exp = [[p1 * s2.npoints + p2 for p1 in a for p2 in b] for a in i1 for b in i2]
                    else:
                        if s1.npoints != s2.npoints:
                            continue
                        s = sample._Zip(s1, s2)
                        counts, exp = [len(s.getindex(e)) for e in range(s.nelems)], None
                        if list(numpy.asarray(s._sizes)) != counts:
                            cases.append(('zip', ['len(getindex(e)) differs from _sizes']))
                    probs = _part_problems(s, counts, exp)
                except Exception as ex:
                    probs = ['%s: %s' % (type(ex).__name__, ex)]
                cases.append(('%s of counts %s and %s' % (kind, c1, c2), probs))
    elif kind == '_TakeElements':
        for par, cp in ops1 + [(sample._Mul(ops1[0][0], _mk([2, 1], 'Y')), [a * b for a in ops1[0][1] for b in [2, 1]])]:
            for ind in ([0], [par.nelems - 1, 0], list(range(par.nelems))[::-1], [0, 0, par.nelems - 1]):
                try:
                    s = sample._TakeElements(par, types.arraydata(numpy.array(ind)))
                    counts = [cp[i] for i in ind]
                    off = numpy.cumsum([0] + counts)
                    probs = _part_problems(s, counts, [list(range(off[e], off[e + 1])) for e in range(len(ind))])
                    if list(numpy.asarray(s._offsets)) != list(off):
                        probs.append('_offsets = %s, expected %s' % (list(numpy.asarray(s._offsets)), list(off)))
                    for i in (-1, len(ind)):
                        try:
                            s.getindex(i)
                            probs.append('getindex(%d) returned for nelems=%d' % (i, len(ind)))
                        except IndexError:
                            pass
                        except Exception as ex:
                            probs.append('getindex(%d) raised %s' % (i, type(ex).__name__))
                except Exception as ex:
                    probs = ['%s: %s' % (type(ex).__name__, ex)]
                cases.append(('take %s of counts %s' % (ind, cp), probs))
    else:
        print('REPLAY: no native recipe for', kind)
        return
    _report(kind, clause, [(n, p) for n, p in cases if p], len(cases))


def _report(kind, clause, failing, ncases=1):
    print('searched %d concrete %s samples (small family; the solver model speaks about abstract operands), clause %s' % (ncases, kind, clause))
    if failing:
        name, probs = failing[0]
        print('%d failing; first: %s: %s' % (len(failing), name, '; '.join(probs[:3])))
        print('REPLAY: VIOLATION-CONFIRMED %s.getindex does not partition range(npoints) in the documented order' % kind)
    else:
        print('REPLAY: not reproduced on the small family')


def _twin(kind):
    """get_evaluable_indices(ielem), compiled and evaluated, must give getindex(ielem) (up to the reshape to point axes)."""
    from nutils import sample, evaluable, types
    rng = numpy.random.RandomState(2)
    if kind == '_Empty':
        v = evaluable.compile(sample.Sample.empty(('X', 'Y'), 2).get_evaluable_indices(evaluable.constant(0)))({})
        if numpy.asarray(v).size != 0:
            print('REPLAY: VIOLATION-CONFIRMED _Empty.get_evaluable_indices evaluates to a non-empty array', numpy.asarray(v).shape)
        else:
            print('REPLAY: not reproduced')
        return
    ops1, ops2 = _operands('X', rng), _operands('Y', rng)
    cands = []
    if kind in ('_DefaultIndex', '_CustomIndex'):
        cands = [s for s, c in ops1 if type(s).__name__ == kind]
    elif kind == '_Mul':
        cands = [sample._Mul(a, b) for a, _ in ops1[:4] for b, _ in ops2[:4]]
    elif kind == '_Zip':
        cands = [sample._Zip(a, b) for a, _ in ops1 for b, _ in ops2 if a.npoints == b.npoints]
    elif kind == '_TakeElements':
        cands = [sample._TakeElements(a, types.arraydata(numpy.array(ind))) for a, _ in ops1[:4] for ind in ([0], [a.nelems - 1, 0])]
    n = 0
    for s in cands:
        try:
            f = evaluable.compile(s.get_evaluable_indices(evaluable.InRange(evaluable.Argument('ielem', (), int), evaluable.constant(s.nelems))))
            for e in range(s.nelems):
                n += 1
                got, want = numpy.asarray(f(dict(ielem=e))), numpy.asarray(s.getindex(e))
                if got.ravel().tolist() != want.tolist():
                    print('%s element %d: get_evaluable_indices evaluates to %s, getindex returns %s' % (kind, e, got.tolist(), want.tolist()))
                    print('REPLAY: VIOLATION-CONFIRMED evaluation scatters points to other positions than Sample.index advertises')
                    return
        except Exception as ex:
            print('%s: %s: %s' % (kind, type(ex).__name__, ex))
            print('REPLAY: VIOLATION-CONFIRMED get_evaluable_indices fails on a valid sample')
            return
    print('compared %d elements of %d %s samples' % (n, len(cands), kind))
    print('REPLAY: not reproduced on the small family')


def transform_weights():
    """TransformPoints.weights on a reflected and stretched line / square: weights must be w * |det|."""
    from nutils import points, transform, element
    for ref, A in [(element.getsimplex(1), [[-2.]]), (element.getsimplex(1) ** 2, [[0., 3.], [1., 0.]]), (element.getsimplex(2), [[.5, 0.], [0., .5]])]:
        p = ref.getpoints('gauss', 3)
        A = numpy.array(A)
        from nutils import types
        t = transform.Square(types.arraydata(A), types.arraydata(numpy.zeros(len(A))))
        tp = points.TransformPoints(p, t)
        want = numpy.asarray(p.weights) * abs(numpy.linalg.det(A))
        got = numpy.asarray(tp.weights)
        if got.shape != want.shape or not numpy.allclose(got, want, atol=1e-14):
            print('matrix %s: weights %s, expected w*|det| = %s' % (A.tolist(), got.tolist(), want.tolist()))
            print('REPLAY: VIOLATION-CONFIRMED transformed weights are not the original weights times |det|')
            return
    print('REPLAY: not reproduced')
