"""Native check of a Gauss table: integrate monomials with the real points.gaussN output (float arithmetic)."""
import math, itertools, numpy


def run(fn, d, degree, maxdeg):
    from nutils import points
    coords, weights = getattr(points, fn)(degree)
    coords, weights = numpy.asarray(coords), numpy.asarray(weights)
    p = min(degree, maxdeg)
    worst = 0
    for alpha in itertools.product(range(p + 1), repeat=d):
        if sum(alpha) > p:
            continue
        exact = math.prod(math.factorial(a) for a in alpha) / math.factorial(sum(alpha) + d)
        q = (weights * numpy.prod(coords ** numpy.array(alpha), axis=1)).sum()
        if abs(q - exact) > worst:
            worst, wa = abs(q - exact), alpha
    inside = (coords >= 0).all() and (coords.sum(1) <= 1 + 1e-15).all()
    wsum = abs(weights.sum() - 1 / math.factorial(d))
    print('%s(%d): %d points, max monomial error %.3e at %s, |sum w - 1/d!| = %.1e, inside=%s' % (fn, degree, len(weights), worst, wa if worst else None, wsum, inside))
    if worst > 1e-13 or wsum > 1e-13 or not inside:
        print('REPLAY: VIOLATION-CONFIRMED the table does not integrate monomials of degree <= %d exactly' % p)
    else:
        print('REPLAY: not reproduced in float arithmetic (error below 1e-13)')
